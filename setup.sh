#!/bin/sh
# Build the overlay venv (python of /venv + CrossHair + z3 from the offline wheelhouse).
set -e
cd "$(dirname "$0")"
if [ -x .venv/bin/python ] && .venv/bin/python -c 'import crosshair, z3' 2>/dev/null; then
  exit 0
fi
rm -rf .venv
/venv/bin/python -m venv .venv
echo "import site; site.addsitedir('/venv/lib/python3.12/site-packages')" > .venv/lib/python3.12/site-packages/_overlay.pth
PIP_NO_INDEX=1 .venv/bin/pip install -q --no-index --find-links /opt/veriftools/wheels crosshair-tool z3-solver
.venv/bin/python -c 'import crosshair, z3; print("venv ok", crosshair.__version__, z3.get_version_string())'
