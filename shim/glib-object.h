#ifndef SHIM_GOBJ_H
#define SHIM_GOBJ_H
#include <glib.h>
typedef struct _GValue GValue; typedef struct _GObject { gpointer g_class; guint ref_count; gpointer qdata; } GObject; typedef struct _GObjectClass { gpointer pad[17]; } GObjectClass; typedef struct _GTypeInterface GTypeInterface; typedef struct _GTypeClass GTypeClass;
typedef struct _GClosure GClosure;
typedef enum { G_SIGNAL_RUN_FIRST = 1 } GSignalFlags;
typedef enum { G_PARAM_READABLE = 1 } GParamFlags;
typedef void (*GCallback)(void);
#define G_TYPE_INVALID 0
#endif
