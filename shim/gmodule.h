#ifndef SHIM_GMODULE_H
#define SHIM_GMODULE_H
typedef struct _GModule GModule;
#endif
