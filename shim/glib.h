/* Shim <glib.h> for LLSYM harnesses (no GLib headers exist in the sandbox).
 * Types, macros and the handful of GLib structs whose layout the kernels touch.
 * g_assert / g_error go to noreturn stubs the harness defines (-> __llsym_fail);
 * logging is a no-op stub.  From DESIGN.md Appendix A.1. */
#ifndef SHIM_GLIB_H
#define SHIM_GLIB_H
#include <stddef.h>
#include <stdint.h>
#include <limits.h>
#include <stdarg.h>
#define G_BEGIN_DECLS
#define G_END_DECLS
#define G_GNUC_CONST
#define G_GNUC_PURE
#define G_GNUC_UNUSED __attribute__((unused))
#define G_GNUC_PRINTF(a,b)
#define G_GNUC_NORETURN __attribute__((noreturn))
#define G_GNUC_INTERNAL
#define G_GNUC_DEPRECATED
#define G_GNUC_DEPRECATED_FOR(x)
#define G_GNUC_UNAVAILABLE(a,b)
#define G_UNAVAILABLE(a,b)
#define G_DEPRECATED
#define G_DEPRECATED_FOR(x)
#define G_STMT_START do
#define G_STMT_END while (0)
#define G_GNUC_BEGIN_IGNORE_DEPRECATIONS
#define G_GNUC_END_IGNORE_DEPRECATIONS
#define G_STRINGIFY(x) #x
#define G_ENCODE_VERSION(major,minor) ((major) << 16 | (minor) << 8)
#define GLIB_CHECK_VERSION(a,b,c) 1
typedef char gchar; typedef short gshort; typedef long glong; typedef int gint; typedef gint gboolean;
typedef unsigned char guchar; typedef unsigned short gushort; typedef unsigned long gulong; typedef unsigned int guint;
typedef float gfloat; typedef double gdouble;
typedef int8_t gint8; typedef uint8_t guint8; typedef int16_t gint16; typedef uint16_t guint16;
typedef int32_t gint32; typedef uint32_t guint32; typedef int64_t gint64; typedef uint64_t guint64;
typedef size_t gsize; typedef ptrdiff_t gssize; typedef void* gpointer; typedef const void* gconstpointer;
typedef guint32 gunichar; typedef guint32 GQuark; typedef gsize GType;
#define TRUE 1
#define FALSE 0
#define G_MAXSHORT SHRT_MAX
#define G_MINSHORT SHRT_MIN
#define G_MAXUSHORT USHRT_MAX
#define G_MAXINT INT_MAX
#define G_MININT INT_MIN
#define G_MAXUINT UINT_MAX
#define G_MAXUINT16 0xffff
#define G_MAXUINT32 0xffffffffu
#define MAX(a,b) (((a)>(b))?(a):(b))
#define MIN(a,b) (((a)<(b))?(a):(b))
#define GUINT_TO_POINTER(u) ((gpointer)(gulong)(u))
#define GPOINTER_TO_UINT(p) ((guint)(gulong)(p))
#define GSIZE_TO_POINTER(u) ((gpointer)(gsize)(u))
#define G_STRUCT_OFFSET(s,m) offsetof(s,m)
#define G_N_ELEMENTS(a) (sizeof(a)/sizeof((a)[0]))
typedef struct _GList GList; struct _GList { gpointer data; GList *next; GList *prev; };
typedef struct _GSList GSList; struct _GSList { gpointer data; GSList *next; };
typedef struct _GHashTable GHashTable; typedef struct _GError GError; struct _GError { GQuark domain; gint code; gchar *message; };
typedef struct _GString GString; struct _GString { gchar *str; gsize len; gsize allocated_len; };
typedef struct _GMappedFile GMappedFile; typedef struct _GBytes GBytes; typedef struct _GOptionGroup GOptionGroup;
typedef struct _GHashTableIter { gpointer d1,d2,d3; int d4; gboolean d5; gpointer d6; } GHashTableIter;
typedef gint (*GCompareFunc)(gconstpointer a, gconstpointer b);
typedef void (*GFunc)(gpointer data, gpointer user_data);
typedef void (*GDestroyNotify)(gpointer data);
void g_error_stub(const char *fmt, ...) __attribute__((noreturn));
void g_warning_stub(const char *fmt, ...);
void g_assert_fail_stub(void) __attribute__((noreturn));
#define g_error(...) g_error_stub(__VA_ARGS__)
#define g_warning(...) g_warning_stub(__VA_ARGS__)
#define g_debug(...) ((void)0)
#define g_assert(c) do { if (!(c)) g_assert_fail_stub(); } while (0)
#define g_assert_not_reached() g_assert_fail_stub()
#define g_return_if_fail(c) do { if (!(c)) return; } while (0)
#define g_return_val_if_fail(c,v) do { if (!(c)) return (v); } while (0)
gchar *g_strdup_printf(const gchar *fmt, ...);
void g_free(gpointer p);
GList *g_list_prepend(GList *l, gpointer d);
GList *g_list_delete_link(GList *l, GList *link);
guint g_list_length(GList *l);
#define g_ascii_isupper(c) ((c) >= 'A' && (c) <= 'Z')
#endif
#ifndef SHIM_EXTRA
#define SHIM_EXTRA
#define G_STATIC_ASSERT(e) _Static_assert(e, "sa")
#define G_GSIZE_FORMAT "lu"
#define G_GINT64_FORMAT "ld"
#define G_GUINT64_FORMAT "lu"
#define GLIB_SIZEOF_SIZE_T 8
#define GLIB_SIZEOF_LONG 8
#define GLIB_SIZEOF_VOID_P 8
void g_set_error(GError **err, GQuark domain, gint code, const gchar *fmt, ...);
const gchar *g_module_error(void);
#define G_LIKELY(x) (x)
#define G_UNLIKELY(x) (x)
#define g_new(t,n) ((t*)g_malloc_n((n),sizeof(t)))
#define g_new0(t,n) ((t*)g_malloc0_n((n),sizeof(t)))
#define g_slice_new(t) ((t*)g_malloc(sizeof(t)))
#define g_slice_new0(t) ((t*)g_malloc0(sizeof(t)))
#define g_slice_free(t,p) g_free(p)
gpointer g_malloc(gsize n); gpointer g_malloc0(gsize n); gpointer g_malloc_n(gsize a, gsize b); gpointer g_malloc0_n(gsize a, gsize b);
typedef gpointer (*GBoxedCopyFunc)(gpointer); typedef void (*GBoxedFreeFunc)(gpointer);
#endif
