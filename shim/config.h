#define GOBJECT_INTROSPECTION_LIBDIR "/usr/lib"
#define GIR_SUFFIX "gir-1.0"
#define GIR_DIR "/usr/share/gir-1.0"
#define SIZEOF_CHAR 1
#define SIZEOF_SHORT 2
#define SIZEOF_INT 4
#define SIZEOF_LONG 8
