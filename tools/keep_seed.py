#!/usr/bin/env python3
"""keep_seed.py <seed dir> <PROP> <detected: yes|no|partial> <which items caught it / note>
Copies a confirmed seeded change to /verif/seeded/<name>/ and records what was run."""
import json, os, shutil, sys
src, prop, detected, note = sys.argv[1], sys.argv[2], sys.argv[3], sys.argv[4]
name = os.path.basename(os.path.normpath(src))
dst = os.path.join('/verif/seeded', name)
os.makedirs(dst, exist_ok=True)
for f in os.listdir(src):
    if f.startswith('patch') or f.startswith('demo'):
        shutil.copy(os.path.join(src, f), dst)
meta = {}
mp = os.path.join(src, 'meta.json')
if os.path.exists(mp):
    try:
        meta = json.load(open(mp))
    except ValueError:
        meta = {'raw': open(mp).read()}
meta['property'] = prop
meta['origin'] = 'independent sub-agent given only the property text and a scratch worktree'
meta['confirmed_by_me'] = ('tools/verify_seed.sh in a scratch worktree: demo exits 0 on HEAD, patch applies, '
                           'baseline suite still 267 passed, demo exits non-zero with the patch')
meta['check_run'] = 'tools/try_seed.sh %s %s (git apply to /repo, ./check %s --tier quick, git checkout -- .)' % (name, prop, prop)
meta['detected_by_check'] = detected
meta['detection_note'] = note
json.dump(meta, open(os.path.join(dst, 'meta.json'), 'w'), indent=1)
print('kept', dst)
