#!/bin/sh
# verify_seed.sh <seed dir>: confirm in a scratch worktree that (1) demo passes on HEAD, (2) the patch
# applies, (3) the baseline suite still has 267 passed, (4) demo fails with the patch.
d=$(cd "$1" && pwd); n=$(basename "$d"); wt=/tmp/vs_$n
demo=$(ls "$d"/demo.* | head -1)
run_demo() { case "$demo" in *.py) /venv/bin/python "$demo" "$1";; *.sh) sh "$demo" "$1";; *) echo "unknown demo type"; return 99;; esac; }
git -C /repo worktree add -q --detach "$wt" HEAD || exit 2
run_demo "$wt" >/tmp/vs_$n.clean.log 2>&1; c=$?
git -C "$wt" apply "$d/patch.diff" || { echo "$n: PATCH DOES NOT APPLY"; git -C /repo worktree remove --force "$wt"; exit 2; }
t=$(cd "$wt" && /venv/bin/python -m pytest -q -p no:cacheprovider --timeout=900 --continue-on-collection-errors 2>&1 | tail -1)
run_demo "$wt" >/tmp/vs_$n.patched.log 2>&1; p=$?
git -C /repo worktree remove --force "$wt"
echo "$n: demo_clean_exit=$c demo_patched_exit=$p tests: $t"
case "$t" in *"267 passed"*) ;; *) echo "$n: TESTS CHANGED"; exit 1;; esac
[ "$c" = 0 ] && [ "$p" != 0 ] && echo "$n: CONFIRMED" && exit 0
echo "$n: NOT CONFIRMED"; exit 1
