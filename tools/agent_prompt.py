#!/usr/bin/env python3
"""Print the prompt for a bug-seeding sub-agent: property text only, nothing from /verif."""
import json, sys
pid = sys.argv[1]
n = sys.argv[2] if len(sys.argv) > 2 else '2'
for l in open('/verif/properties.jsonl'):
    p = json.loads(l)
    if p['id'] == pid:
        break
print(f"""You are helping evaluate a verification effort by acting as a careful "bug seeder" for the open-source project GNOME/gobject-introspection (Python g-ir-scanner + C typelib tooling).

Your private scratch git worktree of the repository is at /tmp/wt_{pid} (work ONLY there; never touch /repo or /verif, and do not read anything under /verif). The sandbox has no network. The repo's Python interpreter is /venv/bin/python; the existing runnable test suite is:
  cd /tmp/wt_{pid} && /venv/bin/python -m pytest -q -p no:cacheprovider --timeout=900 --continue-on-collection-errors
(267 tests pass on the unchanged tree; some test modules fail to collect because the C extension giscanner._giscanner and GLib are not built here - that is expected and unchanged by your work. The pure-Python scanner modules can still be imported if you put a dummy module object in sys.modules['giscanner._giscanner'] exposing a SourceScanner class, set env GI_SCANNER_DISABLE_CACHE=1 where needed, and define builtins DATADIR/GIR_DIR; C declarations can be fed to giscanner.transformer.Transformer.parse as giscanner.sourcescanner.SourceSymbol(None, obj) wrappers around plain Python objects having the attributes the wrappers read. C code under girepository/ cannot be linked here (no GLib headers); for C changes a demonstration may compile the affected function(s) standalone with minimal stub typedefs.)

The semantic property under study:

  ID: {p['id']} - {p['title']}
  Statement: {p['statement']}
  Quantifier: {p['quantifier']['text']}
  Code it is anchored in: {', '.join(p['anchors']['files'])}
  Mechanisms: {'; '.join(m.get('name','') + ' @ ' + m.get('where','') for m in p['anchors']['mechanism'])}

Task: produce {n} DIFFERENT, independent, realistic source changes to the repository (each a separate small patch against the unchanged worktree HEAD), each of which BREAKS this property while the code still imports/compiles and the existing test suite above still passes exactly as before (same 267 passing tests). Prefer subtle changes that need something specific to manifest - an unusual input, a boundary value, a particular combination of annotations/types, a multi-step sequence, a particular interleaving/crash point, or two cooperating sites that each look fine alone - NOT ones that any ordinary use would expose at once, and not changes that crash on every input. They should look like plausible maintenance mistakes or refactorings (off-by-one, wrong operator, dropped condition, reordered checks, wrong default, stale variable), placed in the code the property is anchored in.

For each change i (1..{n}) deliver, under /tmp/wt_{pid}/seeded_out/{pid}_i/ :
  - patch.diff   : `git diff` of ONLY that change against HEAD (must apply with `git apply` to a clean checkout of HEAD)
  - demo.py (or demo.sh / demo.c): a small self-contained demonstration program that exits 0 on the unchanged tree and exits non-zero (with a clear message) when the patch is applied. It must take the repository root as its first argument (default: the worktree) so it can be run against any checkout. It must not depend on anything under /verif.
  - meta.json    : {{"property": "{pid}", "summary": "...", "needs_to_manifest": "...what specific input/sequence/condition triggers it...", "files_changed": [...], "ran": ["commands you ran and their outcome"]}}
Verify each one yourself: (a) with the patch applied the existing test suite still has 267 passed; (b) demo fails with the patch and passes without it. After producing each patch.diff, restore the worktree to clean HEAD (git checkout -- . ; keep seeded_out/ untracked). Leave the worktree clean (apart from seeded_out/) when you finish. In your final message list each change in one or two sentences with the path of its directory. Do not write anything outside /tmp/wt_{pid}.""")
