#!/bin/sh
# try_seed.sh <seed dir> <PROP> [extra check args]: apply the patch to /repo, run the quick check, undo.
d=$(cd "$1" && pwd); prop=$2; shift 2
cd /verif
git -C /repo diff --quiet || { echo "/repo not clean"; exit 2; }
git -C /repo apply "$d/patch.diff" || exit 2
./check "$prop" --tier quick "$@" > /tmp/try_$(basename "$d")_$prop.log 2>&1; rc=$?
git -C /repo checkout -- .
echo "$(basename "$d") on $prop: exit=$rc $(grep -c '^VIOLATION' /tmp/try_$(basename "$d")_$prop.log) violation line(s)"
grep -m3 -A1 '^VIOLATION\|^HARNESS-ERROR' /tmp/try_$(basename "$d")_$prop.log | cut -c1-400
# evidence files are rewritten by the mutant run: restore the committed ones
git -C /verif checkout -- evidence 2>/dev/null
exit $rc
