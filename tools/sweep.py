"""Developer aid (not a check): concrete brute-force sweep of a CH harness to
look for false alarms / genuine findings before the CrossHair run.
usage: sweep.py <module> <fn> name=lo..hi|a,b,c ... """
import itertools, sys, collections, time
sys.path.insert(0, '/verif'); sys.path.insert(0, '/verif/harness/py')
mod = __import__(sys.argv[1]); fn = getattr(mod, sys.argv[2])
names = []; doms = []
for a in sys.argv[3:]:
    k, v = a.split('=')
    names.append(k)
    if v in ('b', 'bool'):
        doms.append([False, True])
    elif '..' in v:
        lo, hi = v.split('..'); doms.append(list(range(int(lo), int(hi) + 1)))
    else:
        doms.append([int(x) for x in v.split(',')])
t0 = time.time(); n = 0; bad = collections.OrderedDict()
for combo in itertools.product(*doms):
    kw = dict(zip(names, combo)); n += 1
    try:
        r = fn(**kw)
    except Exception as e:
        r = 'raised %s: %s' % (type(e).__name__, e)
    if r is not True:
        key = str(r)[:160]
        bad.setdefault(key, []).append(kw)
print('%d combos in %.1fs, %d distinct failures' % (n, time.time() - t0, len(bad)))
for k, v in bad.items():
    print(len(v), k); print('    e.g.', v[0])
