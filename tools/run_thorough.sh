#!/bin/sh
# run every thorough tier once, one after the other; summary lines go to stdout
cd "$(dirname "$0")/.."
for p in "$@"; do
  start=$(date +%s)
  ./check "$p" --tier thorough > /tmp/thorough_$p.log 2>&1; rc=$?
  end=$(date +%s)
  echo "== $p exit=$rc wall=$((end-start))s $(grep "^$p tier=thorough" /tmp/thorough_$p.log | tail -1)"
  grep -c "inconclusive:" /tmp/thorough_$p.log | sed "s/^/   inconclusive items: /"
done
