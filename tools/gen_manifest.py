#!/usr/bin/env python3
"""Regenerate MANIFEST.json from the table below (kept in one place so the
claimed / not-applicable split is always consistent)."""
import json
import os

HERE = os.path.dirname(os.path.dirname(os.path.abspath(__file__)))

BASELINE = ("cd /repo && /venv/bin/python -m pytest -ra -q -p no:cacheprovider --timeout=900 "
            "--continue-on-collection-errors")

LL_NOTE = 'Trusted: clang lowering to IR at -O1 for this target, z3, the shim GLib headers (types/macros only), the C models of libc string functions used in the IR build (validated against glibc on every run through the native twin). Functions of files that do not compile against the shim are copied verbatim from the current /repo file by a slicer at run time (a missing function is a harness error).'

CH_NOTE = ("Trusted: CPython, CrossHair 0.0.110's models of int/bool/str primitives, z3; the C lexer is "
           "replaced by plain declaration records fed to the real SourceSymbol/SourceType wrappers; "
           "diagnostics go to a recorder; str(int) is kept as a boxed integer. Every counterexample is "
           "replayed under /venv/bin/python without CrossHair before it is reported.")

CLAIMS = {
    'C11': dict(
        engine='CH',
        technique='solver-driven path exploration with CrossHair/z3 (finite-choice inputs fixed by solver-decided forks, '
                  'exhaustion certified by the solver) of the real comment-block parser, validators and message logger on '
                  'comment texts assembled from a vocabulary of malformed lines; counterexamples replayed concretely',
        category='model_checking',
        text='Comment blocks are assembled from 30 first lines and 71 following lines - unbalanced, nested and adjacent '
             'parentheses, stray and doubled colons, missing names, duplicate parameters and tags, unknown annotations and '
             'options, wrong option counts, deprecated tag-style annotations, old return/varargs spellings, misplaced '
             'parts, text without asterisk, tabs, non-ASCII, embedded start/end tokens - plus 24 degenerate texts (empty, '
             'one-line, unterminated, code around the tokens, CR line ends, NUL, 40-fold parentheses), in every '
             'combination of a first line with 0-2 following lines (thorough: 3) and LF/CRLF, and parsed between two '
             'good blocks by the real parser: nothing is raised (SystemExit included), both good blocks come back intact, '
             'every diagnostic carries a position inside its block, every diagnostic with a caret quotes exactly the '
             'source line it names with the caret inside it, and the real MessageLogger counts every diagnostic whether '
             'display is on or suppressed.',
        design_ref='DESIGN.md section 4, C11',
        note=CH_NOTE + ' Finite-choice inputs are fixed by solver-decided binary search (vlib/sym.py). Arbitrary strings '
             'are outside the bounds; exemptions as in the statement (opening token not alone on its line, deprecated '
             'tag-style annotations for carets). "A malformed annotation is ignored rather than half-applied" is checked '
             'only through the good-block and position oracles, not by a separate model of partial application.'),
    'C10': dict(
        engine='CH',
        technique='solver-driven path exploration with CrossHair/z3 (finite-choice inputs fixed by solver-decided forks, '
                  'exhaustion certified by the solver) of the real comment-block parser and writer on block texts '
                  'rendered from a model and a layout; counterexamples replayed concretely',
        category='model_checking',
        text='A block model (7 identifier forms; 9 identifier and 14 parameter/return annotation lists covering list '
             'options, key=value options, unknown annotations, GI type strings; parameter sets incl. "..."; absent, '
             'one-line, wrapped, colon/parenthesis-bearing and non-ASCII descriptions; block descriptions with '
             'paragraphs, embedded indented code, trailing colon; Returns/Since/Deprecated/Stability with and without '
             'text) is rendered under a layout (5 indentations before the asterisk, LF/CRLF/CR, annotations on one or on '
             'several lines, optional colon after annotations, continuation lines with and without extra indentation) and '
             'parsed by the real GtkDocCommentBlockParser (whole state machine, every line pattern, the annotation '
             'tokenizer, validation): identifier, annotations with options in order, parameters, descriptions and tags '
             'must equal the model for every layout; the parsed block written by GtkDocCommentBlockWriter and parsed again '
             'must be the same block. CrossHair "Confirmed over all paths" per partition (quick ~47k blocks).',
        design_ref='DESIGN.md section 4, C10',
        note=CH_NOTE + ' Finite-choice inputs are fixed by solver-decided binary search (vlib/sym.py). The vocabulary of '
             'names, annotation lists and texts is chosen; arbitrary strings are outside the bounds (CrossHair on '
             'symbolic strings through the regex-driven state machine is not usable, DESIGN section 1). Action '
             'identifiers, deprecated tag-style annotations and SECTION blocks with parameters are not part of this check.'),
    'C16': dict(
        engine='CH',
        technique='solver-driven path exploration of the real scanner pipeline with CrossHair/z3 over permutation '
                  'indices (iteration order of every set, order of comment blocks, dump nodes and declarations); '
                  'byte comparison of the emitted GIR; counterexamples replayed concretely',
        category='model_checking',
        text='Partial claim. The channels through which the hash seed and the input order can reach the output are '
             'made explicit and explored exhaustively on one rich scenario (three compounds with typedef and body in '
             'different files, a class with class struct, virtual slot, properties and signals from the dump, '
             'functions from several files, enum, constants, alias, callback, two includes, packages, c:includes, six '
             'comment blocks from three files incl. three SECTION blocks and unknown parameters): (a) every set created '
             'in the scanner modules iterates in each of the 120 permutations; (b) all 720 orders of the comment '
             'blocks x orders of the dump children; (c) the declaration groups with any two swapped, rotated and '
             'reversed (typedef before/after the body for every compound); (d) sibling order is aliases first then by '
             'name for every triple of names/kinds; (e) every history of three scans over three dependency GIR files of '
             'the same name (different directories, contents, time-stamp orders) sharing one cache directory sees what a '
             'cold parse gives. The emitted bytes must be identical. The same scenario is also run in fresh interpreters '
             'under five PYTHONHASHSEED values (concrete).',
        design_ref='DESIGN.md section 4, C16',
        note=CH_NOTE + ' Finite-choice inputs are fixed by solver-decided binary search (vlib/sym.py). Not covered: '
             'set displays and sets inside library code, id()-based hashes, byte identity of the GIR emitted from a cached vs '
             'freshly parsed dependency (only the dependency namespace is compared), other scenarios than the one built here.'),
    'C03': dict(
        engine='CH',
        technique='solver-driven path exploration of the real scanner pipeline with CrossHair/z3 (finite-choice '
                  'inputs fixed by solver-decided forks, exhaustion certified by the solver); differential oracle '
                  '(tree with the block vs tree without it); counterexamples replayed concretely',
        category='model_checking',
        text='A namespace with two elements of every kind (functions, records, enumerations and members, callbacks, '
             'aliases, constants, a class with two properties, two signals, a class struct with two virtual slots and '
             'their invoker methods, fields) is scanned with one comment block whose name is any of 36 forms: every C '
             'name, Class:prop, Class::sig, Struct.field, ClassStruct::vfunc, and ten near misses (Class::prop, '
             'Class:sig, ClassStruct:vfunc, Class::vfunc, Struct:field, Struct::field, field of the other struct, '
             'missing symbol, namespace name, Class.prop), carrying documentation, Since/Deprecated with and without '
             'text, Stability, attributes or skip: the effect must be on the named element (a method block also '
             'documents the virtual method it invokes) and the emitted tree must otherwise equal the tree emitted '
             'without the block. 23 role/link annotations (constructor, method, value, rename-to, set-/get-property, '
             'finish/sync/async-func, emitter, virtual, copy/free-func, foreign, ref/unref/set-value/get-value-func, '
             'setter, getter, default-value, transfer) must appear on the named element with the given target, leave '
             'the sibling untouched, and change nothing when written under a near-miss name.',
        design_ref='DESIGN.md section 4, C03',
        note=CH_NOTE + ' Finite-choice inputs are fixed by solver-decided binary search (vlib/sym.py). Names are chosen '
             '(dictionary lookups); SECTION blocks, competing rename-to annotations (covered under C05) and '
             'parameter-level documentation (C01) are outside this check.'),
    'C07': dict(
        engine='CH',
        technique='solver-driven path exploration with CrossHair/z3 (finite-choice inputs fixed by solver-decided forks, '
                  'exhaustion certified by the solver) of the real writer -> reader -> writer cycle on namespace models '
                  'produced by the real scanner pipeline; counterexamples replayed concretely',
        category='model_checking',
        text='For every scenario of the families below the namespace produced by Transformer/GDumpParser/'
             'MainTransformer/IntrospectablePass is written with GIRWriter, read back with GIRParser and written again: '
             'the bytes must be identical, and a second cycle must be a fixed point too. Families: one value of each of '
             '31 type kinds (and varargs) x transfer x direction x nullable/optional/not/skip in functions, methods, '
             'callbacks, virtual methods and callback fields; (array length/fixed-size/zero-terminated) x (element-type) '
             'x (type); scope/closure/destroy incl. missing targets; documentation text with markup characters, '
             'newlines, tabs, non-ASCII and surrounding blanks, Since/Deprecated/Stability with and without text, '
             'attributes and skip on 16 element kinds inside a namespace with class, interface and class structs, '
             'records with callback/bit/array/private fields, union with nested struct, bitfield, constants of every '
             'kind, inline function, error domain and doc sections; dumped properties/signals with accessors, async '
             'triples, rename-to, emitter, ref/unref/value, copy/free/foreign, virtual, setter/getter/default-value. '
             'The 24 GIR files of the repository go through the same cycle concretely on every run.',
        design_ref='DESIGN.md section 4, C07',
        note=CH_NOTE + ' Finite-choice inputs are fixed by solver-decided binary search (vlib/sym.py); the cycle then '
             'runs with the real xml.etree reader (no element-tree adapter was needed). types_only reader mode, the '
             'pickle cache and file positions other than the main one are outside the claim. One recorded finding (bare '
             'container type after an unknown (type) override) is checked in an item of its own.'),
    'C17': dict(
        engine='LLSYM',
        technique='symbolic execution of the LLVM IR clang emits for functions sliced verbatim from '
                  'girepository/girepository.c (own IR interpreter over z3 bit-vectors, flat byte memory, unwinding '
                  'assertion); counterexamples replayed natively',
        category='model_checking',
        text='Kernels only: parse_version on every NUL-terminated string of 0-5 arbitrary bytes (D+ / D+.D+ give the '
             'numeric pair, no read outside the string); compare_version = numeric (major, minor) order (1.10 > 1.9); '
             'compare_candidate_reverse on three candidates with symbolic versions and directory indices is a strict '
             'weak order whose minimum is the highest version, earliest directory; get_registered_status / '
             'check_version_conflict over loaded / lazily loaded / absent namespaces with any requested and registered '
             'version strings (same version returned, different version is a conflict, lazy entries only with '
             'allow_lazy); load_dependencies_recurse splits Namespace-version at the LAST dash and requires each '
             'dependency once until the first failure. z3 decides every branch and assertion; vacuity twins; '
             'translator validation native == LLSYM == expected on 44 cases.',
        design_ref='DESIGN.md section 4, C17',
        note=LL_NOTE + ' Not claimed: search-path construction, directory enumeration, file mapping, registration '
             'tables, g_slist_sort (trusted), strtol overflow beyond 5-byte strings; no libgirepository can be built '
             'here.'),
    'C14': dict(
        engine='LLSYM',
        technique='symbolic execution of the LLVM IR of functions sliced verbatim from girepository/gitypelib.c and '
                  'gthash.c over a symbolic typelib image; cmph_search_packed is an uninterpreted function '
                  'constrained only by the perfect-hash contract; out-of-bounds reads are counterexamples replayed '
                  'under AddressSanitizer',
        category='model_checking',
        text='Kernels only: g_typelib_get_dir_entry, get_section_by_id, g_typelib_get_dir_entry_by_name (hash and '
             'linear branches), _by_gtype_name, _by_error_domain, g_typelib_matches_gtype_name_prefix and '
             '_gi_typelib_hash_search on a 320-byte image with 1-3 local entries, names / GType names / error domains of '
             '0-3 (thorough 0-4) arbitrary bytes, four section-table variants, every injective hash assignment on the '
             'names and arbitrary hash values on absent keys: a probe equal to name i returns entry i, a probe equal to '
             'no name returns NULL and never another entry, registered types / error enums likewise, every read stays '
             'inside the image under the invariants g_typelib_validate enforces.',
        design_ref='DESIGN.md section 4, C14',
        note=LL_NOTE + ' The BDZ perfect-hash construction/evaluation (cmph), up to 65535 entries, long names and '
             'g_irepository_find_by_* are outside the claim.'),
    'C09': dict(
        engine='LLSYM',
        technique='symbolic execution of the LLVM IR of girepository/giobjectinfo.c, giinterfaceinfo.c, gistructinfo.c, '
                  'giunioninfo.c, gienuminfo.c (whole files) and the attribute search sliced from gibaseinfo.c; '
                  'counterexamples replayed natively under AddressSanitizer',
        category='model_checking',
        text='Kernels only: the offset arithmetic of the i-th interface / field / property / method / signal / vfunc / '
             'constant / value accessors of objects, interfaces, structs, unions and enums for every combination of '
             'section counts (arbitrary u16; up to 3 interfaces and 3 fields with or without embedded callbacks '
             'materialised) equals the layout of gitypelib-internal.h (odd-interface padding, embedded CallbackBlobs, '
             'section order); _attribute_blob_find_first / g_base_info_iterate_attributes on sorted tables of 0-5 '
             'entries return exactly the entries of the blob, in order, reading only inside the image.',
        design_ref='DESIGN.md section 4, C09',
        note=LL_NOTE + ' g_info_new is stubbed to return its offset. Not claimed: g_irepository_* enumeration, '
             'find-by-name helpers, type/flag decoding, girwriter.c / g-ir-generate output.'),
    'C04': dict(
        engine='CH',
        technique='solver-driven path exploration of the real scanner pipeline with CrossHair/z3 (finite-choice '
                  'inputs fixed by solver-decided forks, exhaustion certified by the solver); oracle from the '
                  'property statement; counterexamples replayed concretely',
        category='model_checking',
        text='(a) one function foo_<prefix words>_<verb> over 7 prefix-word choices (text, text_buffer, text_view, rec, '
             'boxed, other, none) x 7 verbs (new, new_with_x, newv, get_x, free, renew, news) x 8 first-parameter types x '
             '8 return types x {no annotation, (method), (constructor)} x typedef-before/after-struct, in a namespace '
             'with classes Text, TextBuffer (unrelated), TextView (derived from Text), a plain and a boxed record: '
             'described exactly once (moved-to copies apart), method only of its first-parameter type whose prefix it '
             'carries unless annotated, constructor only when returning the type or an ancestor, names stripped of '
             'namespace and type prefix, bystanders from other namespaces / with underscores left out, every type once '
             'under its C name, no duplicate C identifiers. (b) every declaration kind x 5 prefix situations x typedef '
             'orders x duplicate typedefs. (c) strip_identifier/_strip_symbol over 5 prefix sets (several prefixes, one '
             'a prefix of the other) x 3 include prefixes x 11-13 names x accept-unprefixed. CrossHair "Confirmed over '
             'all paths" per partition.',
        design_ref='DESIGN.md section 4, C04',
        note=CH_NOTE + ' Finite-choice inputs are fixed by solver-decided binary search (vlib/sym.py). Names are built '
             'from chosen words: exploring arbitrary identifier strings symbolically through the prefix code did not '
             'terminate in CrossHair within minutes for 3-character strings (measured; DESIGN section 4 C04) and is '
             'outside the claim, as are filter commands and Gio special cases. One recorded finding (annotated method '
             'keeps its type prefix) is checked in items of its own.'),
    'C18': dict(
        engine='SCHED',
        technique='stateless model checking of the real giscanner.cachestore code over a fake POSIX layer: every '
                  'schedule of the file-system steps (sleep-set partial-order reduction), crash point and device '
                  'layout is enumerated; clock values are z3 integers and every mtime comparison the code makes is '
                  'decided by z3 (forking when both outcomes are consistent with the path condition)',
        category='model_checking',
        text='The real CacheStore.load/store/_cache_is_valid/_check_cache_version/_clean/_remove_filename run '
             'unmodified, one operation per coroutine thread, against an in-memory POSIX file system (inodes, atomic '
             'rename, cross-device copy = truncate + chunked writes + copystat, two-chunk pickles). Explored '
             'exhaustively per scenario: all interleavings of 2-3 operations from {parse-include (load; on a miss '
             'parse and store), load, store, version change (purge), source modification}, with and without an '
             'initial fresh or torn entry, one crash of a writer at any step, same-device and cross-device layouts, '
             'fine and coarse (equal timestamps) clocks. Oracle: no operation raises; a load returns nothing or a '
             'complete parse of a version that was current at some moment during the load; no entry from before a '
             'version change is returned. The fake layer is validated on every run against the real file system on '
             '141 sequential histories.',
        design_ref='DESIGN.md sections 2.4 and 4 (C18)',
        note='Trusted: z3 (linear integer clock constraints), the fake POSIX layer (validated sequentially against the '
             'real os/shutil/pickle on every run), the independence relation used by the sleep sets (stated in the '
             'evidence assumptions). NFS/Windows semantics, ENOSPC/EACCES injection, pickle byte formats and more than '
             '3 concurrent operations (4 with two modifications in the thorough tier) are outside the bounds. Three '
             'classes of genuine violations are recorded findings and are also reproduced with the real code on the '
             'real file system in every run.'),
    'C08': dict(
        engine='LLSYM',
        technique='symbolic execution of the LLVM IR clang emits for the real girepository/giroffsets.c (own IR '
                  'interpreter over z3 bit-vectors, flat byte memory, depth-first paths, unwinding assertion); '
                  'counterexamples replayed natively and confirmed by gcc sizeof/_Alignof/offsetof',
        category='model_checking',
        text='giroffsets.c is compiled unmodified (shim GLib headers) to LLVM IR and executed symbolically: node '
             'graphs for a struct or union of k members (quick k<=4, thorough k<=5) are built from nondeterministic '
             'integers - every basic type tag, pointers, enums/flags with two symbolic 64-bit member values, fixed '
             'arrays of symbolic length <= 2^15, nested struct/union/boxed/object/interface records, callback fields '
             'and members, members of unknown size (void, unsized array, unresolved, non-type) - and run through '
             'compute_struct_field_offsets / compute_union_field_offsets / _g_ir_node_compute_offsets / '
             'get_*_size_alignment / compute_enum_storage_type with libffi\'s real type table; assertions state the '
             'System V x86-64 layout rules (offset, size, alignment, enum storage per gcc, unknown member => unknown '
             'layout). z3 decides every branch and assertion over all values in the bounds; each item has a vacuity '
             'twin. Translator validation on every run: 59 concrete declarations (incl. tests/offsets/offsets.h) '
             'native == LLSYM concrete mode == gcc.',
        design_ref='DESIGN.md section 4, C08; vlib/llsym/__init__.py',
        note='Trusted: clang lowering to IR at -O1 for this target, z3, gcc as ABI oracle, libffi type table, the '
             'shim GLib headers (types/macros only). Enumerations have two values; symbolic arrays are '
             'one-dimensional; bit-fields, long double, over-aligned types, other platforms and the XML-to-node '
             'front end (girparser.c) are outside the claim. The 64-bit enumeration defect is a recorded finding '
             'checked in items of its own.'),
    'C12': dict(
        engine='CH',
        technique='solver-driven path exploration of the real GDumpParser + scanner pipeline with CrossHair/z3 '
                  '(finite-choice inputs fixed by solver-decided forks, exhaustion certified by the solver); oracle '
                  'from the property statement; counterexamples replayed concretely',
        category='model_checking',
        text='A fake runtime dump (format of girepository/gdump.c) is merged by the real GDumpParser and pushed '
             'through MainTransformer, IntrospectablePass and GIRWriter: every property flag word 0..4095 (readable/'
             'writable/construct/construct-only bits) on classes and interfaces, property and signal GTypes over 17 '
             'names (fundamentals, GStrv, containers, local/foreign classes, boxed, enum, interface), default values, '
             'signal run phase and four flags, return and 0-2 parameter types; parent chains with 0-3 ancestors each '
             'hidden/local/foreign (nearest known ancestor), abstract/final; every subset of known/hidden/foreign '
             'interfaces as implements and prerequisites; boxed type attaching to a struct, a union or nothing; class '
             'and interface structures linked both ways (Class, Iface, Interface suffixes); function-pointer slots '
             'becoming virtual methods iff the first parameter is the instance; get-type functions removed; error '
             'quark domains on the matching enum. CrossHair "Confirmed over all paths" per partition.',
        design_ref='DESIGN.md section 4, C12',
        note=CH_NOTE + ' Finite-choice inputs are fixed by solver-decided binary search (vlib/sym.py) and the '
             'pipeline then runs without opcode interception for that path. The dump producer gdump.c and the '
             'GObject/GLib self-scan special cases are outside the claim; flag words are bounded by 2^12.'),
    'C01': dict(
        engine='CH',
        technique='solver-driven path exploration of the real scanner pipeline with CrossHair/z3 (finite-choice '
                  'inputs fixed by solver-decided forks, exhaustion certified by the solver); differential oracle '
                  '(valid -> documented attribute; invalid -> warning + attribute equals the run without the '
                  'annotation); counterexamples replayed concretely',
        category='model_checking',
        text='One annotated parameter or return value of each of 33 C type kinds (numbers, enum, strings, records, '
             'objects, boxed, gpointer, bare containers, callbacks incl. GDestroyNotify/GAsyncReadyCallback, a typedef of a callback '
             'typedef and a callback type taking a va_list, aliases, '
             'unresolvable and foreign types, char**, by-value struct, GError**) in functions, methods, callback '
             'typedefs and virtual methods, as return value, first or last parameter: (transfer none|full|container|'
             'floating) x direction x (array); direction (in, out, out caller-/callee-allocates, inout) x nullable x '
             'optional x not nullable x skip; (array) with length=sibling / fixed-size / zero-terminated[=0|1] x '
             '(element-type) x direction incl. the length parameter following the array direction; (element-type X '
             '[Y]) and (type X); (scope) x (closure P) x (destroy P) on callback and non-callback parameters in three '
             'sibling orders; free-form attributes. Each combination is pushed through Transformer.parse -> '
             'MainTransformer -> IntrospectablePass -> GIRWriter, twice where the differential baseline is needed. '
             'CrossHair "Confirmed over all paths" per partition (quick ~95k paths, thorough the full products).',
        design_ref='DESIGN.md section 4, C01',
        note=CH_NOTE + ' Finite-choice inputs are fixed by solver-decided binary search (vlib/sym.py) and the '
             'pipeline then runs without opcode interception for that path. One annotated value per callable; '
             'signals/properties, nested element-type grammar and free attribute text are outside the bounds. Where '
             'the statement does not decide validity (enum, va_list, by-value struct, wrong-typed closure/destroy '
             'target, conflicting direction on the length parameter, explicit scope beside a destroy-notify) nothing '
             'is asserted.'),
    'C02': dict(
        engine='CH',
        technique='solver-driven path exploration of the real scanner pipeline with CrossHair/z3 (finite-choice '
                  'inputs fixed by solver-decided forks, exhaustion certified by the solver); oracle written from '
                  'the property statement; counterexamples replayed concretely',
        category='model_checking',
        text='(a) every C/stdint/GLib basic spelling the scanner knows (78, table written independently of '
             'ast.type_names; a spelling missing from the oracle is reported) x pointer depth 0-2 x const/volatile '
             'on pointee and on the outer pointer, as parameter, return value and record field: emitted type name, '
             'c:type token-for-token equal to the original spelling, default transfer (in: none; returned basic/'
             'const: none; returned non-const string: full), returned char** an array of utf8, untyped pointers '
             'nullable. (b) every arrangement of <=4 parameters over {callback, GAsyncReadyCallback, GDestroyNotify, '
             'gpointer user_data, gpointer *_data, gpointer other, GError**, int} in functions, methods, callback '
             'typedefs and virtual methods (untyped pointers also spelled void* and gconstpointer, same roles; <=3 '
             'parameters): trailing GError** removed + throws, closure/destroy indices, notified and '
             'async scopes, nothing attached to non-callbacks. (c) a direction annotation alone on 33 type kinds: '
             'out/inout transfer full unless caller-allocated. (d) a typedef of every spelling as return type: the '
             'default transfer looks through the alias. CrossHair "Confirmed over all paths" per partition.',
        design_ref='DESIGN.md section 4, C02',
        note=CH_NOTE + ' Finite-choice inputs are fixed by solver-decided binary search (vlib/sym.py) and the '
             'pipeline then runs without opcode interception for that path. Not asserted because the statement does '
             'not decide them: pointer to _Bool, a gpointer not named *data, several user-data candidates, an '
             'async-ready callback directly followed by a destroy-notify. Function-pointer parameters, bit-fields '
             'and more than four parameters are outside the bounds.'),
    'C05': dict(
        engine='CH',
        technique='solver-driven path exploration of the real scanner pipeline with CrossHair/z3 (every '
                  'combination of the finite-choice inputs is a solver-decided leaf; exhaustion certified by the '
                  'solver); structural oracle over the emitted GIR; counterexamples replayed concretely',
        category='model_checking',
        text='Scenarios (function, method, callback, virtual method, callback field, record field, class property, '
             'signal, alias, rename-to pairs) are generated from integer/boolean inputs: one value of each of 33 C '
             'type kinds (resolvable, unresolvable, foreign, skipped, non-introspectable alias, va_list, long long, '
             'long double, varargs, bare containers, callbacks) x skip/transfer/direction/scope/closure/destroy/'
             '(type)/(element-type)/(array) annotations naming existing, missing and self references. Each is pushed '
             'through Transformer.parse -> GDumpParser -> MainTransformer -> IntrospectablePass -> GIRWriter and the '
             'emitted tree is checked by an executable statement of C05 (resolution, bindability, transfer, scope, '
             'element types, index ranges, shadows/type-struct/accessor/invoker consistency). CrossHair enumerates '
             'the input space with the solver deciding every branch and reports "Confirmed over all paths" per '
             'partition (quick: ~50k paths; thorough: cross products of the annotation families).',
        design_ref='DESIGN.md section 4, C05',
        note=CH_NOTE + ' Finite-choice inputs are fixed by solver-decided binary search (vlib/sym.py) and the '
             'pipeline then runs without opcode interception for that path. The runtime dump subprocess is replaced '
             'by a fake element tree; GLib/GObject/Gio are namespace fragments. The oracle is calibrated on every '
             'GIR file in the repository (concrete walk, reported in the evidence, not part of the claim). Three '
             'classes of genuine violations are recorded in known_findings.txt and checked in separate items.'),
    'C13': dict(
        engine='CH',
        technique='symbolic execution of the real Python pipeline with CrossHair/z3 (bounded, per-path SMT); '
                  'counterexamples replayed concretely',
        category='model_checking',
        text='Every integer constant value (unbounded symbolic int) for every integer type spelling in '
             'ast.type_names, directly and through one or two typedef aliases, and every enumeration of 2-4 '
             'members built from whole words with unbounded symbolic values, private flags, bitfield flag and a member '
             'carrying its own (skip) block, '
             'is pushed through Transformer.parse -> MainTransformer.transform -> GIRWriter; CrossHair reports '
             '"Confirmed over all paths" per partition or a counterexample that is replayed. Bounded-exhaustive '
             'within the stated word vocabulary and member counts; inconclusive partitions are listed in the evidence.',
        design_ref='DESIGN.md section 4, C13',
        note=CH_NOTE + ' Double constants and identifiers outside the word vocabulary are outside the claim.'),
    'C20': dict(
        engine='CH',
        technique='symbolic execution of giscanner.xmlwriter (and the stdlib escape/quoteattr it calls) with '
                  'CrossHair/z3; expat used as reference parser in concrete validation and in the element-stack oracle',
        category='model_checking',
        text='(a) for every text string of <=3 (quick) / <=4 (thorough) code points and every attribute value of '
             '<=2 / <=3 code points, build_xml_tag output is well-formed CharData/AttValue and decodes to the input; '
             '(b) for 0-4 attributes with None or values of ANY length (length an unbounded symbolic integer, content '
             'opaque behind injective quoteattr/escape stubs) the serialisation is exactly name, attributes in order, '
             'separators being whitespace only, None omitted; (c) every sequence of <=5/6 writer operations including '
             'exceptions (Exception and BaseException) raised inside tagcontext gives a document expat parses to the '
             'expected tree with the stack and indentation restored, also while a second writer instance is open, '
             'closed or used later; (d) a symbolic value of <=2/<=3 code points at position 1-3 of a wrapped '
             'four-attribute list, real quoteattr: the output is the individually quoted values joined by white '
             'space (wrapping never changes content). CrossHair "Confirmed over all paths" per partition.',
        design_ref='DESIGN.md section 4, C20',
        note=CH_NOTE + ' Names/comment text are assumed XML-representable (not escaped by the writer, not required '
             'by the property); longer strings than the bounds in (a) are outside the claim.'),
    'C19': dict(
        engine='ZRE+CH',
        technique='z3 regular-expression/string queries over the live compiled pattern objects (library name a '
                  'symbolic string spliced into the parse tree) + CrossHair on the matching loop',
        category='model_checking',
        text='The pattern built by the real _ldd_library_pattern is translated from its parse tree to a z3 regex with '
             'the library name a z3 string variable; unsat of (impl and not spec) / (spec and not impl) shows language '
             'equivalence with the statement written with string operations (|name|<=3, |word|<=8 quick; up to 6/12 '
             'thorough) and as an independent regex (|name|<=6/10, |word|<=12/20), plus the named consequences (pango vs '
             'pangoft2, foo vs libfoo-bar/liblibfoo, metacharacters) for words of any length. The matching loop is '
             'executed by CrossHair with the pattern abstracted to a symbolic word->library assignment over <=2x2 '
             '(quick) / 3x3 (thorough) libraries x lines incl. header lines and existing-file requests; _libtool_pat '
             'is shown to find and capture every dlname of <=6/10 characters.',
        design_ref='DESIGN.md section 4, C19',
        note='Trusted: z3 sequence/regex theory, re.escape per-character contract (literalness checked concretely), '
             'CrossHair models; capture semantics decided by uniqueness of decomposition; solver unknown/timeouts are '
             'reported as inconclusive; sat models are replayed against the real re object before being reported.'),
}

NOT_APPLICABLE = {
    'C06': 'whole-program translation validation of the GLib-bound C typelib compiler (girparser.c/girnode.c/'
           'girmodule.c, 9k lines on GMarkup/GHashTable); no GLib headers exist in the sandbox so no binary can be '
           'built to replay against, and the heap-allocated node graph is beyond a bounded IR executor; reachable '
           'arithmetic kernels are claimed under C08/C09/C14',
    'C15': 'relates the Python scanner to the same unbuildable GLib-bound C compiler through an XML file; the '
           'consumer side cannot be executed symbolically or concretely here',
}

PENDING = {}


def main():
    props = [json.loads(l) for l in open(os.path.join(HERE, 'properties.jsonl'))]
    ids = [p['id'] for p in props]
    checks = []
    for pid in ids:
        if pid not in CLAIMS:
            continue
        c = CLAIMS[pid]
        checks.append({
            'property_id': pid,
            'quick_cmd': './check %s --tier quick' % pid,
            'thorough_cmd': './check %s --tier thorough' % pid,
            'evidence_file': 'evidence/%s.json' % pid,
            'replay_cmd_template': './check %s --replay {path}' % pid,
            'engine': c['engine'],
            'level_claimed': {'category': c['category'], 'text': c['text'],
                              'design_ref': c['design_ref']},
            'level_note': c['note'],
            'technique': c['technique'],
        })
    na = []
    for pid in ids:
        if pid in CLAIMS:
            continue
        reason = NOT_APPLICABLE.get(pid) or PENDING.get(pid) or \
            'check not built yet in this session (planned engine in DESIGN.md section 4); not claimed'
        na.append({'property_id': pid, 'reason': reason})
    manifest = {
        'version': 1,
        'setup_cmd': 'sh ./setup.sh',
        'hooks': {
            'guard': 'GI_VERIF',
            'enable': 'no hooks: all stubbing is done from /verif by module-attribute replacement at harness '
                      'import; /repo is used unmodified',
            'baseline_off_cmd': BASELINE,
            'source_commits': [],
            'add_only': True,
        },
        'engines': [
            {'name': 'CH', 'path': 'vlib/ch.py', 'serves_properties': sorted(p for p, c in CLAIMS.items() if 'CH' in c['engine']),
             'kind_free_text': 'CrossHair symbolic execution of the real giscanner Python code (z3 per path), '
                               'partitioned conditions, vacuity twins, concrete replay'},
            {'name': 'ZRE', 'path': 'vlib/zre.py', 'serves_properties': sorted(p for p, c in CLAIMS.items() if 'ZRE' in c['engine']),
             'kind_free_text': 'live compiled regex objects translated to z3 regular expressions; inclusion / '
                               'decomposition queries'},
            {'name': 'LLSYM', 'path': 'vlib/llsym', 'serves_properties': sorted(p for p, c in CLAIMS.items() if 'LLSYM' in c['engine']),
             'kind_free_text': 'clang -emit-llvm of the real C files (shim GLib headers) executed symbolically by an '
                               'own IR interpreter over z3 bit-vectors and arrays; native replay'},
            {'name': 'SCHED', 'path': 'vlib/sched.py', 'serves_properties': sorted(p for p, c in CLAIMS.items() if 'SCHED' in c['engine']),
             'kind_free_text': 'real CacheStore code over a fake POSIX layer; interleavings, crash points and '
                               'mtimes symbolic, z3 decides clock feasibility'},
        ],
        'checks': checks,
        'not_applicable': na,
        'notes': 'Exit codes: 0 nothing violated in what was explored, 1 replayed VIOLATION, 3 harness/translator '
                 'error (never a verdict). Known findings: known_findings.txt.',
    }
    with open(os.path.join(HERE, 'MANIFEST.json'), 'w') as f:
        json.dump(manifest, f, indent=1)
    print('claimed:', [c['property_id'] for c in checks])
    print('not applicable:', [n['property_id'] for n in na])


if __name__ == '__main__':
    main()
