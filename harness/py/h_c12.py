"""C12 harnesses: runtime GObject type data is merged faithfully into the GIR.

Real code executed: Transformer.parse, GDumpParser.init_parse/parse (all
_introspect_* / _pair_* / _find_class_record / _add_record_fields, with the
subprocess replaced by a fake dump tree), Type.create_from_gtype_name,
MainTransformer.transform (_pass_type_resolution, _pair_class_virtuals,
_pair_quarks_with_enums, ...), IntrospectablePass, GIRWriter.
Oracle: from the property text.
"""
import pipe
from pipe import run_pipeline
from vlib import sym
from vlib.gistub import (FakeXml, s_typedef, s_struct, s_member, s_function, s_param, s_enum,
                         s_enum_member, t_struct, t_typedef, t_ptr, t_basic, t_void, t_func, s_union,
                         t_union, mk_block)


def _first(el, tag):
    for c in el.children:
        if c.tag == tag:
            return c
    return None


def _find(root, tag, name):
    out = [e for e in root.iter() if e.tag == tag and (e.get('name') == name or e.get('glib:name') == name)]
    return out


def _class_decls(name, lname, parent_ctype='GObject', class_fields=(), with_class_struct=True,
                 class_suffix='Class'):
    """typedef struct _X X; struct _X { Parent parent; }; [class struct]; GType x_get_type(void);"""
    out = [s_typedef(name, t_struct('_' + name)),
           s_struct('_' + name, [s_member('parent_instance', t_typedef(parent_ctype))])]
    if with_class_struct:
        cs = name + class_suffix
        out += [s_typedef(cs, t_struct('_' + cs)),
                s_struct('_' + cs, [s_member('parent_class', t_typedef('GObjectClass'))] + list(class_fields))]
    out.append(s_function('foo_%s_get_type' % lname, t_typedef('GType'), []))
    return out


# ------------------------------------------------------------------------------
# property flags and types

GTYPE_EXPECT = {
    'gint': ('type', 'gint'), 'guint': ('type', 'guint'), 'gboolean': ('type', 'gboolean'),
    'gchararray': ('type', 'utf8'), 'gdouble': ('type', 'gdouble'), 'gint64': ('type', 'gint64'),
    'GStrv': ('array', 'utf8'), 'GObject': ('type', 'GObject.Object'), 'FooObj': ('type', 'Obj'),
    'FooBoxed': ('type', 'Boxed'), 'GHashTable': ('type', 'GLib.HashTable'),
    'GPtrArray': ('array', None), 'GByteArray': ('array', 'guint8'), 'gpointer': ('type', 'gpointer'),
    'FooKind': ('type', 'Kind'), 'GType': ('type', 'GType'), 'FooIface': ('type', 'Iface'),
}
GTYPES = sorted(GTYPE_EXPECT)
N_GT = len(GTYPES)


def _check_gtype(t, gname, what):
    tag, name = GTYPE_EXPECT[gname]
    if t is None or t.tag != tag:
        return '%s of GType %s emitted as %r' % (what, gname, None if t is None else (t.tag, t.attrs))
    if tag == 'type' and t.get('name') != name:
        return '%s of GType %s emitted as %r' % (what, gname, t.attrs)
    if tag == 'array' and name is not None:
        e = _first(t, 'type')
        if e is None or e.get('name') != name:
            return '%s of GType %s: array element %r' % (what, gname, None if e is None else e.attrs)
    return None


def _std_decls():
    d = pipe.fixed_decls()
    # an interface the class can implement / use as a type
    d += [s_typedef('FooIface', t_struct('_FooIface')),
          s_typedef('FooIfaceInterface', t_struct('_FooIfaceInterface')),
          s_struct('_FooIfaceInterface', [s_member('g_iface', t_typedef('GTypeInterface'))]),
          s_function('foo_iface_get_type', t_typedef('GType'), [])]
    d += [s_function('foo_kind_get_type', t_typedef('GType'), [])]
    return d


def _std_dump(class_kids=(), parents='GObject', extra=()):
    nodes = [FakeXml('boxed', {'name': 'FooBoxed', 'get-type': 'foo_boxed_get_type'}),
             FakeXml('interface', {'name': 'FooIface', 'get-type': 'foo_iface_get_type'}),
             FakeXml('enum', {'name': 'FooKind', 'get-type': 'foo_kind_get_type'},
                     [FakeXml('member', {'name': 'FOO_KIND_A', 'nick': 'a', 'value': '0'}),
                      FakeXml('member', {'name': 'FOO_KIND_B', 'nick': 'b', 'value': '1'})]),
             FakeXml('class', {'name': 'FooObj', 'get-type': 'foo_obj_get_type', 'parents': parents},
                     list(class_kids))]
    return nodes + list(extra)


HIGH = (0, 1 << 30, -(1 << 31), (1 << 31), 1 << 12, -(1 << 12))


def property_flags(flags: int, ptype: int, has_default: bool, on_interface: bool, high: int = 0):
    """A property reported with an arbitrary flag word and GType: low 12 bits `flags`,
    plus one of HIGH (G_PARAM_DEPRECATED is bit 31; gdump.c prints the word with %d,
    so it arrives as a negative decimal)."""
    flags = sym.pick(flags, 0, 4095)
    high = sym.pick(high, 0, len(HIGH) - 1)
    ptype = sym.pick(ptype, 0, N_GT - 1)
    has_default = sym.flag(has_default)
    on_interface = sym.flag(on_interface)
    with sym.untraced():
        return _property_flags(flags + HIGH[high], ptype, has_default, on_interface)


def _property_flags(flags, ptype, has_default, on_interface):
    gname = GTYPES[ptype]
    attrib = {'name': 'the-prop', 'type': gname, 'flags': str(flags)}
    if has_default:
        attrib['default-value'] = '42 "q"'
    prop = FakeXml('property', attrib)
    if on_interface:
        dump = _std_dump()
        dump[1] = FakeXml('interface', {'name': 'FooIface', 'get-type': 'foo_iface_get_type'}, [prop])
        owner = ('interface', 'Iface')
    else:
        dump = _std_dump(class_kids=[prop])
        owner = ('class', 'Obj')
    o = run_pipeline(_std_decls(), [], dump)
    if o.root is None:
        return 'pipeline stopped: %r %r' % (o.fatal, o.crashed)
    owners = _find(o.root, owner[0], owner[1])
    if len(owners) != 1:
        return '%s %s emitted %d times' % (owner[0], owner[1], len(owners))
    props = [c for c in owners[0].children if c.tag == 'property']
    if len(props) != 1 or props[0].get('name') != 'the-prop':
        return 'property not emitted once: %r' % ([p.attrs for p in props],)
    p = props[0]
    readable = bool(flags & 1)
    writable = bool(flags & 2)
    construct = bool(flags & 4)
    construct_only = bool(flags & 8)
    # readable is the documented default when the attribute is absent
    got_r = p.get('readable') != '0'
    if p.get('readable') not in (None, '0', '1'):
        return 'readable=%r' % p.get('readable')
    if got_r != readable:
        return 'flags %d: readable emitted %r' % (flags, p.get('readable'))
    for attr, want in (('writable', writable), ('construct', construct), ('construct-only', construct_only)):
        got = p.get(attr)
        if got not in (None, '0', '1'):
            return '%s=%r' % (attr, got)
        if (got == '1') != want:
            return 'flags %d: %s emitted %r' % (flags, attr, got)
    if has_default:
        if p.get('default-value') != '42 "q"':
            return 'default value %r' % p.get('default-value')
    elif p.get('default-value') is not None:
        return 'default value invented: %r' % p.get('default-value')
    t = _first(p, 'type') or _first(p, 'array')
    return _check_gtype(t, gname, 'property') or True


WHEN = (None, 'first', 'last', 'cleanup')


def signals(when: int, no_recurse: bool, detailed: bool, action: bool, no_hooks: bool, rtype: int,
            n_params: int, p0: int, p1: int):
    when = sym.pick(when, 0, 3)
    no_recurse = sym.flag(no_recurse)
    detailed = sym.flag(detailed)
    action = sym.flag(action)
    no_hooks = sym.flag(no_hooks)
    rtype = sym.pick(rtype, 0, N_GT)
    n_params = sym.pick(n_params, 0, 2)
    p0 = sym.pick(p0, 0, N_GT - 1)
    p1 = sym.pick(p1, 0, N_GT - 1)
    with sym.untraced():
        return _signals(when, no_recurse, detailed, action, no_hooks, rtype, n_params, p0, p1)


def _signals(when, no_recurse, detailed, action, no_hooks, rtype, n_params, p0, p1):
    rname = 'void' if rtype == N_GT else GTYPES[rtype]
    attrib = {'name': 'it-happened', 'return': rname}
    if WHEN[when]:
        attrib['when'] = WHEN[when]
    for k, v in (('no-recurse', no_recurse), ('detailed', detailed), ('action', action), ('no-hooks', no_hooks)):
        if v:
            attrib[k] = '1'
    ptypes = [GTYPES[p0], GTYPES[p1]][:n_params]
    # (the dump lists the signal's own parameters; the instance is implicit)
    kids = [FakeXml('param', {'type': t}) for t in ptypes]
    dump = _std_dump(class_kids=[FakeXml('signal', attrib, kids)])
    o = run_pipeline(_std_decls(), [], dump)
    if o.root is None:
        return 'pipeline stopped: %r %r' % (o.fatal, o.crashed)
    cls = _find(o.root, 'class', 'Obj')
    if len(cls) != 1:
        return 'class emitted %d times' % len(cls)
    sigs = [c for c in cls[0].children if c.tag == 'glib:signal']
    if len(sigs) != 1 or sigs[0].get('name') != 'it-happened':
        return 'signal not emitted once'
    s = sigs[0]
    if s.get('when') != WHEN[when]:
        return 'when=%r, reported %r' % (s.get('when'), WHEN[when])
    for k, v in (('no-recurse', no_recurse), ('detailed', detailed), ('action', action), ('no-hooks', no_hooks)):
        if (s.get(k) == '1') != v or s.get(k) not in (None, '1'):
            return 'signal flag %s emitted %r, reported %r' % (k, s.get(k), v)
    rv = _first(s, 'return-value')
    rt = _first(rv, 'type') or _first(rv, 'array') if rv is not None else None
    if rname == 'void':
        if rt is None or rt.get('name') != 'none':
            return 'void signal return emitted as %r' % (None if rt is None else rt.attrs)
    else:
        e = _check_gtype(rt, rname, 'signal return')
        if e:
            return e
    pel = _first(s, 'parameters')
    ps = [p for p in (pel.children if pel is not None else []) if p.tag == 'parameter']
    if len(ps) != n_params:
        return 'signal has %d parameters, %d reported (besides the instance)' % (len(ps), n_params)
    for p, g in zip(ps, ptypes):
        e = _check_gtype(_first(p, 'type') or _first(p, 'array'), g, 'signal parameter')
        if e:
            return e
    return True


# ------------------------------------------------------------------------------
# parent chains, interfaces, prerequisites

def parents(k1: int, k2: int, k3: int, n: int, abstract: bool, final: bool):
    """class FooObj with n reported ancestors before GObject; ancestor i is
    0: hidden (unknown to the scanner), 1: a class of this namespace, 2: GInitiallyUnowned (include)."""
    n = sym.pick(n, 0, 3)
    k1 = sym.pick(k1, 0, 2)
    k2 = sym.pick(k2, 0, 2)
    k3 = sym.pick(k3, 0, 2)
    abstract = sym.flag(abstract)
    final = sym.flag(final)
    with sym.untraced():
        return _parents(k1, k2, k3, n, abstract, final)


def _parents(k1, k2, k3, n, abstract, final):
    kinds = [k1, k2, k3][:n]
    decls = _std_decls()
    extra = []
    chain = []
    expect = None
    for i, k in enumerate(kinds):
        if k == 0:
            chain.append('FooHidden%d' % i)
        elif k == 1:
            nm = 'FooMid%d' % i
            decls += _class_decls(nm, 'mid%d' % i)
            extra.append(FakeXml('class', {'name': nm, 'get-type': 'foo_mid%d_get_type' % i,
                                           'parents': 'GObject'}))
            chain.append(nm)
            if expect is None:
                expect = 'Mid%d' % i
        else:
            chain.append('GInitiallyUnowned')
            if expect is None:
                expect = 'GObject.InitiallyUnowned'
    chain.append('GObject')
    if expect is None:
        expect = 'GObject.Object'
    attrib = {'name': 'FooObj', 'get-type': 'foo_obj_get_type', 'parents': ','.join(chain)}
    if abstract:
        attrib['abstract'] = '1'
    if final:
        attrib['final'] = '1'
    dump = _std_dump(extra=extra)
    dump[3] = FakeXml('class', attrib)
    o = run_pipeline(decls, [], dump)
    if o.root is None:
        return 'pipeline stopped: %r %r' % (o.fatal, o.crashed)
    cls = _find(o.root, 'class', 'Obj')
    if len(cls) != 1:
        return 'class emitted %d times' % len(cls)
    c = cls[0]
    if c.get('parent') != expect:
        return 'parents %s: parent=%r, nearest known ancestor is %s' % (','.join(chain), c.get('parent'), expect)
    if c.get('glib:type-name') != 'FooObj' or c.get('glib:get-type') != 'foo_obj_get_type':
        return 'type name / get-type: %r' % (c.attrs,)
    if (c.get('abstract') == '1') != abstract or (c.get('final') == '1') != final:
        return 'abstract/final: %r' % (c.attrs,)
    return True


IFACES = ('FooIface', 'FooHiddenIface', 'GAsyncResult', 'FooOtherIface')


def interfaces(i0: bool, i1: bool, i2: bool, i3: bool, on_interface: bool, suffix: int):
    """implements / prerequisite lists with known and unknown interfaces."""
    i0 = sym.flag(i0)
    i1 = sym.flag(i1)
    i2 = sym.flag(i2)
    i3 = sym.flag(i3)
    on_interface = sym.flag(on_interface)
    suffix = sym.pick(suffix, 0, 2)
    with sym.untraced():
        return _interfaces(i0, i1, i2, i3, on_interface, suffix)


def _interfaces(i0, i1, i2, i3, on_interface, suffix):
    chosen = [n for n, b in zip(IFACES, (i0, i1, i2, i3)) if b]
    decls = _std_decls()
    # a second interface of this namespace, with class struct FooOtherIface{Iface,Interface} or none
    sfx = (None, 'Iface', 'Interface')[suffix]
    decls += [s_typedef('FooOtherIface', t_struct('_FooOtherIface')),
              s_function('foo_other_iface_get_type', t_typedef('GType'), [])]
    if sfx:
        decls += [s_typedef('FooOtherIface' + sfx, t_struct('_FooOtherIface' + sfx)),
                  s_struct('_FooOtherIface' + sfx, [s_member('g_iface', t_typedef('GTypeInterface'))])]
    extra = []
    tag = 'prerequisite' if on_interface else 'implements'
    kids = [FakeXml(tag, {'name': n}) for n in chosen]
    other_kids = []
    if on_interface:
        # prerequisites of FooOtherIface may name classes too
        other_kids = [k for k in kids if k.attrib['name'] != 'FooOtherIface'] + [FakeXml('prerequisite', {'name': 'FooObj'})]
        dump = _std_dump()
    else:
        dump = _std_dump(class_kids=kids)
    dump.append(FakeXml('interface', {'name': 'FooOtherIface', 'get-type': 'foo_other_iface_get_type'}, other_kids))
    o = run_pipeline(decls, [], dump)
    if o.root is None:
        return 'pipeline stopped: %r %r' % (o.fatal, o.crashed)
    known = {'FooIface': 'Iface', 'GAsyncResult': 'Gio.AsyncResult', 'FooOtherIface': 'OtherIface', 'FooObj': 'Obj'}
    if on_interface:
        el = _find(o.root, 'interface', 'OtherIface')
        if len(el) != 1:
            return 'interface emitted %d times' % len(el)
        got = sorted(c.get('name') for c in el[0].children if c.tag == 'prerequisite')
        want = sorted(known[k.attrib['name']] for k in other_kids if k.attrib['name'] in known)
        if got != want:
            return 'prerequisites %r, reported (known ones) %r' % (got, want)
        # class structure link in both directions
        ts = el[0].get('glib:type-struct')
        if sfx:
            if ts != 'OtherIface' + sfx:
                return 'glib:type-struct %r, structure is FooOtherIface%s' % (ts, sfx)
            rec = _find(o.root, 'record', 'OtherIface' + sfx)
            if len(rec) != 1 or rec[0].get('glib:is-gtype-struct-for') != 'OtherIface':
                return 'interface structure not linked back'
        elif ts is not None:
            return 'glib:type-struct %r although no structure exists' % ts
    else:
        el = _find(o.root, 'class', 'Obj')
        if len(el) != 1:
            return 'class emitted %d times' % len(el)
        got = sorted(c.get('name') for c in el[0].children if c.tag == 'implements')
        want = sorted(known[n] for n in chosen if n in known)
        if got != want:
            return 'implements %r, reported (known ones) %r' % (got, want)
    return True


# ------------------------------------------------------------------------------
# boxed / class structures / virtual methods / get-type functions / error quarks

ERR_NAMES = (('FooSomeError', 'some_error', 'FOO_SOME_ERROR'), ('FooDBusError', 'dbus_error', 'FOO_DBUS_ERROR'),
             ('FooIOChannelError', 'io_channel_error', 'FOO_IO_CHANNEL_ERROR'))


def pairing(boxed_kind: int, with_class_struct: bool, vf_first: int, vf2_first: int, quark: int,
            enum_registered: bool, ename: int = 0):
    ename = sym.pick(ename, 0, len(ERR_NAMES) - 1)
    boxed_kind = sym.pick(boxed_kind, 0, 3)
    with_class_struct = sym.flag(with_class_struct)
    vf_first = sym.pick(vf_first, 0, 3)
    vf2_first = sym.pick(vf2_first, 0, 3)
    quark = sym.pick(quark, 0, 3)
    enum_registered = sym.flag(enum_registered)
    with sym.untraced():
        return _pairing(boxed_kind, with_class_struct, vf_first, vf2_first, quark, enum_registered, ename)


FIRSTS = ('FooObj*', 'FooRec*', 'int', None)      # first parameter of a class-struct slot; None: no parameters


def _slot(name, first):
    ps = []
    f = FIRSTS[first]
    if f == 'FooObj*':
        ps = [s_param('self', t_ptr(t_typedef('FooObj')))]
    elif f == 'FooRec*':
        ps = [s_param('rec', t_ptr(t_typedef('FooRec')))]
    elif f == 'int':
        ps = [s_param('v', t_basic('int'))]
    ps.append(s_param('x', t_basic('int'))) if f is not None else None
    return s_member(name, t_ptr(t_func(t_void(), ps)))


def _pairing(boxed_kind, with_class_struct, vf_first, vf2_first, quark, enum_registered, ename=0):
    ENUM, elow, EUP = ERR_NAMES[ename]
    # boxed_kind: 0 a struct FooThing exists, 1 a union FooThing exists, 2 nothing, 3 only an enum of that name
    d = []
    d += [s_typedef('FooRec', t_struct('_FooRec')), s_struct('_FooRec', [s_member('x', t_basic('int'))])]
    if boxed_kind == 0:
        d += [s_typedef('FooThing', t_struct('_FooThing')), s_struct('_FooThing', [s_member('a', t_basic('int'))])]
    elif boxed_kind == 1:
        d += [s_typedef('FooThing', t_union('_FooThing')), s_union('_FooThing', [s_member('a', t_basic('int'))])]
    d.append(s_function('foo_thing_get_type', t_typedef('GType'), []))
    d += [s_typedef('FooObj', t_struct('_FooObj')),
          s_struct('_FooObj', [s_member('parent_instance', t_typedef('GObject'))])]
    if with_class_struct:
        d += [s_typedef('FooObjClass', t_struct('_FooObjClass')),
              s_struct('_FooObjClass', [s_member('parent_class', t_typedef('GObjectClass')),
                                        _slot('first_slot', vf_first), _slot('second_slot', vf2_first)])]
    d.append(s_function('foo_obj_get_type', t_typedef('GType'), []))
    d.append(s_function('foo_obj_poke', t_void(), [s_param('self', t_ptr(t_typedef('FooObj')))]))
    # error enum + quark function
    d.append(s_enum(ENUM, [s_enum_member(EUP + '_A', 0), s_enum_member(EUP + '_B', 1)]))
    qname = (None, 'foo_%s_quark' % elow, 'foo_other_error_quark', 'foo_%s_quark' % elow)[quark]
    if qname:
        d.append(s_function(qname, t_typedef('GQuark') if quark != 3 else t_basic('int'), []))
    if enum_registered:
        d.append(s_function('foo_%s_get_type' % elow, t_typedef('GType'), []))
    dump = [FakeXml('boxed', {'name': 'FooThing', 'get-type': 'foo_thing_get_type'}),
            FakeXml('class', {'name': 'FooObj', 'get-type': 'foo_obj_get_type', 'parents': 'GObject'})]
    if enum_registered:
        dump.append(FakeXml('enum', {'name': ENUM, 'get-type': 'foo_%s_get_type' % elow},
                            [FakeXml('member', {'name': EUP + '_A', 'nick': 'a', 'value': '0'}),
                             FakeXml('member', {'name': EUP + '_B', 'nick': 'b', 'value': '1'})]))
    if qname and quark != 3:
        dump.append(FakeXml('error-quark', {'function': qname, 'domain': 'foo-some-domain'}))
    if boxed_kind == 3:
        return True     # name clash between a boxed type and an enum: not an input the statement describes
    o = run_pipeline(d, [], dump)
    if o.root is None:
        return 'pipeline stopped: %r %r' % (o.fatal, o.crashed)
    root = o.root
    # --- boxed attaches to the structure or union of the same name -----------------------
    recs = _find(root, 'record', 'Thing')
    unis = _find(root, 'union', 'Thing')
    bare = _find(root, 'glib:boxed', 'Thing')
    if boxed_kind == 0:
        if len(recs) != 1 or unis or bare:
            return 'boxed FooThing with struct: records %d unions %d boxed %d' % (len(recs), len(unis), len(bare))
        holder = recs[0]
    elif boxed_kind == 1:
        if len(unis) != 1 or recs or bare:
            return 'boxed FooThing with union: records %d unions %d boxed %d' % (len(recs), len(unis), len(bare))
        holder = unis[0]
    else:
        if len(bare) != 1 or recs or unis:
            return 'bare boxed FooThing: records %d unions %d boxed %d' % (len(recs), len(unis), len(bare))
        holder = bare[0]
    if holder.get('glib:type-name') != 'FooThing' or holder.get('glib:get-type') != 'foo_thing_get_type':
        return 'boxed type name / get-type not attached: %r' % (holder.attrs,)
    # --- class structure linked both ways; virtual methods --------------------------------
    cls = _find(root, 'class', 'Obj')
    if len(cls) != 1:
        return 'class emitted %d times' % len(cls)
    c = cls[0]
    vms = sorted(v.get('name') for v in c.children if v.tag == 'virtual-method')
    if with_class_struct:
        if c.get('glib:type-struct') != 'ObjClass':
            return 'glib:type-struct %r' % c.get('glib:type-struct')
        rec = _find(root, 'record', 'ObjClass')
        if len(rec) != 1 or rec[0].get('glib:is-gtype-struct-for') != 'Obj':
            return 'class structure not linked back to the class'
        want = sorted(n for n, f in (('first_slot', vf_first), ('second_slot', vf2_first)) if FIRSTS[f] == 'FooObj*')
        if vms != want:
            return 'virtual methods %r, slots taking the instance first: %r' % (vms, want)
    else:
        if c.get('glib:type-struct') is not None:
            return 'glib:type-struct %r without a class structure' % c.get('glib:type-struct')
        if vms:
            return 'virtual methods %r without a class structure' % vms
    # --- get-type functions disappear from the function list ------------------------------------
    ns = [e for e in root.iter() if e.tag == 'namespace'][0]
    top_funcs = [f.get('c:identifier') for f in ns.children if f.tag == 'function']
    all_funcs = [f.get('c:identifier') for f in root.iter() if f.tag in ('function', 'method', 'constructor')]
    for gt in ('foo_obj_get_type', 'foo_thing_get_type') + (('foo_%s_get_type' % elow,) if enum_registered else ()):
        if gt in all_funcs:
            return 'get-type function %s still listed' % gt
    if 'foo_obj_poke' not in all_funcs:
        return 'ordinary function lost'
    # --- error domain -----------------------------------------------------------------------
    en = _find(root, 'enumeration', ENUM[3:])
    if len(en) != 1:
        return 'error enumeration emitted %d times' % len(en)
    dom = en[0].get('glib:error-domain')
    if quark == 1:
        if dom != 'foo-some-domain':
            return 'error domain %r, quark function reported foo-some-domain' % dom
    elif dom is not None:
        return 'error domain %r without a matching quark function' % dom
    if enum_registered and en[0].get('glib:get-type') != 'foo_%s_get_type' % elow:
        return 'registered enum lost its get-type'
    return True
