"""C16 harnesses: scanner output is deterministic and independent of irrelevant order.

Real code executed: the whole pipeline (Transformer.parse, GDumpParser, MainTransformer,
IntrospectablePass, GIRWriter incl. XMLWriter serialisation).
What is made symbolic is every channel through which the interpreter's hash seed, the
order of comment blocks / source files and the order of declarations can reach the
output:
  * iteration order of every `set` created by giscanner.ast / transformer /
    maintransformer / girparser / gdumpparser (the name `set` is shadowed in those modules
    by a subclass whose iteration order is a chosen permutation);
  * insertion order of the comment-block dictionary;
  * order of the declarations handed to Transformer.parse (incl. typedef before / after
    the struct body) and of the nodes of the runtime dump.
Oracle: the bytes of the emitted GIR are the same for every order.
"""
import itertools

import pipe
from pipe import run_pipeline, mk_block
from vlib import sym
from vlib.gistub import (FakeXml, s_typedef, s_struct, s_union, s_member, s_function, s_param, s_enum,
                         s_enum_member, s_const, t_struct, t_union, t_typedef, t_ptr, t_basic, t_void,
                         t_func, girwriter, ast, transformer, maintransformer)
from giscanner import girparser, gdumpparser, introspectablepass

ORDER = [0]


def _kth_permutation(items, k):
    items = list(items)
    out = []
    n = len(items)
    f = 1
    for i in range(2, n + 1):
        f *= i
    k %= f
    for i in range(n, 0, -1):
        f //= i
        j, k = divmod(k, f)
        out.append(items.pop(j))
    return out


class PSet(set):
    """A set whose iteration order is the ORDER-th permutation of a canonical order."""

    def __iter__(self):
        items = sorted(set.__iter__(self), key=lambda x: (type(x).__name__, repr(x)))
        return iter(_kth_permutation(items, ORDER[0]))

    def copy(self):
        return PSet(set.__iter__(self))


_MODULES = (ast, transformer, maintransformer, girparser, gdumpparser, introspectablepass, girwriter)


def _install():
    for m in _MODULES:
        m.__dict__['set'] = PSet


def _uninstall():
    for m in _MODULES:
        m.__dict__.pop('set', None)


def _obj(name='self'):
    return s_param(name, t_ptr(t_typedef('FooObj')))


def _decl_groups():
    """Independent groups of declarations, each with its own file and line numbers (positions
    are properties of the declarations, not of the order in which they are handed over)."""
    slot = s_member('frob', t_ptr(t_func(t_void(), [_obj(), s_param('v', t_basic('int'))])))
    g = []
    g.append([s_typedef('FooRec', t_struct('_FooRec'), filename='foo-types.h', line=10)])
    g.append([s_struct('_FooRec', [s_member('x', t_basic('int')), s_member('n', t_basic('int'))],
                       filename='foo.h', line=20)])
    # a second typedef name for the same struct (GObject / GInitiallyUnowned style)
    g.append([s_typedef('FooRecAlso', t_struct('_FooRec'), filename='foo-types.h', line=11)])
    g.append([s_typedef('FooUni', t_union('_FooUni'), filename='foo-types.h', line=12)])
    g.append([s_union('_FooUni', [s_member('i', t_basic('int')), s_member('p', t_typedef('gpointer'))],
                      filename='foo.h', line=30)])
    g.append([s_typedef('FooObj', t_struct('_FooObj'), filename='foo-types.h', line=14),
              s_typedef('FooObjClass', t_struct('_FooObjClass'), filename='foo-types.h', line=15)])
    g.append([s_struct('_FooObj', [s_member('parent_instance', t_typedef('GObject'))], filename='foo-obj.h', line=40)])
    g.append([s_struct('_FooObjClass', [s_member('parent_class', t_typedef('GObjectClass')), slot],
                       filename='foo-obj.h', line=50)])
    g.append([s_function('foo_obj_get_type', t_typedef('GType'), [], filename='foo-obj.h', line=60)])
    g.append([s_function('foo_obj_frob', t_void(), [_obj(), s_param('v', t_basic('int'))], filename='foo-obj.h', line=62)])
    g.append([s_function('foo_obj_new', t_ptr(t_typedef('FooObj')), [], filename='foo-obj.h', line=64)])
    g.append([s_function('foo_zeta', t_basic('int'), [s_param('a', t_basic('int'))], filename='foo.h', line=70)])
    g.append([s_function('foo_alpha', t_basic('int'), [s_param('a', t_basic('int'))], filename='bar.h', line=5)])
    g.append([s_enum('FooKind', [s_enum_member('FOO_KIND_B', 1), s_enum_member('FOO_KIND_A', 0)],
                     filename='foo.h', line=80)])
    g.append([s_const('FOO_LIMIT', const_int=7, filename='foo.h', line=90),
              s_const('FOO_ALSO', const_int=8, filename='foo.h', line=91),
              # matches both symbol prefixes of the namespace (foo and foo_bar)
              s_const('FOO_BAR_MAX_ITEMS', const_int=9, filename='foo.h', line=92)])
    g.append([s_typedef('FooAlias', t_basic('int'), filename='foo.h', line=95)])
    g.append([s_typedef('FooCb', t_ptr(t_func(t_void(), [s_param('v', t_basic('int'))])), filename='foo.h', line=97)])
    return g


def _dump_nodes():
    return [FakeXml('class', {'name': 'FooObj', 'get-type': 'foo_obj_get_type', 'parents': 'GObject'},
                    [FakeXml('property', {'name': 'zeta', 'type': 'gint', 'flags': '3'}),
                     FakeXml('property', {'name': 'alpha', 'type': 'gint', 'flags': '3'}),
                     FakeXml('signal', {'name': 'moved', 'return': 'void', 'when': 'last'}),
                     FakeXml('signal', {'name': 'changed', 'return': 'void', 'when': 'last'})])]


def _blocks():
    return [mk_block('foo_zeta', description='zeta doc', params={'a': ({}, 'the a'), 'bogus': ({}, 'unknown'),
                                                                   'bogus2': ({}, 'unknown too')},
                     filename='foo.c', line=5),
            mk_block('FooObj', description='class doc', filename='foo-obj.c', line=7),
            mk_block('SECTION:fooobj', description='section doc of the class', filename='foo-obj.c', line=1),
            mk_block('SECTION:standalone', description='standalone section', filename='foo-doc.c', line=1),
            mk_block('SECTION:another', description='another standalone section', filename='foo-doc.c', line=9),
            mk_block('FooObj:alpha', description='alpha property', filename='foo-obj.c', line=30)]


PREFIXES = dict(identifier_prefixes=['Foo'], symbol_prefixes=['foo', 'foo_bar'])


def _emit(decls, blocks, dump):
    o = run_pipeline(decls, blocks, dump, prefixes=PREFIXES)
    if o.root is None:
        return None, 'pipeline stopped: %r %r' % (o.fatal, o.crashed)
    ns = o.sc.namespace
    ns.exported_packages.extend(['zlib', 'alib']) if isinstance(ns.exported_packages, list) else None
    ns.c_includes.extend(['z.h', 'a.h']) if isinstance(ns.c_includes, list) else None
    return girwriter.GIRWriter(ns).get_encoded_xml(), None


def _baseline():
    ORDER[0] = 0
    decls = [d for g in _decl_groups() for d in g]
    return _emit(decls, _blocks(), _dump_nodes())


def set_order(order: int):
    """Every set of the scanner iterates in the order-th permutation."""
    order = sym.pick(order, 0, 119)
    with sym.untraced():
        _install()
        try:
            ref, err = _baseline()
            if ref is None:
                return err
            ORDER[0] = order
            decls = [d for g in _decl_groups() for d in g]
            got, err = _emit(decls, _blocks(), _dump_nodes())
            if got is None:
                return err
            if got != ref:
                return 'set iteration order %d changes the output: %s' % (order, _diff(ref, got))
            return True
        finally:
            ORDER[0] = 0
            _uninstall()


def block_order(perm: int, dump_perm: int):
    """Comment blocks (and dump nodes) supplied in another order."""
    perm = sym.pick(perm, 0, 719)
    dump_perm = sym.pick(dump_perm, 0, 23)
    with sym.untraced():
        ref, err = _baseline()
        if ref is None:
            return err
        blocks = _kth_permutation(_blocks(), perm)
        dump = _dump_nodes()
        kids = _kth_permutation(dump[0].children, dump_perm)
        dump[0].children = kids
        decls = [d for g in _decl_groups() for d in g]
        got, err = _emit(decls, blocks, dump)
        if got is None:
            return err
        if got != ref:
            return 'block order %d / dump order %d changes the output: %s' % (perm, dump_perm, _diff(ref, got))
        return True


N_GROUPS = 17


def decl_order(a: int, b: int, rot: int, rev: bool):
    """Declarations handed over in another order: groups a and b swapped, the list rotated
    by rot and optionally reversed (covers typedef before/after the struct body for every
    compound and every relative order of two groups)."""
    a = sym.pick(a, 0, N_GROUPS - 1)
    b = sym.pick(b, 0, N_GROUPS - 1)
    rot = sym.pick(rot, 0, N_GROUPS - 1)
    rev = sym.flag(rev)
    with sym.untraced():
        ref, err = _baseline()
        if ref is None:
            return err
        groups = _decl_groups()
        assert len(groups) == N_GROUPS
        groups[a], groups[b] = groups[b], groups[a]
        groups = groups[rot:] + groups[:rot]
        if rev:
            groups.reverse()
        decls = [d for g in groups for d in g]
        idents = [d.ident for d in decls]
        if idents.index('FooRecAlso') < idents.index('FooRec'):
            return True     # which of two typedef names of one struct comes first is not an irrelevant order:
            #                 the first one names the record, the other becomes a second record sharing its fields
        got, err = _emit(decls, _blocks(), _dump_nodes())
        if got is None:
            return err
        if got != ref:
            return 'declaration order (swap %d,%d rot %d rev %r) changes the output: %s' % (a, b, rot, rev, _diff(ref, got))
        return True


def _diff(a, b):
    la = a.decode('utf-8').split('\n')
    lb = b.decode('utf-8').split('\n')
    for i in range(max(len(la), len(lb))):
        x = la[i] if i < len(la) else '<missing>'
        y = lb[i] if i < len(lb) else '<missing>'
        if x != y:
            return 'line %d %r vs %r' % (i + 1, x.strip()[:120], y.strip()[:120])
    return 'differs'


def sibling_order(n1: int, n2: int, n3: int, k1: int, k2: int, k3: int):
    """Three toplevel nodes of chosen names and kinds: emitted order is aliases first, then by name."""
    n1 = sym.pick(n1, 0, 3)
    n2 = sym.pick(n2, 0, 3)
    n3 = sym.pick(n3, 0, 3)
    k1 = sym.pick(k1, 0, 3)
    k2 = sym.pick(k2, 0, 3)
    k3 = sym.pick(k3, 0, 3)
    with sym.untraced():
        names = ('Alpha', 'Beta', 'Gamma', 'alpha')
        chosen = [(names[n1], k1), (names[n2], k2), (names[n3], k3)]
        if len(set(n for n, _ in chosen)) != 3:
            return True
        decls = []
        for n, k in chosen:
            if k == 0:
                decls.append(s_typedef('Foo' + n, t_basic('int')))
            elif k == 1:
                decls += [s_typedef('Foo' + n, t_struct('_Foo' + n)), s_struct('_Foo' + n, [s_member('x', t_basic('int'))])]
            elif k == 2:
                decls.append(s_enum('Foo' + n, [s_enum_member('FOO_%s_A' % n.upper(), 0), s_enum_member('FOO_%s_B' % n.upper(), 1)]))
            else:
                decls.append(s_function('foo_' + n.lower() + ('_fn' if n != 'alpha' else '_fn2'), t_void(), []))
        o = run_pipeline(decls, [], None)
        if o.root is None:
            return True
        ns = [e for e in o.root.iter() if e.tag == 'namespace'][0]
        got = [(e.tag, e.get('name')) for e in ns.children]
        aliases = sorted(e for e in got if e[0] == 'alias')
        rest = [e for e in got if e[0] != 'alias']
        if got[:len(aliases)] != sorted(got[:len(aliases)]) or [e for e in got[:len(aliases)] if e[0] != 'alias']:
            return 'aliases are not emitted first: %r' % (got,)
        if [n for _, n in rest] != sorted(n for _, n in rest):
            return 'non-alias siblings are not ordered by name: %r' % (got,)
        return True


# ------------------------------------------------------------------------------
# cold vs warm cache: a history of scans sharing one cache directory

_GIR = '''<?xml version="1.0"?>
<repository version="1.2" xmlns="http://www.gtk.org/introspection/core/1.0"
            xmlns:c="http://www.gtk.org/introspection/c/1.0" xmlns:glib="http://www.gtk.org/introspection/glib/1.0">
  <namespace name="Dep" version="1.0" c:identifier-prefixes="Dep" c:symbol-prefixes="dep">
%s
  </namespace>
</repository>
'''
_BODIES = ('    <record name="Thing" c:type="DepThing"/>',
           '    <record name="Other" c:type="DepOther"/>\n    <enumeration name="Mode" c:type="DepMode"><member name="a" value="0" c:identifier="DEP_MODE_A"/></enumeration>',
           '    <record name="Thing" c:type="DepThing"/>\n    <record name="Third" c:type="DepThird"/>')


def cache_history(f1: int, f2: int, f3: int, age: int):
    """Three scans in a row share one cache directory; scan i includes dependency file f_i (three files
    named Dep-1.0.gir in different directories with different contents; `age` permutes their time
    stamps).  The dependency namespace each scan sees must be the one a cold parse of that file gives."""
    import os
    import shutil
    import tempfile
    f1 = sym.pick(f1, 0, 2)
    f2 = sym.pick(f2, 0, 2)
    f3 = sym.pick(f3, 0, 2)
    age = sym.pick(age, 0, 5)
    with sym.untraced():
        from giscanner import cachestore
        d = tempfile.mkdtemp(prefix='c16-cache-')
        saved = dict((k, os.environ.get(k)) for k in ('XDG_CACHE_HOME', 'GI_SCANNER_DISABLE_CACHE'))
        try:
            os.environ['XDG_CACHE_HOME'] = os.path.join(d, 'cache')
            os.environ.pop('GI_SCANNER_DISABLE_CACHE', None)
            paths = []
            order = _kth_permutation([0, 1, 2], age)
            for i in range(3):
                sub = os.path.join(d, 'dir%d' % i)
                os.makedirs(sub)
                p = os.path.join(sub, 'Dep-1.0.gir')
                with open(p, 'w') as f:
                    f.write(_GIR % _BODIES[i])
                t = 1000000000 + 100 * order[i]
                os.utime(p, (t, t))
                paths.append(p)

            def scan(path, cached):
                ns = ast.Namespace('Foo', '1.0')
                t = transformer.Transformer(ns)
                t._cachestore = cachestore.CacheStore() if cached else None
                t.register_include_uninstalled(path)
                dep = t._parsed_includes['Dep']
                return sorted((n, type(v).__name__) for n, v in dep.names.items())
            cold = [scan(p, False) for p in paths]
            for k, fi in enumerate((f1, f2, f3)):
                got = scan(paths[fi], True)
                if got != cold[fi]:
                    return 'scan %d of file %d after history %r: the cache delivered %r, a cold parse gives %r' % (
                        k + 1, fi, (f1, f2, f3)[:k], got, cold[fi])
            return True
        finally:
            for k, v in saved.items():
                if v is None:
                    os.environ.pop(k, None)
                else:
                    os.environ[k] = v
            shutil.rmtree(d, ignore_errors=True)
