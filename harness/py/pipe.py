"""Shared scenario builder for the scanner-pipeline harnesses (C01, C02, C05, C16).

A scenario is a small C API given as declaration records (see vlib/gistub.py)
plus comment blocks; it is pushed through the *real* pipeline
  Transformer.parse -> GDumpParser.parse (fake dump tree) ->
  MainTransformer.transform -> IntrospectablePass.validate -> GIRWriter
and the emitted element tree is returned.  Everything that varies is an
integer / boolean argument of the harness, so CrossHair explores every
combination within the stated ranges.

Fixed part of every scenario (namespace Foo, includes GLib/GObject/Gio):

    typedef struct _FooRec FooRec;      struct _FooRec { int x; int n; };
    typedef struct _FooSkipped FooSkipped; struct _FooSkipped { int y; };   /* (skip) */
    typedef struct _FooBoxed FooBoxed;  struct _FooBoxed { int z; };  + foo_boxed_get_type (boxed in dump)
    typedef enum { FOO_KIND_A, FOO_KIND_B } FooKind;
    typedef void (*FooCb) (int v, gpointer user_data);
    typedef int FooAlias;
    typedef BarUnknown *FooBadAlias;                      /* alias of an unresolvable type */
    typedef struct _FooObj FooObj;  struct _FooObj { GObject parent; };
    typedef struct _FooObjClass FooObjClass; struct _FooObjClass { GObjectClass parent_class; <vfunc slot> };
    GType foo_obj_get_type (void);                         + class FooObj in the dump
"""
from vlib import gistub
from vlib.gistub import (Scan, CType, CSym, ss, ast, t_void, t_basic, t_typedef, t_ptr,
                         t_struct, t_enum, t_array, t_func, s_param, s_ellipsis, s_function,
                         s_typedef, s_struct, s_member, s_enum_member, s_enum, mk_block,
                         FakeXml, CONST, VOLATILE)

# --------------------------------------------------------------------------
# value types

def _p(t, q=0):
    return t_ptr(t, q)


# label, builder, tags.  Tags used by oracles:
#   ptr      C pointer (or pointer-like typedef)
#   unres    does not resolve to anything
#   bad      resolves, but to something not bindable (skipped / non-introspectable target,
#            va_list, long long, long double)
#   cb       callback type (needs scope as a parameter)
#   wkcb     well-known callback (DestroyNotify / AsyncReadyCallback)
#   cont     bare container without element type
#   rec      plain record (no GType)
TYPES = [
    ('int', lambda: t_basic('int'), ()),
    ('FooKind', lambda: t_typedef('FooKind'), ()),
    ('char*', lambda: _p(t_basic('char')), ('ptr', 'str')),
    ('const char*', lambda: _p(t_basic('char', CONST)), ('ptr', 'str', 'const')),
    ('FooRec*', lambda: _p(t_typedef('FooRec')), ('ptr', 'rec')),
    ('FooRec**', lambda: _p(_p(t_typedef('FooRec'))), ('ptr', 'rec', 'pp')),
    ('FooObj*', lambda: _p(t_typedef('FooObj')), ('ptr', 'obj')),
    ('GObject*', lambda: _p(t_typedef('GObject')), ('ptr', 'obj')),
    ('FooBoxed*', lambda: _p(t_typedef('FooBoxed')), ('ptr', 'boxed')),
    ('gpointer', lambda: t_typedef('gpointer'), ('ptr', 'any')),
    ('GList*', lambda: _p(t_typedef('GList')), ('ptr', 'cont', 'list')),
    ('GHashTable*', lambda: _p(t_typedef('GHashTable')), ('ptr', 'map')),
    ('GPtrArray*', lambda: _p(t_typedef('GPtrArray')), ('ptr', 'cont', 'garray')),
    ('GByteArray*', lambda: _p(t_typedef('GByteArray')), ('ptr', 'garray')),
    ('int*', lambda: _p(t_basic('int')), ('ptr', 'intp')),
    ('FooCb', lambda: t_typedef('FooCb'), ('ptr', 'cb')),
    ('GDestroyNotify', lambda: t_typedef('GDestroyNotify'), ('ptr', 'cb', 'wkcb')),
    ('GAsyncReadyCallback', lambda: t_typedef('GAsyncReadyCallback'), ('ptr', 'cb', 'wkcb')),
    ('FooAlias', lambda: t_typedef('FooAlias'), ()),
    ('FooUnknown*', lambda: _p(t_typedef('FooUnknown')), ('ptr', 'unres')),
    ('BarThing*', lambda: _p(t_typedef('BarThing')), ('ptr', 'unres')),
    ('FooSkipped*', lambda: _p(t_typedef('FooSkipped')), ('ptr', 'bad', 'rec')),
    ('FooBadAlias', lambda: t_typedef('FooBadAlias'), ('ptr', 'bad')),
    ('va_list', lambda: t_typedef('va_list'), ('bad',)),
    ('long long', lambda: t_basic('long long'), ('bad',)),
    ('long double', lambda: t_basic('long double'), ('bad',)),
    ('GVariant*', lambda: _p(t_typedef('GVariant')), ('ptr', 'variant')),
    ('char**', lambda: _p(_p(t_basic('char'))), ('ptr', 'strv', 'pp')),
    ('FooRec', lambda: t_typedef('FooRec'), ('rec', 'byvalue')),
    ('GError**', lambda: _p(_p(t_typedef('GError'))), ('ptr', 'pp', 'gerror')),
    ('FooBarThing*', lambda: _p(t_typedef('FooBarThing')), ('ptr', 'rec', 'foreign')),
    ('FooHandler', lambda: t_typedef('FooHandler'), ('ptr', 'cb', 'aliascb')),       # typedef FooCb FooHandler;
    ('FooVaCb', lambda: t_typedef('FooVaCb'), ('ptr', 'cb', 'bad')),                 # callback type taking a va_list
]
TYPE_LABELS = [t[0] for t in TYPES]
N_TYPES = len(TYPES)
T_VARARGS = N_TYPES          # pseudo kind: "..." (parameter position only)


def type_tags(k):
    if k == T_VARARGS:
        return ('varargs',)
    return TYPES[k][2]


def mk_ctype(k):
    return TYPES[k][1]()


# --------------------------------------------------------------------------
# annotation vocabularies (option index 0 always means "annotation absent")

TRANSFER = (None, 'none', 'full', 'container', 'floating')
DIRECTION = (None, ('in', []), ('out', []), ('out', ['caller-allocates']),
             ('out', ['callee-allocates']), ('inout', []))
SCOPE = (None, 'call', 'async', 'notified', 'forever')
# type names usable in (type X) / (element-type X)
USER_TYPES = (None, 'utf8', 'gint', 'gpointer', 'FooRec', 'Foo.Rec', 'FooSkipped', 'FooBadAlias',
              'BarUnknown', 'GObject.Object', 'FooCb', 'FooUnknown', 'long long', 'FooBar.Thing')


def value_annotations(transfer=0, direction=0, scope=0, skip=False, nullable=False,
                      optional=False, allow_none=False, not_nullable=False,
                      array=None, element_type=None, type_override=0,
                      closure=None, destroy=None, attributes=None):
    """Annotation dict for one parameter / return value, as the comment parser
    delivers it (lists for positional options, dicts for key=value options)."""
    a = {}
    if TRANSFER[transfer] is not None:
        a['transfer'] = [TRANSFER[transfer]]
    d = DIRECTION[direction]
    if d is not None:
        a[d[0]] = list(d[1])
    if SCOPE[scope] is not None:
        a['scope'] = [SCOPE[scope]]
    if skip:
        a['skip'] = []
    if nullable:
        a['nullable'] = []
    if optional:
        a['optional'] = []
    if allow_none:
        a['allow-none'] = []
    if not_nullable:
        a['not'] = ['nullable']
    if array is not None:
        a['array'] = dict(array)
    if element_type is not None:
        a['element-type'] = list(element_type)
    if USER_TYPES[type_override] is not None:
        a['type'] = [USER_TYPES[type_override]]
    if closure is not None:
        a['closure'] = [closure] if closure != '' else []
    if destroy is not None:
        a['destroy'] = [destroy]
    if attributes is not None:
        a['attributes'] = dict(attributes)
    return a


# --------------------------------------------------------------------------
# fixed declarations

def fixed_decls(vfunc_slot=None, rec_extra_fields=(), with_class=True, typedef_first=True):
    out = []
    rec_fields = [s_member('x', t_basic('int')), s_member('n', t_basic('int'))] + list(rec_extra_fields)
    td_rec = s_typedef('FooRec', t_struct('_FooRec'))
    st_rec = s_struct('_FooRec', rec_fields)
    out += [td_rec, st_rec] if typedef_first else [st_rec, td_rec]
    out += [s_typedef('FooSkipped', t_struct('_FooSkipped')),
            s_struct('_FooSkipped', [s_member('y', t_basic('int'))])]
    out += [s_typedef('FooBoxed', t_struct('_FooBoxed')),
            s_struct('_FooBoxed', [s_member('z', t_basic('int'))]),
            s_function('foo_boxed_get_type', t_typedef('GType'), [])]
    out.append(s_enum('FooKind', [s_enum_member('FOO_KIND_A', 0), s_enum_member('FOO_KIND_B', 1)]))
    out.append(s_typedef('FooCb', t_ptr(t_func(t_void(), [s_param('v', t_basic('int')),
                                                          s_param('user_data', t_typedef('gpointer'))]))))
    out.append(s_typedef('FooAlias', t_basic('int')))
    out.append(s_typedef('FooBadAlias', t_ptr(t_typedef('BarUnknown'))))
    if with_class:
        out += [s_typedef('FooObj', t_struct('_FooObj')),
                s_struct('_FooObj', [s_member('parent', t_typedef('GObject'))]),
                s_typedef('FooObjClass', t_struct('_FooObjClass'))]
        cls_fields = [s_member('parent_class', t_typedef('GObjectClass'))]
        if vfunc_slot is not None:
            cls_fields.append(vfunc_slot)
        out.append(s_struct('_FooObjClass', cls_fields))
        out.append(s_function('foo_obj_get_type', t_typedef('GType'), []))
    out.append(s_typedef('FooHandler', t_typedef('FooCb')))
    # declared after FooObj: a method using it is walked before this type is found not introspectable
    out.append(s_typedef('FooVaCb', t_ptr(t_func(t_void(), [s_param('format', t_ptr(t_basic('char', CONST))),
                                                            s_param('args', t_typedef('va_list'))]))))
    return out


def fixed_dump(with_class=True, properties=(), signals=()):
    nodes = [FakeXml('boxed', {'name': 'FooBoxed', 'get-type': 'foo_boxed_get_type'})]
    if with_class:
        kids = list(properties) + list(signals)
        nodes.append(FakeXml('class', {'name': 'FooObj', 'get-type': 'foo_obj_get_type',
                                       'parents': 'GObject'}, kids))
    return nodes


def fixed_blocks(sc):
    sc.add_block(mk_block('FooSkipped', annotations={'skip': []}))


# --------------------------------------------------------------------------
# running a scenario

class Outcome(object):
    def __init__(self, sc, root, crashed=None):
        self.sc = sc
        self.root = root
        self.crashed = crashed
        self.fatal = sc.fatal

    @property
    def warnings(self):
        return self.sc.log.texts()


def run_pipeline(decls, blocks=(), dump=None, prefixes=None):
    """Returns Outcome; .root is None when the scanner stopped with a fatal
    diagnostic (SystemExit) or crashed (outcome.crashed = exception text)."""
    sc = Scan(**(prefixes or {}))
    fixed_blocks(sc)
    for b in blocks:
        sc.add_block(b)
    try:
        sc.parse(decls)
        if dump is not None:
            sc.dump(dump)
        if not sc.transform():
            return Outcome(sc, None)
        root = sc.write()
    except SystemExit as e:
        sc.fatal = str(e)
        return Outcome(sc, None)
    except Exception as e:   # scanner crash: no GIR is emitted
        return Outcome(sc, None, crashed='%s: %s' % (type(e).__name__, e))
    return Outcome(sc, root)


# --------------------------------------------------------------------------
# callable scenarios

CALLABLE_KINDS = ('function', 'method', 'callback', 'vfunc', 'field-callback', 'signal')
SUBJECT = 'subj'


def build_callable(ckind, params, ret, value_anns, callable_anns=None, tags=None,
                   extra_blocks=(), name='frob'):
    """params: list of (argname, type kind); ret: type kind or None for void.
    value_anns: {argname or 'returns': annotation dict}.
    Returns (decls, blocks, dump, locator) where locator(root) finds the element."""
    cparams = []
    for argname, k in params:
        if k == T_VARARGS:
            cparams.append(s_ellipsis())
        else:
            cparams.append(s_param(argname, mk_ctype(k)))
    cret = t_void() if ret is None else mk_ctype(ret)
    pblock = {}
    btags = dict(tags or {})
    for key, ann in value_anns.items():
        if key == 'returns':
            btags['returns'] = (ann, None, None)
        else:
            pblock[key] = (ann, None)
    blocks = list(extra_blocks)
    dump = fixed_dump()
    ck = CALLABLE_KINDS[ckind]
    if ck == 'function':
        decls = fixed_decls() + [s_function('foo_' + name, cret, cparams)]
        blocks.append(mk_block('foo_' + name, annotations=callable_anns, params=pblock, tags=btags))
        tag, cid = 'function', 'foo_' + name
    elif ck == 'method':
        cparams = [s_param('self', t_ptr(t_typedef('FooRec')))] + cparams
        decls = fixed_decls() + [s_function('foo_rec_' + name, cret, cparams)]
        blocks.append(mk_block('foo_rec_' + name, annotations=callable_anns, params=pblock, tags=btags))
        tag, cid = 'method', 'foo_rec_' + name
    elif ck == 'callback':
        decls = fixed_decls() + [s_typedef('FooFrobCb', t_ptr(t_func(cret, cparams)))]
        blocks.append(mk_block('FooFrobCb', annotations=callable_anns, params=pblock, tags=btags))
        tag, cid = 'callback', 'FooFrobCb'
    elif ck == 'vfunc':
        cparams = [s_param('self', t_ptr(t_typedef('FooObj')))] + cparams
        slot = s_member(name, t_ptr(t_func(cret, cparams)))
        decls = fixed_decls(vfunc_slot=slot)
        blocks.append(mk_block('FooObjClass::' + name, annotations=callable_anns, params=pblock, tags=btags))
        tag, cid = 'virtual-method', name
    elif ck == 'field-callback':
        slot = s_member(name, t_ptr(t_func(cret, cparams)))
        decls = fixed_decls(rec_extra_fields=[slot])
        # callback fields of plain records cannot be documented per parameter: no block
        tag, cid = 'field', name
    else:
        raise ValueError(ck)
    return decls, blocks, dump, (tag, cid)


def find_callable(root, loc):
    tag, cid = loc
    out = []
    for e in root.iter():
        if e.tag != tag:
            continue
        if tag in ('function', 'method', 'constructor'):
            if e.get('c:identifier') == cid:
                out.append(e)
        elif tag == 'callback':
            if e.get('c:type') == cid:
                out.append(e)
        else:
            if e.get('name') == cid:
                out.append(e)
    return out
