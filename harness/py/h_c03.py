"""C03 harnesses: identifier-level annotations and tags land on the right GIR element.

Real code executed: MainTransformer.transform (_get_annotation_name, _get_block,
_pass_read_annotations_early, _pass_read_annotations, _apply_annotations_annotated/
_callable/_property/_signal/_field/_constant/_enum_members/_alias, _apply_annotation_rename_to,
_pass_read_annotations2, _pair_class_virtuals, _pair_property_accessors), the rest of the
pipeline and GIRWriter.
Oracle: the block's effect is present on the element whose C name / Class:prop /
Class::sig / Struct.field / ClassStruct::vfunc name it carries, and every other element
is emitted exactly as without the block (differential baseline).
"""
import pipe
from pipe import run_pipeline, mk_block
from vlib import sym
from vlib.gistub import (FakeXml, s_typedef, s_struct, s_member, s_function, s_param, s_enum,
                         s_enum_member, s_const, t_struct, t_typedef, t_ptr, t_basic, t_void, t_func)


def _obj(name='self'):
    return s_param(name, t_ptr(t_typedef('FooObj')))


def _decls(extra=()):
    slots = [s_member('frob', t_ptr(t_func(t_void(), [_obj(), s_param('v', t_basic('int'))]))),
             s_member('twist', t_ptr(t_func(t_void(), [_obj(), s_param('v', t_basic('int'))])))]
    d = []
    d += [s_typedef('FooRec', t_struct('_FooRec')),
          s_struct('_FooRec', [s_member('x', t_basic('int')), s_member('n', t_basic('int'))]),
          s_typedef('FooRecTwo', t_struct('_FooRecTwo')),
          s_struct('_FooRecTwo', [s_member('x', t_basic('int'))])]
    d += [s_enum('FooKind', [s_enum_member('FOO_KIND_A', 0), s_enum_member('FOO_KIND_B', 1)]),
          s_enum('FooMode', [s_enum_member('FOO_MODE_A', 0), s_enum_member('FOO_MODE_B', 1)])]
    d += [s_typedef('FooCb', t_ptr(t_func(t_void(), [s_param('v', t_basic('int'))]))),
          s_typedef('FooCbTwo', t_ptr(t_func(t_void(), [s_param('v', t_basic('int'))])))]
    d += [s_typedef('FooAlias', t_basic('int')), s_typedef('FooAliasTwo', t_basic('int'))]
    d += [s_const('FOO_LIMIT', const_int=7), s_const('FOO_OTHER', const_int=8)]
    d += [s_typedef('FooObj', t_struct('_FooObj')),
          s_struct('_FooObj', [s_member('parent_instance', t_typedef('GObject'))]),
          s_typedef('FooObjClass', t_struct('_FooObjClass')),
          s_struct('_FooObjClass', [s_member('parent_class', t_typedef('GObjectClass'))] + slots),
          s_function('foo_obj_get_type', t_typedef('GType'), [])]
    d += [s_function('foo_frob', t_basic('int'), [s_param('a', t_basic('int'))]),
          s_function('foo_frob_two', t_basic('int'), [s_param('a', t_basic('int'))]),
          s_function('foo_obj_frob', t_void(), [_obj(), s_param('v', t_basic('int'))]),
          s_function('foo_obj_twist', t_void(), [_obj(), s_param('v', t_basic('int'))]),
          s_function('foo_obj_poke', t_void(), [_obj()]),
          s_function('foo_obj_set_size', t_void(), [_obj(), s_param('v', t_basic('int'))]),
          s_function('foo_obj_get_size', t_basic('int'), [_obj()]),
          s_function('foo_obj_make', t_ptr(t_typedef('FooObj')), [s_param('v', t_basic('int'))]),
          s_function('foo_helper', t_void(), [_obj('obj'), s_param('v', t_basic('int'))])]
    return d + list(extra)


def _dump():
    return [FakeXml('class', {'name': 'FooObj', 'get-type': 'foo_obj_get_type', 'parents': 'GObject'},
                    [FakeXml('property', {'name': 'size', 'type': 'gint', 'flags': '3'}),
                     FakeXml('property', {'name': 'label', 'type': 'gchararray', 'flags': '3'}),
                     FakeXml('signal', {'name': 'changed', 'return': 'void', 'when': 'last'},
                             [FakeXml('param', {'type': 'gint'})]),
                     FakeXml('signal', {'name': 'moved', 'return': 'void', 'when': 'last'},
                             [FakeXml('param', {'type': 'gint'})])])]


# ------------------------------------------------------------------------------
# element paths and tree comparison

def _ident(e):
    return e.get('c:identifier') or e.get('name') or e.get('glib:name') or e.get('c:type') or ''


def _children_keyed(e):
    seen = {}
    out = []
    for c in e.children:
        k = (c.tag, _ident(c))
        i = seen.get(k, 0)
        seen[k] = i + 1
        out.append(((c.tag, _ident(c), i), c))
    return out


def diff_paths(a, b, path=()):
    """Paths (tuples of (tag, ident, index)) of elements that differ between two trees."""
    out = set()
    if a.attrs != b.attrs or a.text != b.text:
        out.add(path)
    ka = _children_keyed(a)
    kb = dict(_children_keyed(b))
    da = dict(ka)
    for k, ca in ka:
        if k not in kb:
            out.add(path + (k,))
        else:
            out |= diff_paths(ca, kb[k], path + (k,))
    for k in kb:
        if k not in da:
            out.add(path + (k,))
    if [k for k, _ in ka] != [k for k, _ in _children_keyed(b)] and set(k for k, _ in ka) == set(kb):
        out.add(path)       # same children, different order
    return out


def find_path(root, tag, ident, within=None):
    """Path of the (unique) element with this tag and identity."""
    hits = []

    def walk(e, path):
        for k, c in _children_keyed(e):
            p = path + (k,)
            if c.tag == tag and _ident(c) == ident and (within is None or within in [x[1] for x in path]):
                hits.append((p, c))
            walk(c, p)
    walk(root, ())
    return hits


# element table: block name -> list of (tag, ident, within) elements the block documents
TARGETS = {
    'foo_frob': [('function', 'foo_frob', None)],
    'foo_frob_two': [('function', 'foo_frob_two', None)],
    'FooRec': [('record', 'Rec', None)],
    'FooRecTwo': [('record', 'RecTwo', None)],
    'FooKind': [('enumeration', 'Kind', None)],
    'FooMode': [('enumeration', 'Mode', None)],
    'FOO_KIND_A': [('member', 'FOO_KIND_A', None)],
    'FOO_MODE_B': [('member', 'FOO_MODE_B', None)],
    'FooCb': [('callback', 'Cb', None)],
    'FooCbTwo': [('callback', 'CbTwo', None)],
    'FooAlias': [('alias', 'Alias', None)],
    'FooAliasTwo': [('alias', 'AliasTwo', None)],
    'FOO_LIMIT': [('constant', 'LIMIT', None)],
    'FOO_OTHER': [('constant', 'OTHER', None)],
    'FooObj': [('class', 'Obj', None)],
    'FooObjClass': [('record', 'ObjClass', None)],
    'FooObj:size': [('property', 'size', 'Obj')],
    'FooObj:label': [('property', 'label', 'Obj')],
    'FooObj::changed': [('glib:signal', 'changed', 'Obj')],
    'FooObj::moved': [('glib:signal', 'moved', 'Obj')],
    'FooRec.x': [('field', 'x', 'Rec')],
    'FooRec.n': [('field', 'n', 'Rec')],
    'FooObjClass::frob': [('virtual-method', 'frob', 'Obj')],
    'FooObjClass::twist': [('virtual-method', 'twist', 'Obj')],
    # a method's block also documents the virtual method it invokes when that has no block of its own
    'foo_obj_frob': [('method', 'foo_obj_frob', 'Obj'), ('virtual-method', 'frob', 'Obj')],
    'foo_obj_poke': [('method', 'foo_obj_poke', 'Obj')],
    # names that denote nothing (near misses): no element may change
    'FooObj::size': [],
    'FooObj:changed': [],
    'FooObjClass:frob': [],
    'FooObj::frob': [],
    'FooRec:x': [],
    'FooRec::x': [],
    'FooRecTwo.n': [],
    'foo_missing': [],
    'Foo': [],
    'FooObj.size': [],
}
BLOCK_NAMES = sorted(TARGETS)
N_BLOCKS = len(BLOCK_NAMES)

# generic metadata an identifier block can carry
META = ('doc', 'since', 'since-text', 'deprecated', 'deprecated-text', 'stability', 'attributes', 'skip')


def _meta_block(name, meta, meta2=None):
    ann = {}
    tags = {}
    desc = None
    for m in (meta, meta2):
        d = _meta_parts(m)
        ann.update(d[0])
        tags.update(d[1])
        desc = d[2] or desc
    return mk_block(name, annotations=ann, tags=tags, description=desc)


def _meta_parts(meta):
    ann = {}
    tags = {}
    desc = None
    if meta is None:
        pass
    elif meta == 'doc':
        desc = 'the documentation'
    elif meta == 'since':
        tags['since'] = ({}, '1.4', None)
    elif meta == 'since-text':
        tags['since'] = ({}, '1.4', 'since text')
    elif meta == 'deprecated':
        tags['deprecated'] = ({}, '1.6', None)
    elif meta == 'deprecated-text':
        tags['deprecated'] = ({}, '1.6', 'use something else')
    elif meta == 'stability':
        tags['stability'] = ({}, 'Unstable', None)
    elif meta == 'attributes':
        ann['attributes'] = {'my.key': 'my value'}
    elif meta == 'skip':
        ann['skip'] = []
    return ann, tags, desc


def _has_effect(e, meta):
    def child(tag):
        for c in e.children:
            if c.tag == tag:
                return c
        return None
    if meta == 'doc':
        d = child('doc')
        return d is not None and d.text == 'the documentation'
    if meta == 'since':
        return e.get('version') == '1.4'
    if meta == 'since-text':
        d = child('doc-version')
        return e.get('version') == '1.4' and d is not None and d.text == 'since text'
    if meta == 'deprecated':
        return e.get('deprecated') == '1' and e.get('deprecated-version') == '1.6'
    if meta == 'deprecated-text':
        d = child('doc-deprecated')
        return (e.get('deprecated') == '1' and e.get('deprecated-version') == '1.6' and d is not None
                and d.text == 'use something else')
    if meta == 'stability':
        return e.get('stability') == 'Unstable'
    if meta == 'attributes':
        return any(c.tag == 'attribute' and c.get('name') == 'my.key' and c.get('value') == 'my value'
                   for c in e.children)
    if meta == 'skip':
        return e.get('introspectable') == '0'
    return False


def metadata(block: int, meta: int, meta2: int = -1, two_prefixes: bool = False):
    """meta2: a second piece of metadata in the same block (-1: none).  two_prefixes: the
    namespace has identifier prefixes Foo and Fu and the class is registered under the GType
    name FuObj while its C type is FooObj (blocks are written under the C name)."""
    block = sym.pick(block, 0, N_BLOCKS - 1)
    meta = sym.pick(meta, 0, len(META) - 1)
    meta2 = sym.pick(meta2, -1, len(META) - 1)
    two_prefixes = sym.flag(two_prefixes)
    with sym.untraced():
        return _metadata(block, meta, meta2, two_prefixes)


def _dump2():
    d = _dump()
    d[0].attrib['name'] = 'FuObj'
    return d


def _metadata(block, meta, meta2=-1, two_prefixes=False):
    name = BLOCK_NAMES[block]
    m = META[meta]
    m2 = META[meta2] if meta2 >= 0 else None
    if m2 is not None and (m2 == m or m2.split('-')[0] == m.split('-')[0]):
        return True         # the same tag twice in one block is not a block the grammar allows
    pf = dict(identifier_prefixes=['Foo', 'Fu'], symbol_prefixes=['foo']) if two_prefixes else None
    dump = _dump2 if two_prefixes else _dump
    base = run_pipeline(_decls(), [], dump(), prefixes=pf)
    run = run_pipeline(_decls(), [_meta_block(name, m, m2)], dump(), prefixes=pf)
    if base.root is None or run.root is None:
        return 'pipeline stopped: %r %r' % (run.fatal, run.crashed)
    targets = TARGETS[name]
    allowed = []
    for tag, ident, within in targets:
        hits = find_path(run.root, tag, ident, within)
        if len(hits) != 1:
            return 'element <%s %s> found %d times' % (tag, ident, len(hits))
        path, el = hits[0]
        allowed.append(path)
        for mm in (m, m2):
            if mm is None or (tag == 'member' and mm == 'skip'):
                continue    # enumeration members have no introspectable flag of their own to carry (skip)
            if not _has_effect(el, mm):
                return 'block %r (%s%s): no %s effect on <%s %s>: %r' % (name, m, '+' + m2 if m2 else '', mm, tag, ident,
                                                                        el.attrs)
    diffs = diff_paths(base.root, run.root)
    if 'skip' in (m, m2):
        # skipping a type may legitimately ripple to its users; only the pairs are compared
        for tag, ident, within in targets:
            other = [t for n2, ts in TARGETS.items() for t in ts if t[0] == tag and t != (tag, ident, within)]
            for (t2, i2, w2) in other:
                for p, el in find_path(run.root, t2, i2, w2):
                    bel = find_path(base.root, t2, i2, w2)
                    if el.get('introspectable') == '0' and bel and bel[0][1].get('introspectable') != '0' \
                            and (t2, i2, w2) not in targets:
                        return 'block %r (skip) also made <%s %s> non-introspectable' % (name, t2, i2)
        return True
    for d in diffs:
        if not any(d[:len(a)] == a for a in allowed):
            return 'block %r (%s) changed an element it does not document: %r' % (name, m, d[-2:])
    return True


# ------------------------------------------------------------------------------
# role / link annotations: appear on the named element with the given target, siblings untouched

ROLE_CASES = (
    # (block name, annotations, element that must carry it, attribute, expected value, sibling that must not)
    ('foo_obj_make', {'constructor': []}, ('constructor', 'foo_obj_make', 'Obj'), None, None, None),
    ('foo_helper', {'method': []}, ('method', 'foo_helper', 'Obj'), None, None, None),
    ('FOO_LIMIT', {'value': ['42']}, ('constant', 'LIMIT', None), 'value', '42', ('constant', 'OTHER', None)),
    ('foo_frob_two', {'rename-to': ['foo_frob']}, ('function', 'foo_frob_two', None), 'shadows', 'frob', None),
    ('foo_obj_poke', {'set-property': ['label']}, ('method', 'foo_obj_poke', 'Obj'), 'glib:set-property', 'label',
     ('method', 'foo_obj_frob', 'Obj')),
    ('foo_obj_poke', {'get-property': ['label']}, ('method', 'foo_obj_poke', 'Obj'), 'glib:get-property', 'label',
     ('method', 'foo_obj_frob', 'Obj')),
    ('foo_frob', {'finish-func': ['frob_two']}, ('function', 'foo_frob', None), 'glib:finish-func', 'frob_two',
     ('function', 'foo_frob_two', None)),
    ('foo_frob', {'sync-func': ['frob_two']}, ('function', 'foo_frob', None), 'glib:sync-func', 'frob_two',
     ('function', 'foo_frob_two', None)),
    ('foo_frob', {'async-func': ['frob_two']}, ('function', 'foo_frob', None), 'glib:async-func', 'frob_two',
     ('function', 'foo_frob_two', None)),
    ('FooObj::changed', {'emitter': ['frob']}, ('glib:signal', 'changed', 'Obj'), 'emitter', 'frob',
     ('glib:signal', 'moved', 'Obj')),
    ('foo_obj_poke', {'virtual': ['twist']}, ('virtual-method', 'twist', 'Obj'), 'invoker', 'poke', None),
    ('FooRec', {'copy-func': ['foo_rec_copy']}, ('record', 'Rec', None), 'copy-function', 'foo_rec_copy',
     ('record', 'RecTwo', None)),
    ('FooRec', {'free-func': ['foo_rec_free']}, ('record', 'Rec', None), 'free-function', 'foo_rec_free',
     ('record', 'RecTwo', None)),
    ('FooRec', {'foreign': []}, ('record', 'Rec', None), 'foreign', '1', ('record', 'RecTwo', None)),
    ('FooObj', {'ref-func': ['foo_obj_ref']}, ('class', 'Obj', None), 'glib:ref-func', 'foo_obj_ref', None),
    ('FooObj', {'unref-func': ['foo_obj_unref']}, ('class', 'Obj', None), 'glib:unref-func', 'foo_obj_unref', None),
    ('FooObj', {'set-value-func': ['foo_value_set']}, ('class', 'Obj', None), 'glib:set-value-func', 'foo_value_set', None),
    ('FooObj', {'get-value-func': ['foo_value_get']}, ('class', 'Obj', None), 'glib:get-value-func', 'foo_value_get', None),
    ('FooObj:size', {'setter': ['poke']}, ('property', 'size', 'Obj'), 'setter', 'poke', ('property', 'label', 'Obj')),
    ('FooObj:size', {'getter': ['poke']}, ('property', 'size', 'Obj'), 'getter', 'poke', ('property', 'label', 'Obj')),
    ('FooObj:size', {'default-value': ['12']}, ('property', 'size', 'Obj'), 'default-value', '12',
     ('property', 'label', 'Obj')),
    ('FooObj:label', {'transfer': ['full']}, ('property', 'label', 'Obj'), 'transfer-ownership', 'full',
     ('property', 'size', 'Obj')),
    ('FooObj:label', {'transfer': ['floating']}, ('property', 'label', 'Obj'), 'transfer-ownership', 'none', None),
)
N_ROLES = len(ROLE_CASES)
WRONG_NAMES = (None, 'near-miss')


def roles(case: int, misplaced: bool):
    case = sym.pick(case, 0, N_ROLES - 1)
    misplaced = sym.flag(misplaced)
    with sym.untraced():
        return _roles(case, misplaced)


def _near_miss(name):
    """The same annotation written under a name that denotes another kind of thing."""
    if '::' in name:
        return name.replace('::', ':')
    if ':' in name:
        return name.replace(':', '::')
    return name + '_nope'


def _roles(case, misplaced):
    name, ann, (tag, ident, within), attr, value, sibling = ROLE_CASES[case]
    bname = _near_miss(name) if misplaced else name
    base = run_pipeline(_decls(), [], _dump())
    run = run_pipeline(_decls(), [mk_block(bname, annotations=ann)], _dump())
    if base.root is None or run.root is None:
        return 'pipeline stopped: %r %r' % (run.fatal, run.crashed)
    if misplaced:
        diffs = diff_paths(base.root, run.root)
        if diffs:
            return 'block %r (denotes nothing) changed %r' % (bname, sorted(diffs)[0][-2:])
        return True
    hits = find_path(run.root, tag, ident, within)
    if len(hits) != 1:
        return 'block %r %r: <%s %s> found %d times' % (name, ann, tag, ident, len(hits))
    el = hits[0][1]
    if attr is not None and el.get(attr) != value:
        return 'block %r %r: <%s %s> has %s=%r, expected %r' % (name, ann, tag, ident, attr, el.get(attr), value)
    if 'rename-to' in ann:
        tgt = find_path(run.root, 'function', 'foo_frob', None)
        if len(tgt) != 1 or tgt[0][1].get('shadowed-by') != 'frob_two':
            return 'rename-to: target lacks the matching shadowed-by'
    if sibling is not None and attr is not None:
        sh = find_path(run.root, *sibling)
        bh = find_path(base.root, *sibling)
        if len(sh) == 1 and len(bh) == 1 and sh[0][1].get(attr) != bh[0][1].get(attr):
            return 'block %r %r also changed %s of <%s %s>' % (name, ann, attr, sibling[0], sibling[1])
    return True


# ------------------------------------------------------------------------------
# rename-to among three functions: shadows / shadowed-by must form mutually consistent pairs

def rename_chains(r1: int, r2: int, r3: int, order: int):
    """foo_a, foo_b, foo_c each optionally carry (rename-to X), X in {foo_a, foo_b, foo_c, foo_missing};
    the functions are declared in one of six orders."""
    r1 = sym.pick(r1, 0, 4)
    r2 = sym.pick(r2, 0, 4)
    r3 = sym.pick(r3, 0, 4)
    order = sym.pick(order, 0, 5)
    with sym.untraced():
        import itertools
        import spec_closure
        names = ('foo_a', 'foo_b', 'foo_c')
        targets = (None, 'foo_a', 'foo_b', 'foo_c', 'foo_missing')
        perm = list(itertools.permutations(range(3)))[order]
        decls = [s_typedef('FooRec', t_struct('_FooRec')), s_struct('_FooRec', [s_member('x', t_basic('int'))])]
        for i in perm:
            decls.append(s_function(names[i], t_void(), [s_param('x', t_basic('int'))]))
        blocks = []
        for n, r in zip(names, (r1, r2, r3)):
            if targets[r]:
                blocks.append(mk_block(n, annotations={'rename-to': [targets[r]]}))
        o = run_pipeline(decls, blocks, None)
        if o.root is None:
            return True
        errs = []
        ns = [e for e in o.root.iter() if e.tag == 'namespace'][0]
        spec_closure._check_function_links(None, ns, 'namespace', errs)
        # every accepted pair must come from an annotation
        for f in ns.children:
            if f.tag == 'function' and f.get('shadows'):
                src = 'foo_' + f.get('name')
                want = dict(zip(names, (r1, r2, r3)))[src]
                if targets[want] != 'foo_' + f.get('shadows'):
                    errs.append('%s shadows %s without such an annotation' % (src, f.get('shadows')))
        if errs:
            return 'rename-to: ' + '; '.join(errs[:3])
        return True
