"""C07 harnesses: GIR files survive a read/write cycle unchanged.

Real code executed: every GIRWriter._write_* reached by the scenario, XMLWriter,
GIRParser.parse_tree and every _parse_* it reaches, then GIRWriter again.  The
namespace models are produced by the real scanner pipeline (Transformer,
GDumpParser, MainTransformer, IntrospectablePass) from the scenario families of
C01/C05/C12 plus a documentation/metadata family.
Oracle: bytes(write(read(write(model)))) == bytes(write(model)), and the second
cycle is again a fixed point.
"""
import io
import xml.etree.ElementTree as ET

import pipe
from pipe import (build_callable, run_pipeline, value_annotations, T_VARARGS, N_TYPES, USER_TYPES,
                  mk_block, type_tags)
from vlib import sym
from vlib.gistub import (FakeXml, s_typedef, s_struct, s_union, s_member, s_function, s_param, s_enum,
                         s_enum_member, s_const, t_struct, t_union, t_typedef, t_ptr, t_basic, t_void,
                         t_func, t_array, girwriter, ast, message)
from giscanner import girparser


def cycle(namespace):
    """Returns None when the cycle is a fixed point, else a description."""
    xml1 = girwriter.GIRWriter(namespace).get_encoded_xml()
    try:
        p = girparser.GIRParser()
        p.parse_tree(ET.parse(io.BytesIO(xml1)))
        ns2 = p.get_namespace()
        xml2 = girwriter.GIRWriter(ns2).get_encoded_xml()
    except Exception as e:
        return 'reading back what was written failed: %s: %s' % (type(e).__name__, e)
    if xml1 != xml2:
        return _first_difference(xml1, xml2)
    d = model_difference(namespace, ns2)
    if d is not None:
        return 'model read back differs: ' + d[:400]
    try:
        p = girparser.GIRParser()
        p.parse_tree(ET.parse(io.BytesIO(xml2)))
        xml3 = girwriter.GIRWriter(p.get_namespace()).get_encoded_xml()
    except Exception as e:
        return 'second cycle failed: %s: %s' % (type(e).__name__, e)
    if xml3 != xml2:
        return 'second cycle: ' + _first_difference(xml2, xml3)
    return None


# ------------------------------------------------------------------------------
# model comparison: what was written vs what was read back, on API-relevant properties

def _tkey(t):
    if t is None:
        return None
    if not t.resolved and not isinstance(t, (ast.Array, ast.List, ast.Map)):
        return ('unresolved',)      # written without a name; the reader's TypeUnknown
    k = [type(t).__name__, t.target_fundamental, t.target_giname, bool(t.target_foreign)]
    if isinstance(t, ast.Array):
        k += [t.array_type, t.zeroterminated, t.size, t.length_param_name, _tkey(t.element_type)]
    elif isinstance(t, ast.List):
        k += [t.name, _tkey(t.element_type)]
    elif isinstance(t, ast.Map):
        k += [_tkey(t.key_type), _tkey(t.value_type)]
    return tuple(k)


def _vkey(v):
    return (getattr(v, 'argname', None), _tkey(v.type),
            (v.direction or 'in') if isinstance(v, ast.Parameter) else None, v.transfer, bool(v.nullable),
            bool(getattr(v, 'optional', False)),
            bool(v.skip), getattr(v, 'scope', None), getattr(v, 'closure_name', None), getattr(v, 'destroy_name', None),
            bool(getattr(v, 'caller_allocates', False)), v.doc, tuple(sorted(v.attributes.items())))


def _gkey(n):
    return (n.version, n.deprecated, n.deprecated_doc, n.stability, n.doc,
            bool(n.skip) or not n.introspectable,       # one attribute in the file: introspectable="0"
            tuple(sorted(n.attributes.items())))


def _ckey(c):
    return ('Function' if isinstance(c, ast.Function) else type(c).__name__, c.name, getattr(c, 'symbol', None),
            bool(c.throws), _vkey(c.retval),
            tuple(_vkey(p) for p in c.parameters),
            _vkey(c.instance_parameter) if c.instance_parameter is not None else None,
            getattr(c, 'shadows', None), getattr(c, 'shadowed_by', None), getattr(c, 'moved_to', None),
            getattr(c, 'invoker', None), c.finish_func, c.sync_func, c.async_func) + _gkey(c)


def _fkey(f):
    if f.anonymous_node is not None:
        an = f.anonymous_node
        return (f.name, 'anon', _ckey(an) if isinstance(an, ast.Callable) else _nkey(an))
    return (f.name, _tkey(f.type), bool(f.readable), bool(f.writable), str(f.bits) if f.bits else None, bool(f.private)) + _gkey(f)


def _nkey(n):
    k = [type(n).__name__, n.name] + list(_gkey(n))
    if isinstance(n, ast.Callable):
        return _ckey(n)
    if isinstance(n, ast.Alias):
        k += [n.ctype, _tkey(n.target)]
    if isinstance(n, ast.Constant):
        k += [n.ctype, n.value, _tkey(n.value_type)]
    if isinstance(n, (ast.Enum, ast.Bitfield)):
        k += [n.ctype, n.gtype_name, n.get_type, getattr(n, 'error_domain', None),
              tuple((m.name, str(m.value), m.symbol, m.nick) + _gkey(m) for m in n.members),
              tuple(sorted(_ckey(f) for f in n.static_methods))]
    if isinstance(n, ast.Compound):
        k += [n.ctype, n.gtype_name, n.get_type, n.c_symbol_prefix, tuple(_fkey(f) for f in n.fields),
              tuple(sorted(_ckey(f) for f in n.methods)), tuple(sorted(_ckey(f) for f in n.constructors)),
              tuple(sorted(_ckey(f) for f in n.static_methods))]
    if isinstance(n, ast.Record):
        k += [_tkey(n.is_gtype_struct_for), bool(n.foreign), bool(n.disguised), bool(n.opaque), n.copy_func, n.free_func]
    if isinstance(n, (ast.Class, ast.Interface)):
        k += [n.ctype, n.gtype_name, n.get_type, n.c_symbol_prefix, _tkey(n.glib_type_struct),
              tuple(_fkey(f) for f in n.fields),
              tuple(sorted(_ckey(f) for f in n.methods)), tuple(sorted(_ckey(f) for f in n.virtual_methods)),
              tuple(sorted(_ckey(f) for f in n.static_methods)),
              tuple(sorted((p.name, _tkey(p.type), bool(p.readable), bool(p.writable), bool(p.construct),
                            bool(p.construct_only), p.transfer, p.setter, p.getter, p.default_value) + _gkey(p)
                           for p in n.properties)),
              tuple(sorted((sg.name, sg.when, bool(sg.no_recurse), bool(sg.detailed), bool(sg.action), bool(sg.no_hooks),
                            sg.emitter, _vkey(sg.retval), tuple(_vkey(p) for p in sg.parameters)) + _gkey(sg)
                           for sg in n.signals))]
    if isinstance(n, ast.Class):
        k += [_tkey(n.parent_type), tuple(sorted(_tkey(i) for i in n.interfaces)), bool(n.is_abstract), bool(n.is_final),
              tuple(sorted(_ckey(f) for f in n.constructors)), n.ref_func, n.unref_func, n.set_value_func, n.get_value_func]
    if isinstance(n, ast.Interface):
        k += [tuple(sorted(_tkey(i) for i in n.prerequisites))]
    return tuple(k)


def model_difference(ns1, ns2):
    """First API-relevant difference between the written and the read-back model, or None."""
    if (ns1.name, ns1.version) != (ns2.name, ns2.version):
        return 'namespace name/version'
    n1 = dict((n, v) for n, v in ns1.names.items())
    n2 = dict((n, v) for n, v in ns2.names.items())
    # nodes the writer leaves out (internal_skipped compatibility copies) are not part of the file
    n1 = dict((k, v) for k, v in n1.items() if not getattr(v, 'internal_skipped', False))
    if sorted(n1) != sorted(n2):
        return 'node names differ: %r' % (sorted(set(n1) ^ set(n2)),)
    for name in sorted(n1):
        try:
            a, b = _nkey(n1[name]), _nkey(n2[name])
        except Exception as e:
            return 'cannot compare %s: %s: %s' % (name, type(e).__name__, e)
        if a != b:
            return 'node %s: written %r, read back %r' % (name, _firstdiff(a, b)[0], _firstdiff(a, b)[1])
    return None


def _firstdiff(a, b):
    if isinstance(a, tuple) and isinstance(b, tuple) and len(a) == len(b):
        for x, y in zip(a, b):
            if x != y:
                return _firstdiff(x, y)
    return (a, b)


def _first_difference(a, b):
    la = a.decode('utf-8').split('\n')
    lb = b.decode('utf-8').split('\n')
    for i in range(max(len(la), len(lb))):
        x = la[i] if i < len(la) else '<missing>'
        y = lb[i] if i < len(lb) else '<missing>'
        if x != y:
            return 'line %d written %r, after the cycle %r' % (i + 1, x.strip()[:160], y.strip()[:160])
    return 'differs'


def _verdict(o):
    if o.root is None:
        return True         # fatal diagnostic / crash: no GIR exists
    d = cycle(o.sc.namespace)
    return True if d is None else 'C07 violated: ' + d


def _params(pos, tkind, sib):
    if pos == 0:
        return list(sib), tkind, 'returns'
    if pos == 1:
        return [(pipe.SUBJECT, tkind)] + list(sib), None, pipe.SUBJECT
    return list(sib) + [(pipe.SUBJECT, tkind)], None, pipe.SUBJECT


# ------------------------------------------------------------------------------

def values(ckind: int, pos: int, tkind: int, transfer: int, direction: int, nullable: bool, optional: bool,
           not_nullable: bool, skip: bool, skip_callable: bool):
    ckind = sym.pick(ckind, 0, 4)
    pos = sym.pick(pos, 0, 2)
    tkind = sym.pick(tkind, 0, N_TYPES)
    transfer = sym.pick(transfer, 0, 4)
    direction = sym.pick(direction, 0, 5)
    nullable = sym.flag(nullable)
    optional = sym.flag(optional)
    not_nullable = sym.flag(not_nullable)
    skip = sym.flag(skip)
    skip_callable = sym.flag(skip_callable)
    with sym.untraced():
        if tkind == T_VARARGS and pos != 2:
            return True
        params, ret, key = _params(pos, tkind, [('n', 0)])
        if tkind == T_VARARGS:
            key = '...'
        ann = value_annotations(transfer=transfer, direction=direction if pos else 0, nullable=nullable,
                                optional=optional, not_nullable=not_nullable, skip=skip)
        decls, blocks, dump, loc = build_callable(ckind, params, ret, {key: ann},
                                                  callable_anns={'skip': []} if skip_callable else None)
        return _verdict(run_pipeline(decls, blocks, dump))


ZT = (None, ('zero-terminated', None), ('zero-terminated', '0'), ('zero-terminated', '1'))


def arrays(ckind: int, pos: int, tkind: int, direction: int, length: int, fixed: int, zt: int, elt: int,
           elt2: int, type_override: int):
    ckind = sym.pick(ckind, 0, 4)
    pos = sym.pick(pos, 0, 2)
    tkind = sym.pick(tkind, 0, N_TYPES - 1)
    direction = sym.pick(direction, 0, 5)
    length = sym.pick(length, 0, 2)
    fixed = sym.pick(fixed, 0, 2)
    zt = sym.pick(zt, 0, 4)
    elt = sym.pick(elt, 0, len(USER_TYPES) - 1)
    elt2 = sym.pick(elt2, 0, len(USER_TYPES) - 1)
    type_override = sym.pick(type_override, 0, len(USER_TYPES) - 1)
    with sym.untraced():
        params, ret, key = _params(pos, tkind, [('n', 0), ('m', 0)])
        arr = None
        if zt < 4:
            arr = {}
            if length:
                arr['length'] = ('n', 'm')[length - 1]
            if fixed:
                arr['fixed-size'] = ('4', '0')[fixed - 1]
            if ZT[zt] is not None:
                arr[ZT[zt][0]] = ZT[zt][1]
        et = None
        if USER_TYPES[elt] is not None:
            et = [USER_TYPES[elt]]
            if USER_TYPES[elt2] is not None:
                et.append(USER_TYPES[elt2])
        ann = value_annotations(direction=direction if pos else 0, array=arr, element_type=et,
                                type_override=type_override)
        decls, blocks, dump, loc = build_callable(ckind, params, ret, {key: ann})
        return _verdict(run_pipeline(decls, blocks, dump))


REFS = (None, 'data', 'other', 'notify', 'n', 'missing')


def callbacks(ckind: int, tkind: int, scope: int, closure: int, destroy: int, order: int):
    ckind = sym.pick(ckind, 0, 4)
    tkind = sym.pick(tkind, 0, N_TYPES - 1)
    scope = sym.pick(scope, 0, 4)
    closure = sym.pick(closure, 0, 5)
    destroy = sym.pick(destroy, 0, 5)
    order = sym.pick(order, 0, 2)
    with sym.untraced():
        sib = [('n', 0), ('other', 9), ('data', 9), ('notify', 16)]
        subj = [(pipe.SUBJECT, tkind)]
        params = subj + sib if order == 0 else sib + subj if order == 1 else sib[:1] + subj + sib[1:]
        ann = value_annotations(scope=scope, closure=REFS[closure], destroy=REFS[destroy])
        decls, blocks, dump, loc = build_callable(ckind, params, None, {pipe.SUBJECT: ann})
        return _verdict(run_pipeline(decls, blocks, dump))


# ------------------------------------------------------------------------------
# documentation and metadata on every element kind

TEXTS = (None, 'plain text', 'a < b & "c" \'d\' > e', 'line one\nline two\n\n  indented', 'tab\there',
         'café ☃ \U0001f600', ' leading and trailing ')
VERSIONS = (None, '1.2', '0.10')
STAB = (None, 'Stable', 'Unstable', 'Private')
TARGETS = ('function', 'callback', 'record', 'enum', 'constant', 'alias', 'class', 'property', 'signal', 'field',
           'vfunc', 'member', 'bitfield', 'union', 'method', 'parameter')


def metadata(target: int, doc: int, since: int, since_doc: int, deprecated: int, dep_doc: int, stability: int,
             attrs: int, skip: bool):
    target = sym.pick(target, 0, len(TARGETS) - 1)
    doc = sym.pick(doc, 0, len(TEXTS) - 1)
    since = sym.pick(since, 0, 2)
    since_doc = sym.pick(since_doc, 0, len(TEXTS) - 1)
    deprecated = sym.pick(deprecated, 0, 2)
    dep_doc = sym.pick(dep_doc, 0, len(TEXTS) - 1)
    stability = sym.pick(stability, 0, 3)
    attrs = sym.pick(attrs, 0, 3)
    skip = sym.flag(skip)
    with sym.untraced():
        return _metadata(target, doc, since, since_doc, deprecated, dep_doc, stability, attrs, skip)


def _rich_decls():
    slot = s_member('frob', t_ptr(t_func(t_void(), [s_param('self', t_ptr(t_typedef('FooObj'))),
                                                    s_param('v', t_basic('int'))])))
    d = pipe.fixed_decls(vfunc_slot=slot,
                         rec_extra_fields=[s_member('cb', t_ptr(t_func(t_void(), [s_param('v', t_basic('int'))]))),
                                           s_member('bits', t_basic('unsigned int'), bits=3),
                                           s_member('arr', t_array(t_basic('int'), 4)),
                                           s_member('tail', t_array(t_basic('char'), 0)),
                                           s_member('priv', t_basic('int'), private=True)])
    d += [s_function('foo_frob', t_basic('int'), [s_param('a', t_basic('int'))]),
          s_function('foo_obj_poke', t_void(), [s_param('self', t_ptr(t_typedef('FooObj'))), s_param('v', t_basic('int'))]),
          s_function('foo_obj_new', t_ptr(t_typedef('FooObj')), []),
          s_function('foo_obj_frob', t_void(), [s_param('self', t_ptr(t_typedef('FooObj'))), s_param('v', t_basic('int'))]),
          s_function('foo_obj_get_size', t_basic('int'), [s_param('self', t_ptr(t_typedef('FooObj')))]),
          s_function('foo_inline_it', t_void(), [], inline=True),
          s_const('FOO_LIMIT', const_int=7), s_const('FOO_NAME', const_string='a "name" <&>'),
          s_const('FOO_RATIO', const_double=0.5), s_const('FOO_ON', const_boolean=True),
          s_enum('FooFlags', [s_enum_member('FOO_FLAGS_A', 1), s_enum_member('FOO_FLAGS_B', 2)], is_bitfield=True),
          s_typedef('FooUni', t_union('_FooUni')),
          s_union('_FooUni', [s_member('i', t_basic('int')), s_member('p', t_typedef('gpointer')),
                              s_member('inner', t_struct(None, [s_member('q', t_basic('int'))]))]),
          s_function('foo_some_error_quark', t_typedef('GQuark'), []),
          s_enum('FooSomeError', [s_enum_member('FOO_SOME_ERROR_A', 0), s_enum_member('FOO_SOME_ERROR_B', 1)])]
    return d


def _rich_dump():
    prop = FakeXml('property', {'name': 'size', 'type': 'gint', 'flags': '7', 'default-value': '3'})
    prop2 = FakeXml('property', {'name': 'label', 'type': 'gchararray', 'flags': '9'})
    sig = FakeXml('signal', {'name': 'changed', 'return': 'gboolean', 'when': 'last', 'detailed': '1', 'action': '1'},
                  [FakeXml('param', {'type': 'gint'}), FakeXml('param', {'type': 'FooObj'})])
    nodes = pipe.fixed_dump(properties=[prop, prop2], signals=[sig])
    nodes.append(FakeXml('error-quark', {'function': 'foo_some_error_quark', 'domain': 'foo-some-error'}))
    return nodes


BLOCK_NAME = {'function': 'foo_frob', 'callback': 'FooCb', 'record': 'FooRec', 'enum': 'FooKind', 'constant': 'FOO_LIMIT',
              'alias': 'FooAlias', 'class': 'FooObj', 'property': 'FooObj:size', 'signal': 'FooObj::changed',
              'field': 'FooRec.x', 'vfunc': 'FooObjClass::frob', 'member': 'FOO_KIND_A', 'bitfield': 'FooFlags',
              'union': 'FooUni', 'method': 'foo_obj_poke', 'parameter': 'foo_frob'}


def _metadata(target, doc, since, since_doc, deprecated, dep_doc, stability, attrs, skip):
    tg = TARGETS[target]
    ann = {}
    if attrs == 1:
        ann['attributes'] = {'my.key': 'v'}
    elif attrs == 2:
        ann['attributes'] = {'k1': 'a < b', 'k2': 'x "y"'}
    elif attrs == 3:
        ann['attributes'] = {'novalue': None}
    if skip:
        ann['skip'] = []
    tags = {}
    if VERSIONS[since] or TEXTS[since_doc]:
        tags['since'] = ({}, VERSIONS[since], TEXTS[since_doc])
    if VERSIONS[deprecated] or TEXTS[dep_doc]:
        tags['deprecated'] = ({}, VERSIONS[deprecated], TEXTS[dep_doc])
    if STAB[stability]:
        tags['stability'] = ({}, STAB[stability], None)
    params = None
    if tg == 'parameter':
        params = {'a': ({'attributes': ann.get('attributes') or {'p': 'q'}}, TEXTS[doc])}
        tags['returns'] = ({}, None, TEXTS[since_doc])
        blk = mk_block(BLOCK_NAME[tg], params=params, tags=tags, description=TEXTS[dep_doc])
    elif tg == 'signal':
        params = {'object': ({}, 'the object'), 'count': ({}, TEXTS[doc]), 'who': ({}, None)}
        blk = mk_block(BLOCK_NAME[tg], annotations=ann, params=params, tags=tags, description=TEXTS[doc])
    else:
        blk = mk_block(BLOCK_NAME[tg], annotations=ann, tags=tags, description=TEXTS[doc])
    blocks = [blk]
    if tg == 'record':
        blocks.append(mk_block('SECTION:foorec', description=TEXTS[doc] or 'section text'))
        blocks.append(mk_block('SECTION:standalone', description='a standalone section'))
    o = run_pipeline(_rich_decls(), blocks, _rich_dump())
    return _verdict(o)


# ------------------------------------------------------------------------------
# class members from the dump, accessors, async functions, shadows

GTYPES = ('gint', 'gchararray', 'GStrv', 'GObject', 'FooObj', 'FooBoxed', 'FooHidden', 'GHashTable', 'gpointer',
          'FooKind', 'GArray', 'GByteArray', 'GType')


def classes(ptype: int, pflags: int, sret: int, sparam: int, when: int, sflags: int, variant: int):
    ptype = sym.pick(ptype, 0, len(GTYPES) - 1)
    pflags = sym.pick(pflags, 0, 15)
    sret = sym.pick(sret, 0, len(GTYPES))
    sparam = sym.pick(sparam, 0, len(GTYPES) - 1)
    when = sym.pick(when, 0, 3)
    sflags = sym.pick(sflags, 0, 15)
    variant = sym.pick(variant, 0, 5)
    with sym.untraced():
        return _classes(ptype, pflags, sret, sparam, when, sflags, variant)


def _classes(ptype, pflags, sret, sparam, when, sflags, variant):
    attrib = {'name': 'the-prop', 'type': GTYPES[ptype], 'flags': str(pflags)}
    prop = FakeXml('property', attrib)
    sattr = {'name': 'it-happened', 'return': 'void' if sret == len(GTYPES) else GTYPES[sret]}
    w = (None, 'first', 'last', 'cleanup')[when]
    if w:
        sattr['when'] = w
    for bit, k in enumerate(('no-recurse', 'detailed', 'action', 'no-hooks')):
        if sflags & (1 << bit):
            sattr[k] = '1'
    sig = FakeXml('signal', sattr, [FakeXml('param', {'type': GTYPES[sparam]})])
    decls = _rich_decls()
    blocks = []
    dump = pipe.fixed_dump(properties=[prop], signals=[sig])
    if variant == 1:
        # accessors + set-/get-property annotations
        decls += [s_function('foo_obj_set_the_prop', t_void(), [s_param('self', t_ptr(t_typedef('FooObj'))),
                                                                s_param('v', t_basic('int'))]),
                  s_function('foo_obj_get_the_prop', t_basic('int'), [s_param('self', t_ptr(t_typedef('FooObj')))])]
    elif variant == 2:
        # async / finish / sync triple
        decls += [s_function('foo_obj_load_async', t_void(), [s_param('self', t_ptr(t_typedef('FooObj'))),
                                                              s_param('cb', t_typedef('GAsyncReadyCallback')),
                                                              s_param('user_data', t_typedef('gpointer'))]),
                  s_function('foo_obj_load_finish', t_basic('int'), [s_param('self', t_ptr(t_typedef('FooObj'))),
                                                                     s_param('res', t_ptr(t_typedef('GAsyncResult'))),
                                                                     s_param('error', t_ptr(t_ptr(t_typedef('GError'))))]),
                  s_function('foo_obj_load', t_basic('int'), [s_param('self', t_ptr(t_typedef('FooObj'))),
                                                              s_param('error', t_ptr(t_ptr(t_typedef('GError'))))])]
    elif variant == 3:
        blocks.append(mk_block('foo_obj_frob', annotations={'rename-to': ['foo_obj_poke']}))
        blocks.append(mk_block('FooObj::it-happened', annotations={'emitter': ['poke']}))
    elif variant == 4:
        blocks.append(mk_block('FooObj', annotations={'ref-func': ['foo_obj_ref'], 'unref-func': ['foo_obj_unref'],
                                                      'set-value-func': ['foo_value_set_obj'],
                                                      'get-value-func': ['foo_value_get_obj']}))
        blocks.append(mk_block('FooRec', annotations={'copy-func': ['foo_rec_copy'], 'free-func': ['foo_rec_free'],
                                                      'foreign': []}))
    elif variant == 5:
        blocks.append(mk_block('foo_obj_frob', annotations={'virtual': ['frob']}))
        blocks.append(mk_block('FooObj:the-prop', annotations={'setter': ['poke'], 'getter': ['get_size'],
                                                              'default-value': ['a "b"'], 'transfer': ['full']}))
    return _verdict(run_pipeline(decls, blocks, dump))
