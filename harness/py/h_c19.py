"""C19 harnesses (CH part): the matching loop of resolve_from_ldd_output with
the regular expression abstracted to a symbolic boolean matrix, and the
libtool path.  The pattern language itself is decided by z3 (checks/c19.py).
"""
import os
import sys

REPO = os.environ.get('GI_VERIF_REPO', '/repo')
if REPO not in sys.path:
    sys.path.insert(0, REPO)

from giscanner import shlibs  # noqa: E402

LIBS = ['alpha', 'beta', 'gamma']


class _M(object):
    def __init__(self, word):
        self.word = word

    def group(self, *a):
        return self.word


class _Pat(object):
    def __init__(self, row):
        self.row = row        # {word: bool}

    def match(self, word):
        return _M(word) if self.row.get(word, False) else None


def spec_resolve(libs, isfile, lines, matrix):
    """Property text: each requested (non-file) library resolves to the first listed
    file (line order, then word order) that matches it, header lines ignored; error
    naming exactly the unresolved ones.  Assumes no word matches two requests."""
    pending = [l for l in libs if not isfile[l]]
    if not pending:
        return ('ok', [])
    out = []
    for words, header in lines:
        if header:
            continue
        for w in words:
            for l in list(pending):
                if matrix[l].get(w, False):
                    pending.remove(l)
                    out.append(w)
                    break
    if pending:
        return ('error', pending)
    return ('ok', out)


def ldd_loop(nlibs: int, nlines: int,
             f0: bool, f1: bool, f2: bool,
             h0: bool, h1: bool, h2: bool, h3: bool,
             two0: bool, two1: bool, two2: bool, two3: bool,
             k0: int, k1: int, k2: int, k3: int, k4: int, k5: int, k6: int, k7: int):
    """k_j = index of the (only) requested library that listed word j satisfies, -1 for none:
    the quantifier's assumption "no listed file satisfies two requests" by construction."""
    libs = LIBS[:nlibs]
    isfile = dict(zip(LIBS, [f0, f1, f2]))
    hdr = [h0, h1, h2, h3][:nlines]
    two = [two0, two1, two2, two3][:nlines]
    ks = [k0, k1, k2, k3, k4, k5, k6, k7]
    lines = []
    text_lines = []
    matrix = dict((l, {}) for l in libs)
    for i in range(nlines):
        ws = ['/p/w%d' % (2 * i)]
        if two[i]:
            ws.append('/p/w%d' % (2 * i + 1))
        if hdr[i]:
            ws[-1] = ws[-1] + ':'
        for j, w in enumerate(ws):
            for li, l in enumerate(libs):
                matrix[l][w] = (ks[2 * i + j] == li)
        lines.append((ws, hdr[i]))
        text_lines.append(('\t' + ' => '.join(ws)) if not hdr[i] else ' '.join(ws))
    output = '\n'.join(text_lines) + '\n'
    real_pattern = shlibs._ldd_library_pattern
    real_isfile = shlibs.os.path.isfile
    shlibs._ldd_library_pattern = lambda name: _Pat(matrix[name])

    class _OsPath(object):
        def __getattr__(self, k):
            return getattr(os.path, k)

        @staticmethod
        def isfile(p):
            return isfile[p]

    class _Os(object):
        path = _OsPath()

        def __getattr__(self, k):
            return getattr(os, k)
    real_os = shlibs.os
    shlibs.os = _Os()
    try:
        try:
            got = ('ok', shlibs.resolve_from_ldd_output(libs, output))
        except SystemExit as e:
            got = ('error', str(e))
    finally:
        shlibs._ldd_library_pattern = real_pattern
        shlibs.os = real_os
    want = spec_resolve(libs, isfile, lines, matrix)
    if want[0] == 'ok':
        if got != want:
            return 'resolved %r, expected %r (output %r)' % (got, want, output)
        return True
    if got[0] != 'error':
        return 'unresolved %r but no error; returned %r' % (want[1], got[1])
    msg = got[1]
    for l in libs:
        named = l in msg
        if named != (l in want[1]):
            return 'error message %r should name exactly %r' % (msg, want[1])
    return True


def sanitize(kind: int, platform_darwin: bool):
    """sanitize_shlib_path reports by base name (absolute paths kept on macOS only)."""
    paths = ['/usr/lib/libfoo.so.1', 'libfoo.so.1', '@rpath/libfoo.dylib', '/a/b/../libfoo.so', './libfoo.so']
    p = paths[kind]
    real = shlibs.sys.platform

    class _Sys(object):
        platform = 'darwin' if platform_darwin else 'linux'
    real_sys = shlibs.sys
    shlibs.sys = _Sys()
    try:
        got = shlibs.sanitize_shlib_path(p)
    finally:
        shlibs.sys = real_sys
    base = p.rsplit('/', 1)[-1]
    if platform_darwin and p.startswith('/'):
        return True if got == p else 'darwin absolute path changed: %r' % (got,)
    return True if got == base else 'not reported by base name: %r -> %r' % (p, got)
