"""C02 harnesses: un-annotated APIs get the documented defaults.

Real code executed: Transformer.parse/_create_function/_create_parameter/
_create_return/_create_member/_create_type_from_base/_create_source_type/
_create_complete_source_type/_canonicalize_ctype/create_type_from_ctype_string/
_create_bare_container_type/_create_callback, MainTransformer.transform
(_pass_callable_defaults, _get_transfer_default*, _apply_annotations_param_ret_common,
_pass3_callable_callbacks, _pass3_callable_throws), GIRWriter.
Oracle: written from the property statement (table below is independent of
ast.type_names; a spelling the scanner knows but the table lacks is reported).
"""
import pipe
from pipe import (run_pipeline, find_callable, build_callable, value_annotations, mk_block)
from vlib import sym
from vlib.gistub import (ast, t_basic, t_typedef, t_ptr, t_void, s_param, s_function, s_member,
                         CType, ss, CONST, VOLATILE)

# C spelling -> introspection type, from the C standard / GLib typedefs and the
# property statement ("int to gint, char* to utf8, _Bool to gboolean, stdint and
# GLib aliases to their fixed-width types")
BASIC = {
    'char': 'gchar', 'signed char': 'gint8', 'unsigned char': 'guint8',
    'short': 'gshort', 'signed short': 'gshort', 'unsigned short': 'gushort',
    'unsigned short int': 'gushort',
    'int': 'gint', 'signed': 'gint', 'signed int': 'gint', 'unsigned': 'guint',
    'unsigned int': 'guint', 'uint': 'guint',
    'long': 'glong', 'signed long': 'glong', 'unsigned long': 'gulong',
    'unsigned long int': 'gulong', 'ulong': 'gulong',
    'long long': 'long long', 'signed long long': 'long long',
    'unsigned long long': 'unsigned long long',
    'float': 'gfloat', 'double': 'gdouble', 'long double': 'long double',
    '_Bool': 'gboolean', 'bool': 'gboolean', 'gboolean': 'gboolean', 'boolean': 'gboolean',
    'int8_t': 'gint8', 'uint8_t': 'guint8', 'int16_t': 'gint16', 'uint16_t': 'guint16',
    'int32_t': 'gint32', 'uint32_t': 'guint32', 'int64_t': 'gint64', 'uint64_t': 'guint64',
    'size_t': 'gsize', 'ssize_t': 'gssize', 'intptr_t': 'gintptr', 'uintptr_t': 'guintptr',
    'gint8': 'gint8', 'guint8': 'guint8', 'gint16': 'gint16', 'guint16': 'guint16',
    'gint32': 'gint32', 'guint32': 'guint32', 'gint64': 'gint64', 'guint64': 'guint64',
    'gchar': 'gchar', 'guchar': 'guint8', 'gshort': 'gshort', 'gushort': 'gushort',
    'gint': 'gint', 'guint': 'guint', 'glong': 'glong', 'gulong': 'gulong',
    'gsize': 'gsize', 'gssize': 'gssize', 'gintptr': 'gintptr', 'guintptr': 'guintptr',
    'gfloat': 'gfloat', 'gdouble': 'gdouble', 'goffset': 'gint64',
    'gunichar': 'gunichar', 'gunichar2': 'guint16', 'GType': 'GType',
    'grefcount': 'gint', 'gatomicrefcount': 'gint',
    'time_t': 'time_t', 'off_t': 'off_t', 'dev_t': 'dev_t', 'gid_t': 'gid_t', 'pid_t': 'pid_t',
    'socklen_t': 'socklen_t', 'uid_t': 'uid_t',
    'gpointer': 'gpointer', 'gconstpointer': 'gpointer', 'va_list': 'va_list',
}
# names that are introspection-type names rather than C spellings (accepted by the
# scanner in annotations; not C declarations) are not part of this property
NOT_C = ('any', 'none', 'utf8', 'filename', 'gchararray', 'id', 'void', 'void*', 'char*', 'gchar*', 'FILE*')
STRINGS = ('char', 'gchar')

SPELLINGS = sorted(BASIC)
N_SPELL = len(SPELLINGS)
C_BUILTIN_WORDS = ('char', 'short', 'int', 'long', 'signed', 'unsigned', 'float', 'double', '_Bool', 'bool')


def _is_builtin(sp):
    return all(w in C_BUILTIN_WORDS for w in sp.split())


def _base_ctype(sp, q):
    if _is_builtin(sp):
        return t_basic(sp, q)
    return t_typedef(sp, q)


def coverage_gap():
    """Spellings the scanner's own table knows and the oracle's table lacks."""
    return sorted(k for k in ast.type_names if k not in BASIC and k not in NOT_C)


def _levels(ctype_text):
    """'const char* const*' -> [{'const','char'}, {'const'}, set()] (token multiset per level)"""
    parts = ctype_text.split('*')
    return [sorted(p.split()) for p in parts]


def _expected_levels(sp, depth, qbase, qptrs):
    def q(bits):
        out = []
        if bits & CONST:
            out.append('const')
        if bits & VOLATILE:
            out.append('volatile')
        return out
    lv = [sorted(sp.split() + q(qbase))]
    for i in range(depth):
        lv.append(sorted(q(qptrs[i])))
    return lv


def _first(el, tag):
    for c in el.children:
        if c.tag == tag:
            return c
    return None


def type_spelling(pos: int, sidx: int, depth: int, qbase: int, qptr: int, arr: int = 0):
    """A value of C type  <quals> SPELLINGS[sidx] <'*' x depth, last pointer qualified by qptr>
    as parameter (pos 0), return value (1) or record field (2), no annotations.
    arr: 0 plain declarator, 1 `T name[]`, 2 `T name[4]` (parameters and fields only)."""
    arr = sym.pick(arr, 0, 2)
    pos = sym.pick(pos, 0, 2)
    sidx = sym.pick(sidx, 0, N_SPELL - 1)
    depth = sym.pick(depth, 0, 2)
    qbase = sym.pick(qbase, 0, 3)
    qptr = sym.pick(qptr, 0, 3)
    with sym.untraced():
        return _type_spelling(pos, sidx, depth, qbase, qptr, arr)


_Q = (0, CONST, VOLATILE, CONST | VOLATILE)


def _type_spelling(pos, sidx, depth, qbase, qptr, arr=0):
    if arr and pos == 1:
        return True     # C has no array return types
    if arr and pos == 2 and depth == 2:
        return True
    sp = SPELLINGS[sidx]
    qb = _Q[qbase]
    qp = _Q[qptr] if depth > 0 else 0
    ct = _base_ctype(sp, qb)
    qptrs = []
    for i in range(depth):
        this_q = qp if i == depth - 1 else 0
        ct = t_ptr(ct, this_q)
        qptrs.append(this_q)
    elem_depth = depth
    if arr:
        from vlib.gistub import t_array
        ct = t_array(ct, None if arr == 1 else 4)
        if pos == 0:
            # a parameter declared as an array is a pointer to the element type
            depth += 1
            qptrs.append(0)
    decls = pipe.fixed_decls()
    if pos == 0:
        decls.append(s_function('foo_frob', t_void(), [s_param('subj', ct)]))
    elif pos == 1:
        decls.append(s_function('foo_frob', ct, []))
    else:
        decls = pipe.fixed_decls(rec_extra_fields=[s_member('subj', ct)])
    o = run_pipeline(decls, [], pipe.fixed_dump())
    if o.root is None:
        return 'pipeline stopped: %r %r' % (o.fatal, o.crashed)
    if pos == 2:
        recs = [e for e in o.root.iter() if e.tag == 'record' and e.get('name') == 'Rec']
        holder = [f for f in recs[0].children if f.tag == 'field' and f.get('name') == 'subj']
        if len(holder) != 1:
            return 'field not emitted once'
        v = holder[0]
    else:
        fs = find_callable(o.root, ('function', 'foo_frob'))
        if len(fs) != 1:
            return 'function not emitted once'
        if pos == 1:
            v = _first(fs[0], 'return-value')
        else:
            v = _first(_first(fs[0], 'parameters'), 'parameter')
    t = _first(v, 'type') or _first(v, 'array')
    if t is None:
        return 'no type element'
    if arr and pos == 2:
        # field declared as an array: an <array> of the element type, with its size
        if t.tag != 'array':
            return 'array field emitted as %r' % (t.attrs,)
        if arr == 2 and t.get('fixed-size') != '4':
            return 'array field fixed-size %r' % t.get('fixed-size')
        t = _first(t, 'type') or _first(t, 'array')
        if t is None:
            return 'array field without element type'
    # ---- c:type keeps the original spelling -------------------------------------
    want_levels = _expected_levels(sp, depth, qb, qptrs)
    got = t.get('c:type')
    if got is None:
        return 'c:type missing'
    if _levels(got) != want_levels:
        return 'c:type %r does not spell %s%s (levels %r)' % (got, sp, '*' * depth, want_levels)
    # ---- canonical type ---------------------------------------------------------
    base = BASIC[sp]
    is_string = sp in STRINGS and depth >= 1
    if sp in STRINGS and depth == 2 and pos == 1:
        # a returned char** is an array of utf8
        if t.tag != 'array':
            return 'returned %s** is not an array: %r' % (sp, t.attrs)
        el = _first(t, 'type')
        if el is None or el.get('name') != 'utf8':
            return 'returned %s** is not an array of utf8' % sp
    elif is_string:
        if t.tag != 'type' or t.get('name') != 'utf8':
            return '%s%s is not utf8: %r' % (sp, '*' * depth, t.attrs)
    elif sp in ('_Bool', 'bool') and depth >= 1:
        # the statement maps _Bool (by value) to gboolean; a pointer to _Bool is not
        # ABI compatible with gboolean* and the statement says nothing about it
        pass
    else:
        if t.tag != 'type' or t.get('name') != base:
            return '%s%s maps to %r, expected %s' % (sp, '*' * depth, t.attrs, base)
    # ---- default transfer ---------------------------------------------------------
    tr = v.get('transfer-ownership')
    if pos == 0:
        if tr != 'none':
            return 'in parameter transfer %r' % tr
    elif pos == 1:
        const_pointee = bool(qb & CONST)
        if depth == 0 and base not in ('gpointer', 'va_list'):
            if tr != 'none':
                return 'returned basic type transfer %r' % tr
        elif is_string and depth == 1:
            if const_pointee and tr != 'none':
                return 'returned const string transfer %r' % tr
            if not const_pointee and tr != 'full':
                return 'returned non-const string transfer %r' % tr
        elif depth == 1 and const_pointee and tr != 'none':
            return 'returned const value transfer %r' % tr
    # ---- untyped pointers are nullable ----------------------------------------------
    if pos in (0, 1) and base == 'gpointer' and depth == 0:
        if v.get('nullable') != '1':
            return 'untyped pointer %s not nullable' % sp
    return True


# ------------------------------------------------------------------------------
# roles: callback / user_data / destroy-notify / GError arrangements

ROLE_KINDS = ('cb', 'async', 'destroy', 'user_data', 'data', 'other', 'gerror', 'int')


def _role_param(kind, i):
    if kind == 'cb':
        return ('cb%d' % i, 15)
    if kind == 'async':
        return ('ready%d' % i, 17)
    if kind == 'destroy':
        return ('notify%d' % i, 16)
    if kind == 'user_data':
        return (('user_data', 'b_user_data', 'c_user_data', 'd_user_data')[i], 9)
    if kind == 'data':
        return (('data', 'b_data', 'c_data', 'd_data')[i], 9)
    if kind == 'other':
        return ('other%d' % i, 9)
    if kind == 'gerror':
        return ('error%d' % i, 29)
    return ('n%d' % i, 0)


PTR_SPELLINGS = ('gpointer', 'void*', 'gconstpointer')


def roles(ckind: int, n: int, k0: int, k1: int, k2: int, k3: int, ptr: int = 0):
    """A callable with n parameters of kinds ROLE_KINDS[k_i], no annotations.  ptr: C spelling used
    for the untyped pointers (gpointer, void*, gconstpointer): the roles must not depend on it."""
    ckind = sym.pick(ckind, 0, 3)
    ptr = sym.pick(ptr, 0, 2)
    n = sym.pick(n, 0, 4)
    k0 = sym.pick(k0, 0, 7)
    k1 = sym.pick(k1, 0, 7)
    k2 = sym.pick(k2, 0, 7)
    k3 = sym.pick(k3, 0, 7)
    with sym.untraced():
        r = _roles(ckind, n, k0, k1, k2, k3, ptr)
        if r is not True or ptr == 0:
            return r
        # same roles as with the gpointer spelling
        a, b = _roles_view(ckind, n, k0, k1, k2, k3, 0), _roles_view(ckind, n, k0, k1, k2, k3, ptr)
        if a != b:
            return 'roles differ between gpointer and %s: %r vs %r' % (PTR_SPELLINGS[ptr], a, b)
        return True


def _roles_view(ckind, n, k0, k1, k2, k3, ptr):
    """(name, closure, destroy, scope, nullable) of every emitted parameter"""
    c = _roles(ckind, n, k0, k1, k2, k3, ptr, want_view=True)
    return c


def _roles(ckind, n, k0, k1, k2, k3, ptr=0, want_view=False):
    kinds = [ROLE_KINDS[k] for k in (k0, k1, k2, k3)[:n]]
    params = []
    names = []
    for i, k in enumerate(kinds):
        nm, tk = _role_param(k, i)
        # parameter names must be unique and the first user_data keeps its plain name
        if nm in names:
            nm = nm + 'x'
        names.append(nm)
        params.append((nm, tk))
    decls, blocks, dump, loc = build_callable(ckind, params, None, {})
    if ptr:
        _respell_pointers(decls, ptr)
    o = run_pipeline(decls, [b for b in blocks if b.name == 'FooSkipped'], dump)
    if o.root is None:
        return 'pipeline stopped: %r %r' % (o.fatal, o.crashed)
    cs = find_callable(o.root, loc)
    if len(cs) != 1:
        return 'callable emitted %d times' % len(cs)
    c = cs[0]
    pel = _first(c, 'parameters')
    emitted = [p for p in (pel.children if pel is not None else []) if p.tag == 'parameter']
    if want_view:
        return [(p.get('name'), p.get('closure'), p.get('destroy'), p.get('scope'), p.get('nullable')) for p in emitted]
    # ---- trailing GError** ------------------------------------------------------------
    trailing_err = bool(kinds) and kinds[-1] == 'gerror'
    want_n = n - 1 if trailing_err else n
    if len(emitted) != want_n:
        return 'emitted %d parameters, expected %d' % (len(emitted), want_n)
    if trailing_err and c.get('throws') != '1':
        return 'trailing GError** but throws missing'
    if not trailing_err and c.get('throws') is not None:
        return 'throws without a trailing GError**'
    for p, nm in zip(emitted, names):
        if p.get('name') != nm:
            return 'parameter order/name changed: %r vs %r' % (p.get('name'), nm)
    eff = kinds[:want_n]
    # ---- per parameter -------------------------------------------------------------------
    for i, (p, k) in enumerate(zip(emitted, eff)):
        if p.get('direction') not in (None, 'in'):
            return 'un-annotated parameter %s has direction %r' % (names[i], p.get('direction'))
        if p.get('transfer-ownership') != 'none':
            return 'in parameter %s transfer %r' % (names[i], p.get('transfer-ownership'))
        if k == 'async':
            # (an async-ready callback directly governing a destroy-notify is not an
            # arrangement the statement speaks about)
            seg_has_destroy = False
            j = i + 1
            while j < want_n and eff[j] not in ('cb', 'async'):
                seg_has_destroy = seg_has_destroy or eff[j] == 'destroy'
                j += 1
            if p.get('scope') != 'async' and not seg_has_destroy:
                return 'GAsyncReadyCallback parameter %s scope %r' % (names[i], p.get('scope'))
        if k in ('user_data', 'data', 'other'):
            if p.get('nullable') != '1':
                return 'untyped pointer %s not nullable' % names[i]
        if k == 'cb':
            # the segment this callback governs: up to the next callback parameter
            j = i + 1
            seg = []
            while j < want_n and eff[j] not in ('cb', 'async'):
                seg.append(j)
                j += 1
            datas = [j for j in seg if eff[j] in ('user_data', 'data')]
            destroys = [j for j in seg if eff[j] == 'destroy']
            if len(datas) == 1:
                if p.get('closure') != str(datas[0]):
                    return 'callback %s: closure %r, expected %d' % (names[i], p.get('closure'), datas[0])
            elif not datas and not [j for j in seg if eff[j] == 'other']:
                if p.get('closure') is not None:
                    return 'callback %s: closure %r although no pointer follows' % (names[i], p.get('closure'))
            if len(destroys) == 1:
                if p.get('destroy') != str(destroys[0]):
                    return 'callback %s: destroy %r, expected %d' % (names[i], p.get('destroy'), destroys[0])
                if p.get('scope') != 'notified':
                    return 'callback %s with destroy-notify: scope %r' % (names[i], p.get('scope'))
            elif not destroys:
                if p.get('destroy') is not None:
                    return 'callback %s: destroy %r although no destroy-notify follows' % (names[i], p.get('destroy'))
                if p.get('scope') == 'notified':
                    return 'callback %s: notified scope without destroy-notify' % names[i]
        else:
            if k not in ('async',) and p.get('closure') not in (None, str(i)) and eff[i] != 'destroy':
                return 'non-callback parameter %s has closure %r' % (names[i], p.get('closure'))
            if k != 'async' and p.get('destroy') is not None:
                return 'non-callback parameter %s has destroy %r' % (names[i], p.get('destroy'))
    return True


def _respell_pointers(decls, ptr):
    """Rewrite the `gpointer` parameters of the subject callable as `void*` / `gconstpointer`."""
    def fix(ct):
        if ct is None:
            return
        if ct.type == ss.CTYPE_FUNCTION:
            for ch in ct.child_list:
                if getattr(ch, 'base_type', None) is not None and ch.base_type.type == ss.CTYPE_TYPEDEF \
                        and ch.base_type.name == 'gpointer' and ch.ident not in ('user_data',) or \
                        (getattr(ch, 'base_type', None) is not None and ch.base_type.type == ss.CTYPE_TYPEDEF
                         and ch.base_type.name == 'gpointer'):
                    ch.base_type = t_ptr(t_void()) if ptr == 1 else t_typedef('gconstpointer')
                else:
                    fix(getattr(ch, 'base_type', None))
        elif ct.type in (ss.CTYPE_POINTER,):
            fix(ct.base_type)
        elif ct.type == ss.CTYPE_STRUCT:
            for ch in ct.child_list:
                fix(getattr(ch, 'base_type', None))
    d = decls[-1]
    # the subject is the last declaration for functions/methods/callbacks; for virtual methods it is
    # the slot inside struct _FooObjClass
    for d in decls:
        if d.ident in ('foo_frob', 'foo_rec_frob', 'FooFrobCb', '_FooObjClass'):
            fix(d.base_type)


# ------------------------------------------------------------------------------
# typedef'd return types: the default transfer looks through the alias

def typedef_return(sidx: int, depth: int, qbase: int):
    """typedef <quals> T <'*' x depth> FooMy;  FooMy foo_frob (void);"""
    sidx = sym.pick(sidx, 0, N_SPELL - 1)
    depth = sym.pick(depth, 0, 1)
    qbase = sym.pick(qbase, 0, 1)
    with sym.untraced():
        from vlib.gistub import s_typedef
        sp = SPELLINGS[sidx]
        ct = _base_ctype(sp, _Q[qbase])
        for i in range(depth):
            ct = t_ptr(ct)
        decls = pipe.fixed_decls() + [s_typedef('FooMy', ct), s_function('foo_frob', t_typedef('FooMy'), [])]
        o = run_pipeline(decls, [], pipe.fixed_dump())
        if o.root is None:
            return 'pipeline stopped: %r %r' % (o.fatal, o.crashed)
        fs = find_callable(o.root, ('function', 'foo_frob'))
        if len(fs) != 1:
            return 'function not emitted once'
        v = _first(fs[0], 'return-value')
        tr = v.get('transfer-ownership')
        base = BASIC[sp]
        const_pointee = bool(_Q[qbase] & CONST)
        if depth == 0 and base not in ('gpointer', 'va_list'):
            if tr != 'none':
                return 'returned typedef of basic %s: transfer %r' % (sp, tr)
        elif depth == 1 and sp in STRINGS:
            if const_pointee and tr != 'none':
                return 'returned typedef of const %s*: transfer %r' % (sp, tr)
            if not const_pointee and tr != 'full':
                return 'returned typedef of %s*: transfer %r' % (sp, tr)
        return True


# ------------------------------------------------------------------------------
# direction-only annotation: default transfer of out / inout values

def direction_defaults(ckind: int, tkind: int, direction: int):
    """(out) / (out caller-allocates) / (out callee-allocates) / (inout) / (in) alone:
    out and inout transfer fully unless caller-allocated; in does not transfer."""
    ckind = sym.pick(ckind, 0, 3)
    tkind = sym.pick(tkind, 0, pipe.N_TYPES - 1)
    direction = sym.pick(direction, 0, 5)
    with sym.untraced():
        return _direction_defaults(ckind, tkind, direction)


def _direction_defaults(ckind, tkind, direction):
    ann = value_annotations(direction=direction)
    decls, blocks, dump, loc = build_callable(ckind, [(pipe.SUBJECT, tkind), ('n', 0)], None,
                                              {pipe.SUBJECT: ann})
    o = run_pipeline(decls, blocks, dump)
    if o.root is None:
        return True     # fatal diagnostic: nothing emitted
    cs = find_callable(o.root, loc)
    if len(cs) != 1:
        return 'callable emitted %d times' % len(cs)
    pel = _first(cs[0], 'parameters')
    ps = [p for p in pel.children if p.tag == 'parameter' and p.get('name') == pipe.SUBJECT]
    if len(ps) != 1:
        return 'subject parameter missing'
    p = ps[0]
    d = pipe.DIRECTION[direction]
    want_dir = 'in' if d is None else d[0]
    got_dir = p.get('direction') or 'in'
    if got_dir != want_dir:
        return 'direction %r, expected %r' % (got_dir, want_dir)
    tags = pipe.type_tags(tkind)
    if 'wkcb' in tags:
        return True     # well-known callbacks always get transfer none (callback role default)
    tr = p.get('transfer-ownership')
    if want_dir == 'in':
        if tr != 'none':
            return 'in parameter transfer %r' % tr
        return True
    ca = p.get('caller-allocates')
    if d[1] == ['caller-allocates'] and ca != '1':
        return 'caller-allocates not reflected'
    if d[1] == ['callee-allocates'] and ca != '0':
        return 'callee-allocates not reflected'
    if ca == '1':
        if tr != 'none':
            return 'caller-allocated %s transfer %r' % (want_dir, tr)
    else:
        if tr != 'full':
            return '%s parameter transfer %r, expected full' % (want_dir, tr)
    return True
