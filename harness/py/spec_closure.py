"""Executable statement of C05 over an emitted GIR element tree.

Written from the property text: "a callable, field, property or alias that is
not marked introspectable=0 only uses types that resolve to a fundamental type
or to a definition in this namespace or an included one that is itself
introspectable; no varargs, va_list, long long, long double; every parameter
and return value states its ownership transfer; every callback parameter other
than destroy-notify / async-ready states a scope; every list or array states an
element type; every index or name that points elsewhere in the file is in range
and mutually consistent".

Input: an element tree with .tag/.get()/.children (vlib.gistub.El, or an
adapter over xml.etree for the shipped GIR files) and a description of the
included namespaces {ns_name: {type name: kind}}.
"""

FUNDAMENTAL = frozenset((
    'none', 'gpointer', 'gboolean', 'gint8', 'guint8', 'gint16', 'guint16', 'gint32',
    'guint32', 'gint64', 'guint64', 'gchar', 'gshort', 'gushort', 'gint', 'guint',
    'glong', 'gulong', 'gsize', 'gssize', 'gintptr', 'guintptr', 'gfloat', 'gdouble',
    'gunichar', 'GType', 'utf8', 'filename', 'time_t', 'off_t', 'dev_t', 'gid_t',
    'pid_t', 'socklen_t', 'uid_t'))
UNBINDABLE = frozenset(('va_list', 'long long', 'unsigned long long', 'long double'))
DEFINITION_TAGS = ('alias', 'record', 'union', 'class', 'interface', 'enumeration', 'bitfield',
                   'callback', 'glib:boxed')
CALLABLE_TAGS = ('function', 'method', 'constructor', 'callback', 'virtual-method',
                 'glib:signal', 'function-inline', 'method-inline')
WELL_KNOWN_CALLBACKS = ('GLib.DestroyNotify', 'Gio.AsyncReadyCallback')


def _nonintro(e):
    return e.get('introspectable') == '0'


class Index(object):
    """Definitions of the emitted namespace, by name."""

    def __init__(self, root, includes, lenient_includes=False):
        self.includes = includes
        self.lenient_includes = lenient_includes
        self.ns = None
        self.defs = {}
        for e in root.iter():
            if e.tag == 'namespace':
                self.ns = e
        if self.ns is None:
            return
        self.ns_name = self.ns.get('name')
        for e in self.ns.children:
            if e.tag in DEFINITION_TAGS:
                self.defs.setdefault(e.get('name') or e.get('glib:name'), []).append(e)

    def lookup(self, name):
        """-> ('local', element) | ('foreign', kind) | None"""
        if '.' in name:
            nsn, n = name.split('.', 1)
            if nsn == self.ns_name:
                return self.lookup(n)
            inc = self.includes.get(nsn)
            if inc is None:
                # namespace not available to the oracle: undecidable, not a violation
                return ('foreign', 'unknown') if self.lenient_includes else None
            if n not in inc:
                return None
            return ('foreign', inc[n])
        d = self.defs.get(name)
        if not d:
            return None
        return ('local', d[0])

    def resolve_alias(self, name, depth=0):
        """Follow local aliases; returns lookup() result of the final target or None."""
        r = self.lookup(name)
        while r and r[0] == 'local' and r[1].tag == 'alias' and depth < 8:
            t = r[1].find('type')
            if t is None or t.get('name') is None:
                return r
            if t.get('name') in FUNDAMENTAL:
                return ('fundamental', t.get('name'))
            r = self.lookup(t.get('name'))
            depth += 1
        return r

    def is_callback(self, name):
        r = self.resolve_alias(name)
        if not r:
            return False
        if r[0] == 'local':
            return r[1].tag == 'callback'
        if r[0] == 'foreign':
            return r[1] == 'callback'
        return False


def check_type(idx, t, where, errs, strict=True, ref_only=False):
    """t: a <type>, <array> or <varargs> element.
    strict: a bare gpointer element counts as a missing element type (parameters and
    return values; the shipped GIR files have gpointer-element lists in fields).
    ref_only: the writer emits only the type name (alias targets)."""
    if t.tag == 'varargs':
        errs.append('%s: varargs' % where)
        return
    name = t.get('name')
    if t.tag == 'array':
        kids = [c for c in t.children if c.tag in ('type', 'array')]
        if len(kids) != 1:
            errs.append('%s: array without element type' % where)
            return
        if strict and kids[0].tag == 'type' and kids[0].get('name') == 'gpointer' and not kids[0].children:
            errs.append('%s: array of gpointer (no element type)' % where)
        if name is not None and name not in ('GLib.Array', 'GLib.PtrArray', 'GLib.ByteArray'):
            errs.append('%s: unknown array kind %r' % (where, name))
        check_type(idx, kids[0], where + '/element', errs, strict)
        return
    if name is None:
        errs.append('%s: type without a name (unresolved, c:type=%r)' % (where, t.get('c:type')))
        return
    kids = [c for c in t.children if c.tag in ('type', 'array')]
    if name in ('GLib.List', 'GLib.SList') and not ref_only:
        if len(kids) != 1:
            errs.append('%s: list without element type' % where)
            return
        if strict and kids[0].tag == 'type' and kids[0].get('name') == 'gpointer' and not kids[0].children:
            errs.append('%s: list of gpointer (no element type)' % where)
        check_type(idx, kids[0], where + '/element', errs, strict)
        return
    if name == 'GLib.HashTable':
        for k in kids:
            check_type(idx, k, where + '/element', errs, strict)
        return
    if name in UNBINDABLE:
        errs.append('%s: unbindable fundamental %s' % (where, name))
        return
    if name in FUNDAMENTAL:
        return
    r = idx.lookup(name)
    if r is None:
        errs.append('%s: type %r does not resolve' % (where, name))
        return
    if r[0] == 'local' and _nonintro(r[1]):
        errs.append('%s: type %r is not introspectable' % (where, name))


def _value_type(v):
    for c in v.children:
        if c.tag in ('type', 'array', 'varargs'):
            return c
    return None


def check_callable(idx, c, where, errs):
    params = []
    ret = None
    for ch in c.children:
        if ch.tag == 'return-value':
            ret = ch
        elif ch.tag == 'parameters':
            params = [p for p in ch.children if p.tag in ('parameter', 'instance-parameter')]
    plain = [p for p in params if p.tag == 'parameter']
    values = [('return', ret)] if ret is not None else []
    values += [('param %s' % p.get('name'), p) for p in params]
    if ret is None:
        errs.append('%s: no return-value' % where)
    for label, v in values:
        w = '%s %s' % (where, label)
        if v.get('transfer-ownership') not in ('none', 'full', 'container'):
            errs.append('%s: transfer-ownership missing or invalid (%r)' % (w, v.get('transfer-ownership')))
        t = _value_type(v)
        if t is None:
            errs.append('%s: no type' % w)
            continue
        check_type(idx, t, w, errs)
        if v.tag == 'parameter' and t.tag == 'type' and t.get('name') and \
                t.get('name') not in FUNDAMENTAL:
            full = t.get('name') if '.' in t.get('name') else '%s.%s' % (idx.ns_name, t.get('name'))
            if idx.is_callback(t.get('name')) and full not in WELL_KNOWN_CALLBACKS \
                    and t.get('name') not in WELL_KNOWN_CALLBACKS:
                if v.get('scope') not in ('call', 'async', 'notified', 'forever'):
                    errs.append('%s: callback parameter without scope' % w)
        if v.tag != 'return-value':
            for attr in ('closure', 'destroy'):
                if v.get(attr) is not None:
                    _check_index(v.get(attr), len(plain), '%s %s' % (w, attr), errs)
        if t.tag == 'array' and t.get('length') is not None:
            _check_index(t.get('length'), len(plain), '%s array length' % w, errs)


def _check_index(s, n, where, errs):
    try:
        i = int(str(s))
    except ValueError:
        errs.append('%s: index %r is not an integer' % (where, s))
        return
    if not (0 <= i < n):
        errs.append('%s: index %d out of range (0..%d)' % (where, i, n - 1))


def check_field(idx, f, n_fields, where, errs):
    cb = f.find('callback')
    if cb is not None:
        if _nonintro(cb):
            errs.append('%s: introspectable field wraps a non-introspectable callback' % where)
        else:
            check_callable(idx, cb, where + ' callback', errs)
        return
    t = _value_type(f)
    if t is None:
        errs.append('%s: field without type' % where)
        return
    check_type(idx, t, where, errs, strict=False)
    if t.tag == 'array' and t.get('length') is not None:
        _check_index(t.get('length'), n_fields, where + ' array length', errs)


def _members(e, tags):
    return [c for c in e.children if c.tag in tags]


def check_container(idx, e, where, errs):
    """record / union / class / interface (introspectable)."""
    fields = [c for c in e.children if c.tag in ('field', 'union', 'record')]
    only_fields = _members(e, ('field',))
    for f in only_fields:
        if not _nonintro(f):
            check_field(idx, f, len(fields), '%s.%s' % (where, f.get('name')), errs)
    for c in e.children:
        if c.tag in CALLABLE_TAGS and not _nonintro(c):
            check_callable(idx, c, '%s %s %s' % (where, c.tag, c.get('name')), errs)
        elif c.tag == 'property' and not _nonintro(c):
            t = _value_type(c)
            if t is None:
                errs.append('%s:%s property without type' % (where, c.get('name')))
            else:
                check_type(idx, t, '%s:%s' % (where, c.get('name')), errs, strict=False)
        elif c.tag in ('record', 'union') and not _nonintro(c):
            check_container(idx, c, '%s.%s' % (where, c.get('name')), errs)
    _check_function_links(idx, e, where, errs)
    # property accessors <-> set-property/get-property
    methods = dict((m.get('name'), m) for m in _members(e, ('method',)))
    props = dict((p.get('name'), p) for p in _members(e, ('property',)))
    for p in props.values():
        if _nonintro(p):
            continue
        for attr, back in (('setter', 'glib:set-property'), ('getter', 'glib:get-property')):
            mname = p.get(attr)
            if mname is None:
                continue
            m = methods.get(mname)
            if m is None:
                errs.append('%s:%s %s %r is not a method of the type' % (where, p.get('name'), attr, mname))
            elif m.get(back) is not None and m.get(back) != p.get('name'):
                errs.append('%s:%s %s %r names property %r' % (where, p.get('name'), attr, mname, m.get(back)))
    for m in methods.values():
        if _nonintro(m):
            continue
        for back, attr in (('glib:set-property', 'setter'), ('glib:get-property', 'getter')):
            pn = m.get(back)
            if pn is None:
                continue
            p = props.get(pn)
            if p is None:
                continue   # annotation naming a property the type does not have: nothing to agree with
            if _nonintro(p):
                continue   # the statement only asks that the two sides agree
            if p.get(attr) is not None and p.get(attr) != m.get('name'):
                # an inferred accessor and the method's annotation must agree
                other = methods.get(p.get(attr))
                if other is None or other.get(back) != pn:
                    errs.append('%s method %s %s=%r but property %s=%r' % (
                        where, m.get('name'), back, pn, attr, p.get(attr)))
    # virtual method invokers
    for v in _members(e, ('virtual-method',)):
        if _nonintro(v):
            continue
        inv = v.get('invoker')
        if inv is not None and inv not in methods:
            errs.append('%s virtual-method %s invoker %r is not a method of the type' % (where, v.get('name'), inv))


def _check_function_links(idx, scope_el, where, errs):
    """shadows / shadowed-by point at each other among the callables of one scope."""
    for tags in (('function',), ('method',), ('constructor',)):
        funcs = _members(scope_el, tags)
        byname = {}
        for f in funcs:
            byname.setdefault(f.get('name'), []).append(f)
        for f in funcs:
            s = f.get('shadows')
            if s is not None:
                tg = byname.get(s)
                if not tg:
                    # shadows may point at a callable of another kind in the same scope
                    alt = [c for c in scope_el.children if c.tag in CALLABLE_TAGS and c.get('name') == s]
                    if not alt:
                        errs.append('%s %s shadows %r which does not exist' % (where, f.get('name'), s))
                        continue
                    tg = alt
                if not any(t.get('shadowed-by') == f.get('name') for t in tg):
                    errs.append('%s %s shadows %r but that is not shadowed-by it' % (where, f.get('name'), s))
            sb = f.get('shadowed-by')
            if sb is not None:
                tg = [c for c in scope_el.children if c.tag in CALLABLE_TAGS and c.get('name') == sb]
                if not tg:
                    errs.append('%s %s shadowed-by %r which does not exist' % (where, f.get('name'), sb))
                elif not any(t.get('shadows') == f.get('name') for t in tg):
                    errs.append('%s %s shadowed-by %r but that does not shadow it' % (where, f.get('name'), sb))


def check_tree(root, includes, lenient_includes=False):
    """Returns the list of violations of C05 found in the emitted tree."""
    errs = []
    idx = Index(root, includes, lenient_includes)
    if idx.ns is None:
        return ['no <namespace>']
    for e in idx.ns.children:
        if _nonintro(e):
            continue
        name = e.get('name')
        if e.tag == 'alias':
            t = _value_type(e)
            if t is None:
                errs.append('alias %s without type' % name)
            else:
                check_type(idx, t, 'alias %s' % name, errs, strict=False, ref_only=True)
        elif e.tag in ('function', 'callback', 'function-inline'):
            check_callable(idx, e, '%s %s' % (e.tag, name), errs)
        elif e.tag in ('record', 'union', 'class', 'interface'):
            check_container(idx, e, '%s %s' % (e.tag, name), errs)
        elif e.tag in ('enumeration', 'bitfield'):
            for c in e.children:
                if c.tag == 'function' and not _nonintro(c):
                    check_callable(idx, c, '%s %s function %s' % (e.tag, name, c.get('name')), errs)
        elif e.tag == 'constant':
            t = _value_type(e)
            if t is not None:
                check_type(idx, t, 'constant %s' % name, errs, strict=False)
    _check_function_links(idx, idx.ns, 'namespace', errs)
    # type-struct links
    for e in idx.ns.children:
        ts = e.get('glib:type-struct')
        if ts is not None:
            r = idx.lookup(ts)
            if r is None or r[0] != 'local':
                errs.append('%s glib:type-struct %r does not exist' % (e.get('name'), ts))
            elif r[1].get('glib:is-gtype-struct-for') != e.get('name'):
                errs.append('%s glib:type-struct %r does not point back' % (e.get('name'), ts))
        back = e.get('glib:is-gtype-struct-for')
        if back is not None:
            r = idx.lookup(back)
            if r is None or r[0] != 'local':
                errs.append('%s glib:is-gtype-struct-for %r does not exist' % (e.get('name'), back))
            elif r[1].get('glib:type-struct') != e.get('name'):
                errs.append('%s glib:is-gtype-struct-for %r does not point back' % (e.get('name'), back))
    return errs


def includes_from_namespaces(namespaces):
    """{name: ast.Namespace} -> {name: {type name: kind}} using only names/kinds."""
    out = {}
    for nsn, ns in namespaces.items():
        d = {}
        for name, node in ns.names.items():
            d[name] = 'callback' if type(node).__name__ == 'Callback' else type(node).__name__.lower()
        out[nsn] = d
    return out
