"""C04 harnesses: each public C symbol is described once, under the right name and owner.

Real code executed: Transformer.parse (incl. _create_typedef_compound/_create_tag_ns_compound/
_append_new_node/strip_identifier/_strip_symbol/_split_c_string_for_namespace_matches),
GDumpParser.parse, MainTransformer.transform (_pair_function, _is_method, _setup_method,
_get_uscored_prefix, _is_constructor, _get_constructor_class/_name, _pair_static_method,
_split_uscored_by_type), IntrospectablePass, GIRWriter.
Oracle: from the property text.
"""
from vlib import sym
from vlib.gistub import (Scan, FakeXml, s_typedef, s_struct, s_member, s_function, s_param, s_enum,
                         s_enum_member, s_const, t_struct, t_typedef, t_ptr, t_basic, t_void, t_func,
                         mk_block, ast, transformer)
import pipe
from pipe import run_pipeline

# types of the scenario: (C name, symbol prefix, kind)
#   FooText, FooTextBuffer: classes (both derive from GObject: neither is an ancestor of the other)
#   FooTextView: class derived from FooText
#   FooRec: plain record, FooBoxed: boxed record
TYPES = ('FooText', 'FooTextBuffer', 'FooTextView', 'FooRec', 'FooBoxed')
PREFIX = {'FooText': 'text', 'FooTextBuffer': 'text_buffer', 'FooTextView': 'text_view', 'FooRec': 'rec',
          'FooBoxed': 'boxed'}
GIRNAME = {'FooText': 'Text', 'FooTextBuffer': 'TextBuffer', 'FooTextView': 'TextView', 'FooRec': 'Rec',
           'FooBoxed': 'Boxed'}
ANCESTORS = {'FooText': ('GObject',), 'FooTextBuffer': ('GObject',), 'FooTextView': ('FooText', 'GObject'),
             'FooRec': (), 'FooBoxed': ()}

NAME_PREFIX = ('text', 'text_buffer', 'text_view', 'rec', 'boxed', 'other', '', 'object')     # 'object': prefix of the foreign GObject
VERBS = ('new', 'new_with_x', 'newv', 'get_x', 'free', 'renew', 'news')
FIRST = (None, 'FooText', 'FooTextBuffer', 'FooTextView', 'FooRec', 'FooBoxed', 'GObject', 'int')
RET = (None, 'FooText', 'FooTextBuffer', 'FooTextView', 'FooRec', 'FooBoxed', 'GObject', 'int')
ANN = (None, 'method', 'constructor')


def _ct(name):
    if name is None:
        return t_void()
    if name == 'int':
        return t_basic('int')
    return t_ptr(t_typedef(name))


def _decls(rec_typedef_first=True):
    d = []
    for cls, parent in (('FooText', 'GObject'), ('FooTextBuffer', 'GObject'), ('FooTextView', 'FooText')):
        d += [s_typedef(cls, t_struct('_' + cls)),
              s_struct('_' + cls, [s_member('parent_instance', t_typedef(parent))]),
              s_function('foo_%s_get_type' % PREFIX[cls], t_typedef('GType'), [])]
    td = s_typedef('FooRec', t_struct('_FooRec'))
    st = s_struct('_FooRec', [s_member('x', t_basic('int'))])
    d += [td, st] if rec_typedef_first else [st, td]
    d += [s_typedef('FooBoxed', t_struct('_FooBoxed')), s_struct('_FooBoxed', [s_member('z', t_basic('int'))]),
          s_function('foo_boxed_get_type', t_typedef('GType'), [])]
    return d


def _dump():
    return [FakeXml('class', {'name': 'FooText', 'get-type': 'foo_text_get_type', 'parents': 'GObject'}),
            FakeXml('class', {'name': 'FooTextBuffer', 'get-type': 'foo_text_buffer_get_type', 'parents': 'GObject'}),
            FakeXml('class', {'name': 'FooTextView', 'get-type': 'foo_text_view_get_type', 'parents': 'FooText,GObject'}),
            FakeXml('boxed', {'name': 'FooBoxed', 'get-type': 'foo_boxed_get_type'})]


def _owner_of(root, el):
    """(tag, GIR name) of the element that contains el directly, or None for the namespace."""
    for e in root.iter():
        if el in e.children:
            if e.tag == 'namespace':
                return None
            return (e.tag, e.get('name') or e.get('glib:name'))
    return None


def _check_function(root, symbol, prefix_words, first, ret, ann):
    els = [e for e in root.iter() if e.tag in ('function', 'method', 'constructor') and e.get('c:identifier') == symbol]
    primary = [e for e in els if e.get('moved-to') is None]
    copies = [e for e in els if e.get('moved-to') is not None]
    if len(primary) != 1:
        return '%s described %d times (besides %d moved-to copies)' % (symbol, len(primary), len(copies))
    if len(copies) > 1:
        return '%s has %d moved-to copies' % (symbol, len(copies))
    e = primary[0]
    owner = _owner_of(root, e)
    stripped = symbol[len('foo_'):]
    if owner is None:
        if e.tag != 'function':
            return '%s is a toplevel <%s>' % (symbol, e.tag)
        if e.get('name') != stripped:
            return 'toplevel function %s named %r, expected %r' % (symbol, e.get('name'), stripped)
        return True
    cname = [c for c in TYPES if GIRNAME[c] == owner[1]]
    if not cname:
        return '%s placed inside unknown element %r' % (symbol, owner)
    T = cname[0]
    carries = symbol.startswith('foo_' + PREFIX[T] + '_')
    if e.tag == 'method':
        if first != T:
            return '%s is a method of %s but its first parameter is %s' % (symbol, T, first)
        if ann != 'method' and not carries:
            return '%s is a method of %s whose prefix it does not carry' % (symbol, T)
        if carries and e.get('name') != symbol[len('foo_' + PREFIX[T] + '_'):]:
            return 'method %s named %r' % (symbol, e.get('name'))
    elif e.tag == 'constructor':
        if ann != 'constructor' and not carries:
            return '%s is a constructor of %s whose prefix it does not carry' % (symbol, T)
        if ret != T and ret not in ANCESTORS[T]:
            return '%s is a constructor of %s but returns %s' % (symbol, T, ret)
        if carries and e.get('name') != symbol[len('foo_' + PREFIX[T] + '_'):]:
            return 'constructor %s named %r' % (symbol, e.get('name'))
    else:
        # static function moved into a type: it must at least carry that type's prefix
        if not carries:
            return '%s placed inside %s whose prefix it does not carry' % (symbol, T)
    return True


def pairing(np: int, verb: int, first: int, ret: int, ann: int, rec_typedef_first: bool):
    """One function foo_<NAME_PREFIX[np]>_<VERBS[verb]>(FIRST[first] self?, int x) -> RET[ret]."""
    np = sym.pick(np, 0, len(NAME_PREFIX) - 1)
    verb = sym.pick(verb, 0, len(VERBS) - 1)
    first = sym.pick(first, 0, len(FIRST) - 1)
    ret = sym.pick(ret, 0, len(RET) - 1)
    ann = sym.pick(ann, 0, 2)
    rec_typedef_first = sym.flag(rec_typedef_first)
    with sym.untraced():
        return _pairing(np, verb, first, ret, ann, rec_typedef_first)


def _pairing(np, verb, first, ret, ann, rec_typedef_first):
    words = NAME_PREFIX[np]
    symbol = 'foo_' + (words + '_' if words else '') + VERBS[verb]
    params = []
    if FIRST[first] is not None:
        params.append(s_param('self', _ct(FIRST[first])))
    params.append(s_param('x', t_basic('int')))
    decls = _decls(rec_typedef_first) + [s_function(symbol, _ct(RET[ret]), params)]
    # bystanders that must stay out / stay put
    decls += [s_function('_foo_hidden', t_void(), []), s_function('bar_elsewhere', t_void(), []),
              s_function('g_object_frob', t_void(), []), s_function('foo_plain', t_void(), [])]
    blocks = []
    if ANN[ann]:
        blocks.append(mk_block(symbol, annotations={ANN[ann]: []}))
    o = run_pipeline(decls, blocks, _dump())
    if o.root is None:
        return True if o.fatal else 'pipeline crashed: %r' % (o.crashed,)
    root = o.root
    r = _check_function(root, symbol, words, FIRST[first], RET[ret], ANN[ann])
    if r is not True:
        return r
    # symbols of other namespaces or starting with an underscore are left out
    ids = [e.get('c:identifier') for e in root.iter() if e.get('c:identifier')]
    for bad in ('_foo_hidden', 'bar_elsewhere', 'g_object_frob'):
        if bad in ids:
            return '%s was described' % bad
    if ids.count('foo_plain') != 1:
        return 'foo_plain described %d times' % ids.count('foo_plain')
    # every type once, under its C name
    ns = [e for e in root.iter() if e.tag == 'namespace'][0]
    for c in TYPES:
        n = [e for e in ns.children if e.get('c:type') == c]
        if len(n) != 1 or n[0].get('name') != GIRNAME[c]:
            return 'type %s described %d times / named %r' % (c, len(n), [x.get('name') for x in n])
    # no two elements carry the same C identifier except moved-to copies
    seen = {}
    for e in root.iter():
        cid = e.get('c:identifier')
        if cid and e.tag in ('function', 'method', 'constructor') and e.get('moved-to') is None:
            seen[cid] = seen.get(cid, 0) + 1
    dup = [k for k, v in seen.items() if v > 1]
    if dup:
        return 'C identifiers described twice: %r' % dup
    return True


# ------------------------------------------------------------------------------
# kinds of declarations: each once, right c:type, underscore / foreign left out

KINDS = ('struct', 'union', 'enum', 'callback', 'alias', 'constant', 'function')


def declarations(kind: int, prefix: int, order: int, dup_typedef: bool):
    """A declaration of each kind whose name carries: 0 the namespace prefix, 1 an underscore,
    2 the prefix of an included namespace (G), 3 an unknown prefix, 4 the second prefix of the namespace."""
    kind = sym.pick(kind, 0, len(KINDS) - 1)
    prefix = sym.pick(prefix, 0, 4)
    order = sym.pick(order, 0, 2)
    dup_typedef = sym.flag(dup_typedef)
    with sym.untraced():
        return _declarations(kind, prefix, order, dup_typedef)


def _declarations(kind, prefix, order, dup_typedef):
    from vlib.gistub import s_union, t_union, CSym, ss
    k = KINDS[kind]
    ident_prefix = ('Foo', '_Foo', 'G', 'Zork', 'Fu')[prefix]
    sym_prefix = ('foo_', '_foo_', 'g_', 'zork_', 'fu_')[prefix]
    upper_prefix = ('FOO_', '_FOO_', 'G_', 'ZORK_', 'FU_')[prefix]
    decls = []
    if k in ('struct', 'union'):
        name = ident_prefix + 'Thing'
        tag = '_' + name if not name.startswith('_') else name + '_'
        mk_t = t_struct if k == 'struct' else t_union
        td = s_typedef(name, mk_t(tag))
        body = (s_struct if k == 'struct' else s_union)(tag, [s_member('a', t_basic('int'))])
        # order: 0 typedef before the body, 1 body before the typedef, 2 typedef of an anonymous compound
        if order == 0:
            decls += [td, body]
        elif order == 1:
            decls += [body, td]
        else:
            decls += [s_typedef(name, mk_t(None, [s_member('a', t_basic('int'))]))]
        if dup_typedef and order != 2:
            decls.append(s_typedef(ident_prefix + 'ThingTwo', mk_t(tag)))
        cname, tagname = name, {'struct': 'record', 'union': 'union'}[k]
    elif k == 'enum':
        cname = ident_prefix + 'Mode'
        decls.append(s_enum(cname, [s_enum_member(upper_prefix + 'MODE_A', 0), s_enum_member(upper_prefix + 'MODE_B', 1)],
                            typedef=(order != 1)))
        tagname = 'enumeration'
    elif k == 'callback':
        cname = ident_prefix + 'Func'
        decls.append(s_typedef(cname, t_ptr(t_func(t_void(), [s_param('v', t_basic('int'))]))))
        tagname = 'callback'
    elif k == 'alias':
        cname = ident_prefix + 'Count'
        decls.append(s_typedef(cname, t_basic('int')))
        tagname = 'alias'
    elif k == 'constant':
        cname = upper_prefix + 'LIMIT'
        decls.append(s_const(cname, const_int=7))
        tagname = 'constant'
    else:
        cname = sym_prefix + 'run'
        decls.append(s_function(cname, t_void(), []))
        tagname = 'function'
    decls.append(s_function('foo_keep', t_void(), []))
    o = run_pipeline(decls, [], None, prefixes=dict(identifier_prefixes=['Foo', 'Fu'], symbol_prefixes=['foo', 'fu']))
    if o.root is None:
        return True if o.fatal else 'pipeline crashed: %r' % (o.crashed,)
    root = o.root
    ns = [e for e in root.iter() if e.tag == 'namespace'][0]
    attr = 'c:identifier' if k == 'function' else 'c:type'
    found = [e for e in ns.children if e.get(attr) == cname]
    public = prefix in (0, 4)
    if not public:
        if prefix == 1 and k not in ('constant', 'function'):
            return True     # a *type* spelled with a leading underscore: "symbols starting with an
            #                 underscore are left out" is read as speaking of functions and constants
        if found:
            return '%s %s (not of this namespace / hidden) was described' % (k, cname)
        return True
    if len(found) != 1:
        return '%s %s described %d times' % (k, cname, len(found))
    e = found[0]
    if e.tag != tagname:
        return '%s %s described as <%s>' % (k, cname, e.tag)
    plen = len(('Foo', '', '', '', 'Fu')[prefix]) if k not in ('constant', 'function') else len(('foo_', '', '', '', 'fu_')[prefix])
    want = cname[plen:]
    if e.get('name') != want:
        return '%s %s named %r, expected %r' % (k, cname, e.get('name'), want)
    if dup_typedef and k in ('struct', 'union') and order != 2:
        second = [x for x in ns.children if x.get('c:type') == ident_prefix + 'ThingTwo']
        if len(second) != 1:
            return 'second typedef of the same struct described %d times' % len(second)
    return True


# ------------------------------------------------------------------------------
# prefix arithmetic: several prefixes, prefixes of included namespaces, accept-unprefixed

ID_PREFIX_SETS = (['Foo'], ['Foo', 'Fu'], ['F', 'Foo'], ['Foo', 'F'], ['FooBar', 'Foo'])
INC_PREFIXES = ('G', 'FooBar', 'Fo')
IDENTS = ('FooThing', 'FuThing', 'FThing', 'FooBarThing', 'GThing', 'Thing', '_FooThing', 'Foo', 'FoThing',
          '_GThing', 'fooThing')
SYM_PREFIX_SETS = (['foo'], ['foo', 'fu'], ['f', 'foo'], ['foo_bar', 'foo'], ['foo_'])
INC_SYM_PREFIXES = ('g', 'foo_bar', 'fo')
SYMBOLS = ('foo_run', 'fu_run', 'f_run', 'foo_bar_run', 'g_run', 'run', '_foo_run', 'foo', 'foorun', 'FOO_RUN',
           'FU_RUN', 'G_RUN', 'fo_run')


class _Sym(object):
    def __init__(self, ident):
        self.ident = ident


def _expected(body_prefixes, inc_prefixes, ident, accept, suffix=''):
    hidden = ident.startswith('_')
    body = ident[1:] if hidden else ident
    for p in body_prefixes:
        if body.startswith(p + suffix if not p.endswith(suffix) or not suffix else p):
            pl = len(p + suffix if not p.endswith(suffix) or not suffix else p)
            return ('_' if hidden else '') + body[pl:]
    for p in inc_prefixes:
        if body.startswith(p + suffix if not p.endswith(suffix) or not suffix else p):
            return None          # only an included namespace claims it: left out
    if accept:
        return ('_' if hidden else '') + body
    return None


def prefixes(which: int, pset: int, inc: int, item: int, accept_unprefixed: bool):
    """strip_identifier (which=0) / _strip_symbol (which=1) over chosen prefix sets."""
    which = sym.pick(which, 0, 1)
    pset = sym.pick(pset, 0, 4)
    inc = sym.pick(inc, 0, 2)
    item = sym.pick(item, 0, 12)
    accept_unprefixed = sym.flag(accept_unprefixed)
    with sym.untraced():
        return _prefixes(which, pset, inc, item, accept_unprefixed)


def _prefixes(which, pset, inc, item, accept):
    from vlib import gistub
    gistub.install_logger()
    if which == 0:
        if item >= len(IDENTS):
            return True
        ns = ast.Namespace('Cur', '1.0', identifier_prefixes=list(ID_PREFIX_SETS[pset]), symbol_prefixes=['cur'])
        incn = ast.Namespace('Inc', '1.0', identifier_prefixes=[INC_PREFIXES[inc]], symbol_prefixes=['inc'])
        t = transformer.Transformer(ns, accept_unprefixed=accept)
        t._parsed_includes['Inc'] = incn
        ident = IDENTS[item]
        try:
            got = t.strip_identifier(ident)
        except transformer.TransformerException:
            got = None
        want = _expected(ID_PREFIX_SETS[pset], [INC_PREFIXES[inc]], ident, accept)
        if got != want:
            return 'strip_identifier(%r), prefixes %r, include %r, accept_unprefixed=%r: %r, expected %r' % (
                ident, ID_PREFIX_SETS[pset], INC_PREFIXES[inc], accept, got, want)
        return True
    ns = ast.Namespace('Cur', '1.0', identifier_prefixes=['Cur'], symbol_prefixes=list(SYM_PREFIX_SETS[pset]))
    incn = ast.Namespace('Inc', '1.0', identifier_prefixes=['Inc'], symbol_prefixes=[INC_SYM_PREFIXES[inc]])
    t = transformer.Transformer(ns, accept_unprefixed=accept)
    t._parsed_includes['Inc'] = incn
    symbol = SYMBOLS[item]
    try:
        got = t._strip_symbol(_Sym(symbol))
    except transformer.TransformerException:
        got = None
    body = symbol[1:] if symbol.startswith('_') else symbol
    cur = list(SYM_PREFIX_SETS[pset])
    incp = [INC_SYM_PREFIXES[inc]]
    if body[:1].isupper():
        # upper-case symbols (constants, enum members) carry the upper-cased symbol prefix
        cur = [p.upper() for p in cur]
        incp = [p.upper() for p in incp]
    want = _expected(cur, incp, symbol, accept, suffix='_')
    if got != want:
        return '_strip_symbol(%r), prefixes %r, include %r, accept_unprefixed=%r: %r, expected %r' % (
            symbol, SYM_PREFIX_SETS[pset], INC_SYM_PREFIXES[inc], accept, got, want)
    return True
