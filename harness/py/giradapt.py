"""Present a GIR file parsed by xml.etree as the element shape the oracles use
(prefixed tag / attribute names such as 'glib:signal', 'c:type')."""
import xml.etree.ElementTree as ET

NS = {'http://www.gtk.org/introspection/core/1.0': '',
      'http://www.gtk.org/introspection/c/1.0': 'c:',
      'http://www.gtk.org/introspection/glib/1.0': 'glib:',
      'http://www.gtk.org/introspection/doc/1.0': 'doc:',
      'http://www.w3.org/XML/1998/namespace': 'xml:'}


def _q(name):
    if name.startswith('{'):
        uri, local = name[1:].split('}', 1)
        return NS.get(uri, '{%s}' % uri) + local
    return name


class XEl(object):
    def __init__(self, e):
        self.tag = _q(e.tag)
        self.attrs = [(_q(k), v) for k, v in e.attrib.items()]
        self.text = e.text
        self.children = [XEl(c) for c in e]

    def get(self, key, default=None):
        for k, v in self.attrs:
            if k == key:
                return v
        return default

    def find(self, tag):
        for c in self.children:
            if c.tag == tag:
                return c
        return None

    def findall(self, tag):
        return [c for c in self.children if c.tag == tag]

    def iter(self):
        yield self
        for c in self.children:
            for x in c.iter():
                yield x


def load(path):
    root = XEl(ET.parse(path).getroot())
    doc = XEl.__new__(XEl)
    doc.tag = '#document'
    doc.attrs = []
    doc.text = None
    doc.children = [root]
    return doc


def definitions(doc):
    """{ns name: {type name: kind}} for the namespace defined in doc."""
    out = {}
    for e in doc.iter():
        if e.tag == 'namespace':
            d = {}
            for c in e.children:
                n = c.get('name') or c.get('glib:name')
                if n and c.tag in ('alias', 'record', 'union', 'class', 'interface', 'enumeration',
                                   'bitfield', 'callback', 'glib:boxed'):
                    d[n] = c.tag
            out[e.get('name')] = d
    return out
