"""C20 harnesses: the XML writer produces well-formed, lossless XML.

Real code executed: giscanner.xmlwriter._calc_attrs_length, collect_attributes,
build_xml_tag, XMLWriter.push_tag/pop_tag/write_tag/write_line/tagcontext,
with the stdlib escape/quoteattr they call (lemmas (a)) or with injective
tagging stubs in their place (structure (b)).
Oracle: XML 1.0 productions CharData / AttValue / Reference written out in
spec_unescape() below (validated against expat in the check's concrete step).
"""
import os
import sys

REPO = os.environ.get('GI_VERIF_REPO', '/repo')
if REPO not in sys.path:
    sys.path.insert(0, REPO)

from giscanner import xmlwriter  # noqa: E402

_REAL_QUOTEATTR = xmlwriter.quoteattr
_REAL_ESCAPE = xmlwriter.escape

ENTITIES = {'amp': '&', 'lt': '<', 'gt': '>', 'quot': '"', 'apos': "'"}


def spec_unescape(body):
    """Decode character data per XML 1.0 (predefined entities and decimal/hex
    character references).  Returns None when `body` contains a raw '<' or a
    '&' that does not start a reference (not well-formed)."""
    out = []
    i = 0
    n = len(body)
    while i < n:
        c = body[i]
        if c == '<':
            return None
        if c != '&':
            out.append(c)
            i += 1
            continue
        j = body.find(';', i + 1)
        if j < 0:
            return None
        name = body[i + 1:j]
        if name in ENTITIES:
            out.append(ENTITIES[name])
        elif name.startswith('#x'):
            try:
                out.append(chr(int(name[2:], 16)))
            except ValueError:
                return None
        elif name.startswith('#'):
            try:
                out.append(chr(int(name[1:])))
            except ValueError:
                return None
        else:
            return None
        i = j + 1
    return ''.join(out)


# references a writer may reasonably use for the characters that need one
_REFS = (('&amp;', '&'), ('&lt;', '<'), ('&gt;', '>'), ('&quot;', '"'), ('&apos;', "'"),
         ('&#10;', '\n'), ('&#13;', '\r'), ('&#9;', '\t'), ('&#xA;', '\n'), ('&#xD;', '\r'),
         ('&#x9;', '\t'), ('&#38;', '&'), ('&#60;', '<'), ('&#62;', '>'), ('&#34;', '"'),
         ('&#39;', "'"))


def fast_decodes(body, v, forbidden):
    """True when `body` is, character by character, an XML encoding of `v`
    (each character either itself, when XML allows it raw in this position,
    or one of the references above).  A False answer is not a verdict: the
    caller falls back to the general decoder."""
    j = 0
    n = len(body)
    for c in v:
        if j >= n:
            return False
        if body[j] == '&':
            for ref, ch in _REFS:
                if ch == c and body.startswith(ref, j):
                    j += len(ref)
                    break
            else:
                return False
        else:
            if body[j] != c or c == '<' or c in forbidden:
                return False
            j += 1
    return j == n


def text_lossless(s: str):
    """Element text: <t>escape(s)</t> is well-formed and decodes to s
    (carriage returns excepted: XML normalises them)."""
    if '\r' in s:
        return True
    out = xmlwriter.build_xml_tag('t', [], s)
    if not (out.startswith('<t>') and out.endswith('</t>')):
        return 'frame broken: %r' % (out,)
    body = out[3:len(out) - 4]
    if ']]>' in body:
        return 'CDATA end marker "]]>" raw in character data: %r' % (body,)
    if fast_decodes(body, s, ''):
        return True
    dec = spec_unescape(body)
    if dec is None:
        return 'not well-formed character data: %r' % (body,)
    if dec != s:
        return 'text changed: %r -> %r' % (s, dec)
    return True


def attr_lossless(v: str):
    """Attribute value: k=quoteattr(v) is a well-formed AttValue that a
    conforming parser (after attribute-value normalisation) returns as v."""
    out = xmlwriter.build_xml_tag('t', [('k', v)], None)
    if not (out.startswith('<t k=') and out.endswith('/>')):
        return 'frame broken: %r' % (out,)
    q = out[5:len(out) - 2]
    if len(q) < 2 or q[0] not in '"\'' or q[-1] != q[0]:
        return 'not quoted: %r' % (q,)
    body = q[1:-1]
    if fast_decodes(body, v, q[0] + '\t\n\r'):
        return True
    if q[0] in body:
        return 'quote character inside value: %r' % (q,)
    for raw in '\t\n\r':
        if raw in body:
            return 'raw whitespace %r would be normalised away: %r' % (raw, q)
    dec = spec_unescape(body)
    if dec is None:
        return 'not a well-formed AttValue: %r' % (q,)
    if dec != v:
        return 'attribute value changed: %r -> %r' % (v, dec)
    return True


def wrapped_lossless(v: str, pos: int):
    """Line wrapping never changes content: in an attribute list long enough to be wrapped, with the value v at
    position pos among long constant values, the serialisation is exactly the names and the individually quoted
    values (the AttValue that attr_lossless proves lossless for v alone) joined by white space."""
    single = xmlwriter.build_xml_tag('t', [('k', v)], None)
    if not (single.startswith('<t k=') and single.endswith('/>')):
        return 'frame broken: %r' % (single,)
    q = single[5:len(single) - 2]
    fill = [('alpha', 'x' * 36), ('beta', 'y y'), ('gamma', "z'" * 15)]
    attrs = fill[:pos] + [('k', v)] + fill[pos:]
    out = xmlwriter.build_xml_tag('tag', attrs, None, self_indent=4)
    pad = chr(10) + ' ' * (4 + 3 + 1)
    parts = []
    for k, val in attrs:
        if k == 'k':
            parts.append(' k=' + q)
        else:
            one = xmlwriter.build_xml_tag('t', [(k, val)], None)
            parts.append(one[2:len(one) - 2])
    wrapped = '<tag' + pad.join(parts) + '/>'
    if out != wrapped:
        return 'wrapped serialisation %r is not the quoted values joined by white space %r' % (out, wrapped)
    return True


# ---------------------------------------------------------------------------
# (b) structure with escaping abstracted

class Val(object):
    """An attribute value / text whose content is opaque and whose length is a
    (symbolic) integer: the writer may only pass it to quoteattr/escape."""

    def __init__(self, ident, length):
        self.ident = ident
        self.length = length

    def __len__(self):          # truthiness of the value follows the string's
        return self.length


class Tok(str):
    """What the stubbed quoteattr/escape return: a concrete, injective
    placeholder whose len() is the symbolic length of the quoted value."""

    def __new__(cls, text, length):
        o = str.__new__(cls, text)
        o._length = length
        return o

    def __len__(self):
        return self._length


def _q(v):
    return Tok('\x01%s\x02' % (v.ident,), v.length + 2)


def _e(v):
    return Tok('\x03%s\x04' % (v.ident,), v.length)


def tag_structure(n: int, l0: int, l1: int, l2: int, l3: int,
                  none0: bool, none1: bool, none2: bool, none3: bool,
                  taglen: int, indent: int, has_data: bool, ldata: int):
    """build_xml_tag output = '<name' + for each non-None attribute, in order,
    a separator in {' ', '\\n'+indent} + 'k=Q(v)' + ('/>' | '>E(data)</name>');
    None values omitted; the column rule only chooses the separator.
    Value lengths l0..l3 are arbitrary non-negative integers."""
    xmlwriter.quoteattr = _q
    xmlwriter.escape = _e
    try:
        name = 't' * taglen
        keys = ['a0', 'bb1', 'c:c2', 'ddd3']
        vals = [None if z else Val(i, ln) for i, (ln, z) in
                enumerate(zip([l0, l1, l2, l3], [none0, none1, none2, none3]))][:n]
        attrs = list(zip(keys[:n], vals))
        data = Val('d', ldata)
        try:
            out = xmlwriter.build_xml_tag(name, attrs, data if has_data else None,
                                          self_indent=indent)
        except (TypeError, AttributeError) as e:
            # the writer looked inside a value (legal for real strings): the opaque-value
            # abstraction does not apply; content is the subject of the lemma harnesses
            return 'INCONCLUSIVE: writer inspects value content directly (%r)' % (e,)
    finally:
        xmlwriter.quoteattr = _REAL_QUOTEATTR
        xmlwriter.escape = _REAL_ESCAPE
    out = str.__str__(out)
    suffix = ('>' + '\x03d\x04' + '</' + name + '>') if has_data else '/>'
    present = [(k, v) for k, v in attrs if v is not None]
    flat = '<' + name + ''.join(' %s=\x01%s\x02' % (k, v.ident) for k, v in present) + suffix
    pad = '\n' + ' ' * (indent + taglen + 1)
    wrapped = '<' + name
    first = True
    for k, v in present:
        if not first:
            wrapped += pad
        wrapped += ' %s=\x01%s\x02' % (k, v.ident)
        first = False
    wrapped += suffix
    if out == flat or out == wrapped:
        return True
    return 'unexpected serialisation %r (flat %r / wrapped %r)' % (out, flat, wrapped)


# ---------------------------------------------------------------------------
# (c) element stack

class Boom(Exception):
    pass


class BoomBase(BaseException):
    """e.g. SystemExit raised by message.fatal() while an element is open"""
    pass


NAMES = ['repository', 'namespace', 'class', 'method', 'parameters', 'parameter', 'x']


def _interp(w, ops, i, depth):
    while i < len(ops):
        op = ops[i]
        if op == 0:                       # with tagcontext(...)
            with w.tagcontext(NAMES[depth], [('name', 'n%d' % i), ('skip', None)]):
                i = _interp(w, ops, i + 1, depth + 1)
        elif op == 1:                     # end of the with block
            if depth > 0:
                return i + 1
            i += 1
        elif op == 2:                     # leaf element
            w.write_tag('leaf', [('a', 'b<&"')], None)
            i += 1
        elif op == 3:                     # leaf with text
            w.write_tag('doc', [('xml:space', 'preserve')], 'x < y & z')
            i += 1
        elif op == 4:                     # explicit push/pop pair around the rest
            w.push_tag('group', [('k', 'v')])
            w.write_tag('leaf', [])
            w.pop_tag()
            i += 1
        elif op == 5:                     # the writing code raises here
            raise Boom()
        else:                             # ... or exits (SystemExit is not an Exception)
            raise BoomBase()
    return i


def _tree_shape(el):
    return (el.tag, tuple(sorted(el.attrib.items())), (el.text or '').strip(),
            tuple(_tree_shape(c) for c in el))


def _expected(ops, i, depth, out):
    """Independent reading of the op list: list of (tag, attrs, text, children)."""
    while i < len(ops):
        op = ops[i]
        if op == 0:
            kids = []
            out.append((NAMES[depth], (('name', 'n%d' % i),), '', kids))
            i, raised = _expected(ops, i + 1, depth + 1, kids)
            if raised:
                return i, True
        elif op == 1:
            if depth > 0:
                return i + 1, False
            i += 1
        elif op == 2:
            out.append(('leaf', (('a', 'b<&"'),), '', []))
            i += 1
        elif op == 3:
            out.append(('doc', (('{http://www.w3.org/XML/1998/namespace}space', 'preserve'),),
                        'x < y & z', []))
            i += 1
        elif op == 4:
            out.append(('group', (('k', 'v'),), '', [('leaf', (), '', [])]))
            i += 1
        else:
            return i, True
    return i, False


def _freeze(lst):
    return tuple((t, a, x, _freeze(k)) for t, a, x, k in lst)


def element_stack(o0: int, o1: int, o2: int, o3: int, o4: int, o5: int, n: int):
    return _stack_check([o0, o1, o2, o3, o4, o5][:n], xmlwriter.XMLWriter())


def two_writers(o0: int, o1: int, o2: int, o3: int, n: int, when: int):
    """A second writer has an element open (when=0: opened before, closed after the first writer's
    operations; 1: opened before, closed in the middle of them is not expressible with contexts, so:
    opened and closed before; 2: created before, used after).  Each document is that of its own writer."""
    import xml.etree.ElementTree as ET
    w2 = xmlwriter.XMLWriter()
    if when == 0:
        w2.push_tag('other', [('k', 'v')])
        w2.write_tag('leaf2', [])
    elif when == 1:
        w2.push_tag('other', [('k', 'v')])
        w2.write_tag('leaf2', [])
        w2.pop_tag()
    r = _stack_check([o0, o1, o2, o3][:n], xmlwriter.XMLWriter())
    if r is not True:
        return r
    if when == 0:
        w2.pop_tag()
    elif when == 2:
        w2.push_tag('other', [('k', 'v')])
        w2.write_tag('leaf2', [])
        w2.pop_tag()
    if w2._tag_stack or w2._indent != 0:
        return 'second writer: stack/indent not restored: %r %r' % (w2._tag_stack, w2._indent)
    xml = w2.get_xml()
    try:
        root = ET.fromstring(xml.encode('utf-8'))
    except ET.ParseError as e:
        return 'second writer: not well-formed (%s): %r' % (e, xml)
    if _tree_shape(root) != ('other', (('k', 'v'),), '', (('leaf2', (), '', ()),)):
        return 'second writer: structure differs: %r' % (_tree_shape(root),)
    return True


def _stack_check(ops, w):
    import xml.etree.ElementTree as ET
    raised = False
    try:
        with w.tagcontext('root', []):
            _interp(w, ops, 0, 0)
    except (Boom, BoomBase):
        raised = True
    if w._tag_stack or w._indent != 0:
        return 'stack/indent not restored: %r %r' % (w._tag_stack, w._indent)
    xml = w.get_xml()
    try:
        root = ET.fromstring(xml.encode('utf-8'))
    except ET.ParseError as e:
        return 'not well-formed (%s): %r' % (e, xml)
    exp = []
    _, exp_raised = _expected(ops, 0, 0, exp)
    if exp_raised != raised:
        return 'raise bookkeeping'
    got = tuple(_tree_shape(c) for c in root)
    if root.tag != 'root' or got != _freeze(exp):
        return 'structure differs: %r vs %r' % (got, _freeze(exp))
    return True
