"""C13 harnesses: enumeration members and constants keep names, types, values.

Real code executed: Transformer.parse/_create_const/_create_enum/
_enum_common_prefix/_create_type_from_base/_resolve_type_from_ctype/
resolve_aliases, MainTransformer.transform, GIRWriter._write_constant/
_write_enum/_write_bitfield/_write_member (attribute lists captured at the
serialisation primitives).  Oracle: written from the property text only.
"""
from vlib import gistub
from vlib.gistub import (Scan, s_const, s_typedef, s_enum, s_enum_member,
                         t_basic, t_typedef, ast, IntStr)

gistub.stub_str_of_int()

# every integer spelling known to the scanner's own table, read at import time
_INT_FUNDAMENTALS = ('gint8', 'guint8', 'gint16', 'guint16', 'gint32', 'guint32',
                     'gint64', 'guint64', 'gchar', 'gshort', 'gushort', 'gint',
                     'guint', 'glong', 'gulong', 'gsize', 'gssize', 'gintptr',
                     'guintptr', 'long long', 'unsigned long long', 'gunichar',
                     'time_t', 'off_t', 'dev_t', 'gid_t', 'pid_t', 'socklen_t',
                     'uid_t')
INT_SPELLINGS = sorted(k for k, v in ast.type_names.items()
                       if v.target_fundamental in _INT_FUNDAMENTALS and '*' not in k)
N_SPELLINGS = len(INT_SPELLINGS)

# unsigned types whose width the introspection type name fixes
FIXED_UNSIGNED = {'guint8': 8, 'guint16': 16, 'guint32': 32, 'guint64': 64}
# unsigned types of platform-dependent width (only non-negativity can be asked)
PLATFORM_UNSIGNED = ('gushort', 'guint', 'gulong', 'gsize', 'guintptr',
                     'unsigned long long')


def spelling_class(spelling):
    f = ast.type_names[spelling].target_fundamental
    if f in FIXED_UNSIGNED:
        return 'fixed-unsigned'
    if f in PLATFORM_UNSIGNED:
        return 'platform-unsigned'
    return 'signed-or-other'


def _emit_constant(spelling_idx, chain, v):
    """Run the real pipeline for `#define FOO_C ((T) v)`; T reached through
    `chain` typedef aliases declared in the scanned namespace."""
    sc = Scan()
    syms = []
    if spelling_idx < 0:
        base = None
        spelling = None
    else:
        spelling = INT_SPELLINGS[spelling_idx]
        base = t_basic(spelling)
        if chain >= 1:
            syms.append(s_typedef('FooAliasOne', t_basic(spelling)))
            base = t_typedef('FooAliasOne')
        if chain >= 2:
            syms.append(s_typedef('FooAliasTwo', t_typedef('FooAliasOne')))
            base = t_typedef('FooAliasTwo')
    syms.append(s_const('FOO_C', base_type=base, const_int=v))
    sc.parse(syms)
    if not sc.transform():
        return None, spelling, sc
    root = sc.write()
    consts = [e for e in root.iter() if e.tag == 'constant']
    return consts, spelling, sc


def const_int(spelling_idx: int, chain: int, v: int):
    """One integer constant of declared type INT_SPELLINGS[spelling_idx]
    (-1: no declared type), any value v."""
    consts, spelling, sc = _emit_constant(spelling_idx, chain, v)
    if consts is None:
        return 'pipeline aborted: %r' % (sc.fatal,)
    if len(consts) != 1:
        return 'expected one <constant>, got %d' % len(consts)
    c = consts[0]
    if c.get('name') != 'C' or c.get('c:type') != 'FOO_C':
        return 'name/c:type wrong: %r' % (c.attrs,)
    val = c.get('value')
    if not isinstance(val, IntStr):
        return 'value is not a rendered integer: %r' % (val,)
    t = c.find('type')
    if t is None:
        return 'no <type>'
    if spelling is None:
        fund = 'gint'
        if t.get('name') != 'gint':
            return 'untyped integer constant should be gint, got %r' % (t.attrs,)
    else:
        fund = ast.type_names[spelling].target_fundamental
        if chain == 0:
            if t.get('name') != fund:
                return 'type %r does not match declaration %s' % (t.attrs, spelling)
        else:
            want = 'AliasOne' if chain == 1 else 'AliasTwo'
            if t.get('name') != want:
                return 'type %r does not match declared alias %s' % (t.attrs, want)
    if fund in FIXED_UNSIGNED:
        m = 2 ** FIXED_UNSIGNED[fund]
        if not (0 <= val.v < m):
            return 'value %r outside range of %s' % (val.v, fund)
        if (val.v - v) % m != 0:
            return 'value %r not congruent to %r mod 2^%d' % (val.v, v, FIXED_UNSIGNED[fund])
    elif fund in PLATFORM_UNSIGNED:
        if val.v < 0:
            return 'negative value %r for unsigned type %s' % (val.v, fund)
        if v >= 0 and val.v != v:
            return 'non-negative value changed: %r -> %r' % (v, val.v)
    else:
        if val.v != v:
            return 'value %r differs from the value as written %r' % (val.v, v)
    return True


def const_other(kind: int, s: str, b: bool):
    """String and boolean constants: verbatim / true|false; private and
    non-header constants are not emitted."""
    sc = Scan()
    if kind == 0:
        sym = s_const('FOO_S', const_string=s)
    elif kind == 1:
        sym = s_const('FOO_S', const_boolean=b)
    elif kind == 2:
        sym = s_const('_FOO_S', const_string=s)
    else:
        sym = s_const('FOO_S', const_string=s, filename='foo.c')
    sc.parse([sym, s_const('FOO_KEEP', const_int=1)])
    if not sc.transform():
        return 'pipeline aborted'
    root = sc.write()
    consts = [e for e in root.iter() if e.tag == 'constant' and e.get('c:type') != 'FOO_KEEP']
    if kind >= 2:
        return True if not consts else 'non-public constant emitted: %r' % (consts,)
    if len(consts) != 1:
        return 'expected one constant'
    c = consts[0]
    if c.get('name') != 'S' or c.get('c:type') != 'FOO_S':
        return 'name/c:type wrong'
    t = c.find('type')
    if kind == 0:
        if c.get('value') != s:
            return 'string not verbatim: %r vs %r' % (c.get('value'), s)
        if t.get('name') != 'utf8':
            return 'string constant type %r' % (t.attrs,)
    else:
        if c.get('value') != ('true' if b else 'false'):
            return 'boolean rendered %r' % (c.get('value'),)
        if t.get('name') != 'gboolean':
            return 'boolean constant type %r' % (t.attrs,)
    return True


# --------------------------------------------------------------------------
# enumerations

WORDS = ('FOO', 'BAR', 'BAZ', 'A')

# identifiers of 1..3 words; first word is a namespace symbol prefix so that
# "strip the namespace prefix" is defined (namespace symbol prefixes: foo, bar)
def _idents(max_words, vocab):
    import itertools
    out = []
    for n in range(2, max_words + 1):
        for first in ('FOO', 'BAR'):
            if first not in vocab:
                continue
            for rest in itertools.product(vocab, repeat=n - 1):
                out.append('_'.join((first,) + rest))
    return sorted(set(out))


IDENTS3 = _idents(3, ('FOO', 'BAR', 'A'))      # 2..3 words, 24 identifiers
IDENTS2 = _idents(2, ('FOO', 'BAR', 'BAZ', 'A'))  # 2 words, 8 identifiers
IDENTSF = [i for i in IDENTS3 if i.startswith('FOO_')]   # 12 identifiers, first word FOO
POOLS = {2: IDENTS2, 3: IDENTS3, 4: IDENTSF}


def _word_prefix(a, b):
    aw, bw = a.split('_'), b.split('_')
    return len(aw) <= len(bw) and bw[:len(aw)] == aw


def _shared_words(idents):
    if len(idents) < 2:
        return 0
    ws = [i.split('_') for i in idents]
    n = 0
    while all(len(w) > n for w in ws) and len(set(w[n] for w in ws)) == 1:
        n += 1
    return n


def _expected_names(idents):
    n = _shared_words(idents)
    out = []
    for i in idents:
        w = i.split('_')
        if n == 0:
            w = w[1:]   # namespace prefix (first word is FOO or BAR by construction)
        else:
            w = w[n:]
        out.append('_'.join(w).lower())
    return out


def enum_members(pool: int, n: int, i0: int, i1: int, i2: int, i3: int,
                 v0: int, v1: int, v2: int, v3: int,
                 p0: bool, p1: bool, p2: bool, p3: bool, bitfield: bool, typedef: bool, skip_member: int = -1):
    """skip_member: index of a member that has a comment block of its own carrying (skip); it must
    still be listed (the statement asks for all public members)."""
    pool_ids = POOLS[pool]
    idx = [i0, i1, i2, i3][:n]
    vals = [v0, v1, v2, v3][:n]
    priv = [p0, p1, p2, p3][:n]
    idents = [pool_ids[i] for i in idx]
    # precondition of the property: no member is a word-prefix of another
    for a in range(n):
        for b in range(n):
            if a != b and _word_prefix(idents[a], idents[b]):
                return True
    sc = Scan(symbol_prefixes=['foo', 'bar'])
    members = [s_enum_member(idents[k], vals[k], private=priv[k]) for k in range(n)]
    if 0 <= skip_member < n:
        sc.add_block(gistub.mk_block(idents[skip_member], annotations={'skip': []}))
        sc.add_block(gistub.mk_block('FooKind', description='the enumeration'))
    sc.parse([s_enum('FooKind', members, is_bitfield=bitfield, typedef=typedef)])
    if not sc.transform():
        return 'pipeline aborted: %r' % (sc.fatal,)
    root = sc.write()
    want_tag = 'bitfield' if bitfield else 'enumeration'
    other_tag = 'enumeration' if bitfield else 'bitfield'
    els = [e for e in root.iter() if e.tag == want_tag]
    if [e for e in root.iter() if e.tag == other_tag]:
        return 'emitted as %s' % other_tag
    if len(els) != 1:
        return 'expected one <%s>, got %d (log: %r)' % (want_tag, len(els), sc.log.texts())
    e = els[0]
    if e.get('name') != 'Kind' or e.get('c:type') != 'FooKind':
        return 'enum name/c:type wrong: %r' % (e.attrs,)
    got = e.findall('member')
    pub = [k for k in range(n) if not priv[k]]
    if len(got) != len(pub):
        return 'member count %d, expected %d' % (len(got), len(pub))
    names_all = _expected_names(idents)
    pub_idents = [idents[k] for k in pub]
    names_pub = dict(zip(pub_idents, _expected_names(pub_idents)))
    for m, k in zip(got, pub):
        if m.get('c:identifier') != idents[k]:
            return 'order/identifier: got %r expected %r' % (m.get('c:identifier'), idents[k])
        val = m.get('value')
        if not (isinstance(val, IntStr) and val.v == vals[k]):
            return 'value of %s: %r, expected %r' % (idents[k], val, vals[k])
        # the statement does not say whether private members take part in the
        # shared prefix: accept either reading
        if m.get('name') not in (names_all[k], names_pub[idents[k]]):
            return 'name of %s: %r, expected %r' % (idents[k], m.get('name'),
                                                   sorted(set([names_all[k], names_pub[idents[k]]])))
    return True
