"""C11 harnesses: comment parsing never aborts, and its diagnostics point at the source.

Real code executed: GtkDocCommentBlockParser.parse_comment_blocks / parse_comment_block (whole
state machine), _parse_fields, _parse_annotations, _parse_annotation*, GtkDocAnnotatable.validate
(all _do_validate_*), message.MessageLogger.log (counting).
Input: comment blocks assembled from a vocabulary of well-formed and malformed lines
(unbalanced and nested parentheses, stray colons, deprecated tag forms, duplicates, unknown
annotations and options, missing names, non-ASCII, tabs, text without asterisk, empty lines),
placed between two good blocks.
Oracle: nothing is raised; the good blocks are returned; every diagnostic names the file and a
line inside the block it belongs to; when it quotes a line with a caret (current syntax) the
quoted text is that source line and the caret lies within it; every diagnostic is counted even
when display is suppressed.
"""
import io

from vlib import sym
from vlib.gistub import ap, install_logger, message

FIRST = (
    ' * foo_bar:', ' * foo_bar: (skip)', ' * foo_bar: (skip', ' * foo_bar: skip)', ' * foo_bar: ((skip))',
    ' * foo_bar: (skip) trailing text', ' * foo_bar (skip)', ' * foo_bar', ' * FooObj:prop: (type int)', ' * FooObj::sig:',
    ' * FooRec.field: (array fixed-size=x)', ' * SECTION:sec', ' * SECTION sec:', ' * :', ' * ::', ' *', '', ' * (skip)',
    ' * @p: misplaced parameter', ' * Returns: misplaced tag', ' * foo_bar: (rename-to)', ' * foo_bar: (attributes a=b=c)',
    ' * foo_bar:(skip)(method)', ' * caf\u00e9_\u2603: (skip)', '\t*\tfoo_bar:\t(skip)', ' * foo_bar::', ' * foo-bar-:',
    ' * FooObj|group.action:', ' * foo_bar: (skip):', '*foo_bar:',
)
LINES = (
    ' *', '', ' * @p: (out): a description', ' * @p: (out) a description', ' * @p (out): x', ' * @p:', ' * @: x',
    ' * @...: varargs', ' * @Varargs: old style', ' * @args...: named', ' * @p: (out', ' * @p: out)', ' * @p: (out))',
    ' * @p: ((out))', ' * @p: (out)(in)', ' * @p: (array length=n fixed-size=3) (element-type utf8): d',
    ' * @p: (array length)', ' * @p: (array =)', ' * @p: (attributes a=b c): d', ' * @p: (attributes)', ' * @p: (scope bogus): d',
    ' * @p: (unknownann x): d', ' * @p: (transfer): d', ' * @p: (transfer full none): d', ' * @p: (not): d',
    ' * @p: (not everything): d', ' * @p: (element-type a b c): d', ' * @p: (closure a b): d', ' * @p: (skip 1): d',
    ' * @p: second definition', ' * @returns: (transfer full): as parameter', ' * @RETURNS: upper',
    ' * Returns: (transfer full): x', ' * Returns: (transfer full', ' * Returns:', ' * Returns: (skip) (skip): dup',
    ' * Return value: old', ' * returns: lower', ' * Since: 1.2: x', ' * Since: abc', ' * Since:', ' * Since: 1.0', ' * Since: 2.0',
    ' * Deprecated: 1.0: use x', ' * Deprecated', ' * Stability: weird', ' * Stability: Stable', ' * Stability: (skip): x',
    ' * Transfer: full', ' * Rename to: foo_baz', ' * Attributes: (a b) (c)', ' * Attributes: (a b c)', ' * Type: utf8',
    ' * Value: 42', ' * Virtual: frob', ' * Description: old tag', ' * plain description text', ' * (skip) text starting with parens',
    ' * text: with colon', ' *   indented text', '*nospace', ' text without asterisk', ' * caf\u00e9 \u2603 non-ASCII',
    '\t*\ttabs\teverywhere', ' * (', ' * )', ' * @p: (', ' * ):', ' * @p: ) (', ' * trailing */ inside', ' * /** nested start',
    # characters str.splitlines() treats as line ends but the C lexer does not
    ' * form\x0cfeed and vertical\x0btab in text', ' * @q: (out): next\x85line \u2028 \u2029 separators', ' * \x1c\x1d\x1e:',
    # an annotation continued on the next line, partly well formed
    ' * @data: (in)', ' *   (out) (transfer', ' *   (nullable) extra (', ' *   (skip) (rename-to',
)
N_FIRST = len(FIRST)
N_LINES = len(LINES)
DEPRECATED_STYLE = ('transfer:', 'rename to:', 'attributes:', 'type:', 'value:', 'virtual:', 'description:',
                    'return value:', 'get value func:', 'set value func:', 'ref func:', 'unref func:')

GOOD_A = '/**\n * foo_good_a: (skip)\n * @x: (out): the x\n *\n * Good block A.\n *\n * Returns: (transfer full): ok\n */'
GOOD_B = '/**\n * foo_good_b:\n *\n * Good block B.\n */'


def _source_lines(text):
    return ap.LINE_BREAK_RE.split(text)


def _check_diagnostics(log, blocks_src):
    """blocks_src: [(text, filename, first line)]"""
    for rec in log.full:
        pos = rec['positions']
        if pos is None:
            return 'diagnostic without a position: %r' % (rec['text'],)
        plist = [pos] if isinstance(pos, message.Position) else list(pos)
        for p in plist:
            owner = [b for b in blocks_src if b[1] == p.filename and b[2] <= (p.line or 0) < b[2] + len(_source_lines(b[0]))]
            if not owner:
                return 'diagnostic %r points at %s:%r, outside every block' % (rec['text'][:60], p.filename, p.line)
            text, fname, first = owner[0]
            if _source_lines(text)[0].strip() != '/**':
                continue        # opening token not alone on its line: exempted by the statement
            if rec['marker_line'] is not None and rec['marker_pos'] is not None:
                src = _source_lines(text)[p.line - first]
                low = src.strip().lstrip('*').strip().lower()
                if any(low.startswith(d) for d in DEPRECATED_STYLE):
                    continue        # deprecated tag-style annotations: exempted by the statement
                if rec['marker_line'] != src:
                    return 'diagnostic %r at line %d quotes %r but that line is %r' % (
                        rec['text'][:60], p.line, rec['marker_line'], src)
                if not (0 <= rec['marker_pos'] <= len(src)):
                    return 'diagnostic %r: caret at %r outside the quoted line %r' % (rec['text'][:60], rec['marker_pos'], src)
    return None


def malformed(f: int, l1: int, l2: int, l3: int, n: int, eol: int):
    """A block '/**' + FIRST[f] + n of LINES[l1..l3] + ' */' between two good blocks."""
    f = sym.pick(f, 0, N_FIRST - 1)
    l1 = sym.pick(l1, 0, N_LINES - 1)
    l2 = sym.pick(l2, 0, N_LINES - 1)
    l3 = sym.pick(l3, 0, N_LINES - 1)
    n = sym.pick(n, 0, 3)
    eol = sym.pick(eol, 0, 1)
    with sym.untraced():
        return _malformed(f, l1, l2, l3, n, eol)


def _malformed(f, l1, l2, l3, n, eol):
    body = [FIRST[f]] + [LINES[i] for i in (l1, l2, l3)[:n]]
    e = ('\n', '\r\n')[eol]
    bad = e.join(['/**'] + body + [' */'])
    return _run_blocks(bad)


SPECIAL = ('/** */', '/***/', '/**', '*/', '', '/** foo_bar: (skip) */', '/** foo_bar:\n */ trailing code',
           'code(); /** foo_bar:\n */', '/**\n */', '/** foo_bar: (skip\n */', '/**\n * foo_bar:\n', '/**\n\n\n */',
           '/**\n * foo_bar:\n * @p: x */', '/** @p: x\n * foo_bar:\n */', '/*** foo_bar:\n */', '/**/ foo_bar:\n */',
           '/**\n * foo_bar:\n **/', '/**\n * foo_bar:\n ***/', '/**\r * foo_bar:\r */', '/**\n\t\t*\tfoo_bar:\n\t\t*/',
           '/**\n * \u00e9:\n */', '/**\n * foo_bar: (skip)\x00\n */', '/**\n * foo_bar: ' + '(' * 40 + '\n */',
           '/**\n * foo_bar: ' + '(skip) ' * 40 + '\n */')


def special(k: int):
    k = sym.pick(k, 0, len(SPECIAL) - 1)
    with sym.untraced():
        return _run_blocks(SPECIAL[k])


def _run_blocks(bad):
    log = install_logger()
    src = [(GOOD_A, 'a.c', 10), (bad, 'bad.c', 100), (GOOD_B, 'b.c', 30)]
    parser = ap.GtkDocCommentBlockParser()
    try:
        blocks = parser.parse_comment_blocks(src)
    except BaseException as e:      # noqa: B902 - nothing may escape, SystemExit included
        return 'parse_comment_blocks raised %s: %s on %r' % (type(e).__name__, e, bad)
    for name in ('foo_good_a', 'foo_good_b'):
        if name not in blocks:
            return 'good block %s lost next to %r' % (name, bad)
    a = blocks['foo_good_a']
    if list(a.annotations) != ['skip'] or list(a.params) != ['x'] or a.description != 'Good block A.' \
            or 'returns' not in a.tags:
        return 'good block A damaged next to %r' % (bad,)
    d = _check_diagnostics(log, src)
    if d:
        return d + ' | block %r' % (bad,)
    d = _check_not_half_applied(blocks, log, bad)
    if d:
        return d + ' | block %r' % (bad,)
    return True


def _check_not_half_applied(blocks, log, bad):
    """A line whose annotations were reported as ignored contributes no annotation."""
    lines = _source_lines(bad)
    flagged = set()
    for rec in log.full:
        if 'ignored' in rec['text'] and isinstance(rec['positions'], message.Position) \
                and rec['positions'].filename == 'bad.c':
            flagged.add(rec['positions'].line - 100)
    if not flagged:
        return None
    kept = [ln for i, ln in enumerate(lines) if i not in flagged]
    for b in blocks.values():
        if b.position.filename != 'bad.c':
            continue
        parts = [('identifier', b.annotations)] + [('@' + p.name, p.annotations) for p in b.params.values()] + \
                [(t.name, t.annotations) for t in b.tags.values()]
        for what, anns in parts:
            for name in anns:
                if not any(('(' + name) in ln or (name.replace('-', ' ') + ':') in ln.lower() for ln in kept):
                    return 'annotation (%s) of %s comes only from a line whose annotations were reported as ignored' % (name, what)
    return None


def counting(f: int, l1: int, l2: int, enable_warnings: bool):
    """The real MessageLogger: every diagnostic is counted whether or not it is displayed."""
    f = sym.pick(f, 0, N_FIRST - 1)
    l1 = sym.pick(l1, 0, N_LINES - 1)
    l2 = sym.pick(l2, 0, N_LINES - 1)
    enable_warnings = sym.flag(enable_warnings)
    with sym.untraced():
        bad = '\n'.join(['/**', FIRST[f], LINES[l1], LINES[l2], ' */'])
        # how many diagnostics there are: the recorder
        log = install_logger()
        ap.GtkDocCommentBlockParser().parse_comment_blocks([(bad, 'bad.c', 100)])
        n = len(log.full)
        out = io.StringIO()
        real = message.MessageLogger(output=out)
        real.enable_warnings(enable_warnings)
        message.MessageLogger._instance = real
        try:
            ap.GtkDocCommentBlockParser().parse_comment_blocks([(bad, 'bad.c', 100)])
        except BaseException as e:      # noqa: B902
            return 'real logger: raised %s: %s on %r' % (type(e).__name__, e, bad)
        finally:
            message.MessageLogger._instance = None
        if real.get_warning_count() != n:
            return '%d diagnostics, counted %d (display %s) for %r' % (n, real.get_warning_count(),
                                                                     'on' if enable_warnings else 'suppressed', bad)
        shown = out.getvalue()
        if not enable_warnings and shown:
            return 'suppressed diagnostics were displayed'
        if enable_warnings and n and not shown:
            return 'enabled diagnostics were not displayed'
        return True
