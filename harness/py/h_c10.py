"""C10 harnesses: well-formed GTK-Doc comment blocks are parsed exactly.

Real code executed: GtkDocCommentBlockParser.parse_comment_blocks / parse_comment_block (the whole
line-oriented state machine with every line pattern), _parse_fields, _parse_annotations,
_parse_annotation, _parse_annotation_options_list/_dict/_unknown, GtkDocAnnotatable.validate,
GtkDocCommentBlockWriter.write and the parser again.
Input: a block *model* (identifier form, identifier annotations, parameters with annotations
and descriptions, block description, tags) and a *layout* (indentation before the asterisk,
line ending, annotations on one or several lines, optional colons, wrapped descriptions), both
chosen by integer inputs; the block text is rendered from them.
Oracle: the parsed block equals the model whatever the layout; writing the parsed block with
the project's writer and parsing again gives the same block.
"""
from collections import OrderedDict

from vlib import sym
from vlib.gistub import ap, install_logger

IDENTS = ('foo_bar', 'FooObj:the-prop', 'FooObj::the-sig', 'FooRec.x_y', 'SECTION:foo_sec', 'FOO_CONST', 'FooObj')
# identifier lines may be written without the colon when nothing or only annotations follow on later lines
NO_COLON_OK = ('foo_bar', 'FooObj:the-prop', 'FooObj::the-sig', 'FooRec.x_y', 'FOO_CONST', 'FooObj')
# annotation lists: (name, options) with options a list or an ordered dict (None value = key only)
IDENT_ANNS = (
    [],
    [('skip', [])],
    [('rename-to', ['foo_baz'])],
    [('attributes', OrderedDict([('a', 'b'), ('c.d', None)]))],
    [('skip', []), ('rename-to', ['foo_baz'])],
    [('unknownann', ['p q'])],            # options of an unknown annotation stay one string
    [('attributes', OrderedDict([('demo.query', 'name==value'), ('x', 'a=b')]))],   # values containing '='
    [('transfer', ['full']), ('type', ['utf8'])],
    [('constructor', []), ('finish-func', ['foo_bar_finish'])],
    [('value', ['42'])],
)
PARAM_ANNS = (
    [],
    [('out', [])],
    [('out', ['caller-allocates']), ('transfer', ['full'])],
    [('array', OrderedDict([('length', 'n'), ('fixed-size', '3'), ('zero-terminated', '1')]))],
    [('array', OrderedDict()), ('element-type', ['utf8'])],
    [('element-type', ['utf8', 'gint'])],
    [('nullable', []), ('optional', [])],
    [('scope', ['call']), ('closure', ['data']), ('destroy', ['notify'])],
    [('attributes', OrderedDict([('k', 'v')]))],
    [('not', ['nullable'])],
    [('type', ['GLib.List(utf8)'])],
    [('inout', []), ('transfer', ['container'])],
    [('allow-none', [])],
    [('skip', [])],
)
DESCS = (None, 'some text', 'first line\nsecond line', 'text with: a colon and (parens) inside',
         'wrapped over\nthree lines\nof text', 'non-ASCII café ☃',
         'form\x0cfeed, vertical\x0btab, \x1c\x1d\x1e, next\x85line, line\u2028separator, paragraph\u2029separator inside')
BLOCK_DESCS = (None, 'One paragraph.', 'First paragraph\nwrapped.\n\nSecond paragraph.',
               'Code follows:\n|[\n  indented (code);\n]|', 'Ends with a colon:',
               'Separators\x0cinside\u2028the block\x85description.')
PARAM_SETS = ((), ('p',), ('p', 'long_name'), ('p', '...'), ('p', 'n', 'data'))
VERSIONS = (None, ('1.2', None), ('0.10', 'since text'), ('2.0', 'wrapped\nsince text'))
STABS = (None, ('Stable', None), ('Unstable', 'why'))
INDENTS = (' ', '', '   ', '\t', '  \t ')
EOLS = ('\n', '\r\n', '\r')


def _ann_text(anns, joiner=' '):
    out = []
    for name, opts in anns:
        if isinstance(opts, dict):
            o = ' '.join(k if v is None else '%s=%s' % (k, v) for k, v in opts.items())
        else:
            o = ' '.join(opts)
        out.append('(%s%s)' % (name, ' ' + o if o else ''))
    return out


def _field_lines(prefix, anns, desc, lay):
    """Lines for `prefix: (annotations): description` under a layout."""
    a = _ann_text(anns)
    lines = []
    split = lay['split'] and len(a) >= 2
    if not a:
        first = prefix + ':'
        if desc is not None:
            dl = desc.split('\n')
            first += ' ' + dl[0]
            lines = [first] + ['  ' * lay['cont_indent'] + x for x in dl[1:]]
        else:
            lines = [first]
        return lines
    colon = ':' if (desc is not None or lay['colon']) else ''
    if split:
        lines = [prefix + ': ' + a[0]] + ['  ' + x for x in a[1:-1]] + ['  ' + a[-1] + colon]
        if desc is not None:
            dl = desc.split('\n')
            lines[-1] += ' ' + dl[0]
            lines += ['  ' * lay['cont_indent'] + x for x in dl[1:]]
        return lines
    first = prefix + ': ' + ' '.join(a) + colon
    if desc is not None:
        dl = desc.split('\n')
        first += ' ' + dl[0]
        return [first] + ['  ' * lay['cont_indent'] + x for x in dl[1:]]
    return [first]


def render(model, lay):
    ind = INDENTS[lay['indent']]
    body = []
    ia = _ann_text(model['ident_anns'])
    if model['ident'].startswith('SECTION:'):
        body.append(model['ident'])
    elif not lay['colon'] and not ia:
        body.append(model['ident'])                     # the colon after a bare identifier is optional
    elif not lay['colon'] and lay['split']:
        body.append(model['ident'])                     # ... also when its annotations follow on the next lines
        body += ['  ' + x for x in ia]
    elif lay['split'] and len(ia) >= 2:
        body.append(model['ident'] + ': ' + ia[0])
        body += ['  ' + x for x in ia[1:]]
    else:
        body.append(model['ident'] + ':' + (' ' + ' '.join(ia) if ia else ''))
    for pname, anns, desc in model['params']:
        body += _field_lines('@' + pname, anns, desc, lay)
    if model['desc'] is not None:
        body.append('')
        body += model['desc'].split('\n')
    tags = []
    if model['returns'] is not None:
        tags += _field_lines('Returns', model['returns'][0], model['returns'][1], lay)
    for tname, tv in (('Since', model['since']), ('Deprecated', model['deprecated'])):
        if tv is not None:
            val, d = tv
            if d is None:
                tags.append('%s: %s' % (tname, val))
            else:
                dl = d.split('\n')
                tags.append('%s: %s: %s' % (tname, val, dl[0]))
                tags += dl[1:]
    if model['stability'] is not None:
        val, d = model['stability']
        tags.append('Stability: %s%s' % (val, ': ' + d if d else ''))
    if tags:
        body.append('')
        body += tags
    lines = ['/**']
    for b in body:
        lines.append((ind + '*' + (' ' + b if b else '')))
    lines.append(ind + '*/')
    return EOLS[lay['eol']].join(lines)


def canon(block):
    """Parsed block -> plain comparable structure."""
    def anns(a):
        out = []
        for k, v in a.items():
            if isinstance(v, dict):
                out.append((k, [(ok, ov) for ok, ov in v.items()]))
            else:
                out.append((k, list(v)))
        return out
    return {
        'name': block.name,
        'anns': anns(block.annotations),
        # an absent description is None or '' depending on whether the line had other fields
        'params': [(p.name, anns(p.annotations), p.description or None) for p in block.params.values()],
        'desc': block.description or None,
        'tags': [(t.name, anns(t.annotations), t.value, t.description or None) for t in block.tags.values()],
    }


def expected(model):
    def anns(a):
        out = []
        for k, v in a:
            if isinstance(v, dict):
                out.append((k, [(ok, ov) for ok, ov in v.items()]))
            else:
                out.append((k, list(v)))
        return out
    tags = []
    if model['returns'] is not None:
        tags.append(('returns', anns(model['returns'][0]), None, model['returns'][1]))
    for tname, tv in (('since', model['since']), ('deprecated', model['deprecated'])):
        if tv is not None:
            tags.append((tname, [], tv[0], tv[1] or None))
    if model['stability'] is not None:
        tags.append(('stability', [], model['stability'][0], model['stability'][1] or None))
    return {
        'name': model['ident'],
        'anns': anns(model['ident_anns']),
        'params': [(n, anns(a), d) for n, a, d in model['params']],
        'desc': model['desc'],
        'tags': tags,
    }


def _parse(text):
    log = install_logger()
    parser = ap.GtkDocCommentBlockParser()
    blocks = parser.parse_comment_blocks([(text, 'foo.c', 10)])
    return blocks, log


def _build(ident, ident_ann, pset, pann, pdesc, bdesc, ret_ann, ret_desc, since, deprecated, stab):
    names = PARAM_SETS[pset]
    params = []
    for i, n in enumerate(names):
        if i == 0:
            params.append((n, PARAM_ANNS[pann], DESCS[pdesc]))
        elif i == 1:
            params.append((n, PARAM_ANNS[(pann + 3) % len(PARAM_ANNS)], DESCS[(pdesc + 1) % len(DESCS)]))
        else:
            params.append((n, [], 'plain'))
    model = {'ident': IDENTS[ident], 'ident_anns': IDENT_ANNS[ident_ann], 'params': params, 'desc': BLOCK_DESCS[bdesc],
             'returns': None if ret_ann < 0 else (PARAM_ANNS[ret_ann], DESCS[ret_desc]),
             'since': VERSIONS[since], 'deprecated': VERSIONS[deprecated], 'stability': STABS[stab]}
    if model['ident'].startswith('SECTION:'):
        model['ident_anns'] = []
    return model


def _compare(got, want, what):
    for k in ('name', 'anns', 'params', 'desc', 'tags'):
        if got[k] != want[k]:
            return '%s: %s parsed as %r, model has %r' % (what, k, got[k], want[k])
    return None


def block(ident: int, ident_ann: int, pset: int, pann: int, pdesc: int, bdesc: int, ret_ann: int, ret_desc: int,
          since: int, deprecated: int, stab: int, indent: int, eol: int, split: bool, colon: bool, cont_indent: int):
    ident = sym.pick(ident, 0, len(IDENTS) - 1)
    ident_ann = sym.pick(ident_ann, 0, len(IDENT_ANNS) - 1)
    pset = sym.pick(pset, 0, len(PARAM_SETS) - 1)
    pann = sym.pick(pann, 0, len(PARAM_ANNS) - 1)
    pdesc = sym.pick(pdesc, 0, len(DESCS) - 1)
    bdesc = sym.pick(bdesc, 0, len(BLOCK_DESCS) - 1)
    ret_ann = sym.pick(ret_ann, -1, len(PARAM_ANNS) - 1)
    ret_desc = sym.pick(ret_desc, 0, len(DESCS) - 1)
    since = sym.pick(since, 0, len(VERSIONS) - 1)
    deprecated = sym.pick(deprecated, 0, len(VERSIONS) - 1)
    stab = sym.pick(stab, 0, len(STABS) - 1)
    indent = sym.pick(indent, 0, len(INDENTS) - 1)
    eol = sym.pick(eol, 0, len(EOLS) - 1)
    split = sym.flag(split)
    colon = sym.flag(colon)
    cont_indent = sym.pick(cont_indent, 0, 1)
    with sym.untraced():
        return _block(ident, ident_ann, pset, pann, pdesc, bdesc, ret_ann, ret_desc, since, deprecated, stab,
                      indent, eol, split, colon, cont_indent)


def _block(ident, ident_ann, pset, pann, pdesc, bdesc, ret_ann, ret_desc, since, deprecated, stab,
           indent, eol, split, colon, cont_indent):
    model = _build(ident, ident_ann, pset, pann, pdesc, bdesc, ret_ann, ret_desc, since, deprecated, stab)
    lay = {'indent': indent, 'eol': eol, 'split': split, 'colon': colon, 'cont_indent': cont_indent}
    text = render(model, lay)
    try:
        blocks, log = _parse(text)
    except Exception as e:
        return 'parser raised %s: %s on %r' % (type(e).__name__, e, text)
    if len(blocks) != 1:
        return 'parsed %d blocks from %r (diagnostics %r)' % (len(blocks), text, log.texts()[:3])
    b = list(blocks.values())[0]
    want = expected(model)
    if cont_indent:
        # continuation lines of parameter / return descriptions were written with two more blanks
        def ind(dsc):
            if dsc is None or '\n' not in dsc:
                return dsc
            ls = dsc.split('\n')
            return '\n'.join([ls[0]] + ['  ' + x for x in ls[1:]])
        want['params'] = [(n, a, ind(dsc)) for n, a, dsc in want['params']]
        want['tags'] = [(n, a, v, ind(dsc) if n == 'returns' else dsc) for n, a, v, dsc in want['tags']]
    d = _compare(canon(b), want, 'layout %r' % (lay,))
    if d:
        return d + ' | text %r' % (text,)
    # write with the project's writer and parse again
    try:
        written = ap.GtkDocCommentBlockWriter(indent=True).write(b)
        # (the writer ends the block with a newline for printing; the lexer hands comments over without it)
        blocks2, _ = _parse(written[:-1] if written.endswith('\n') else written)
    except Exception as e:
        return 'writer/parser raised %s: %s' % (type(e).__name__, e)
    if len(blocks2) != 1:
        return 'written block parsed into %d blocks: %r' % (len(blocks2), written)
    d = _compare(canon(list(blocks2.values())[0]), canon(b), 'after write+parse')
    if d:
        return d + ' | written %r' % (written,)
    return True
