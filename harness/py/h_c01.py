"""C01 harnesses: parameter/return annotations are reflected exactly in the GIR.

Real code executed: Transformer.parse (declarations), MainTransformer.transform
(_pass_callable_defaults, _apply_annotations_callable/_params/_param/_return/
_param_ret_common, _apply_transfer_annotation, _is_pointer_type,
_adjust_container_type, _apply_annotations_array/_element_type, _resolve,
_apply_annotations_param_callback/_closure, _pair_class_virtuals, _pass3_*),
IntrospectablePass.validate, GIRWriter._write_parameter/_write_return_type/_write_type.

Oracle (from the property text and docs/website/annotations/giannotations.rst),
stated per annotation x:
  valid at its site   -> the documented attribute has the documented value;
  not valid           -> a warning is logged and that attribute equals what the
                         same scenario emits WITHOUT x (differential baseline);
  the statement does not decide (enum values, by-value structs, va_list ...)
                      -> nothing is asserted.
"""
import pipe
from pipe import (build_callable, run_pipeline, find_callable, value_annotations, T_VARARGS,
                  N_TYPES, USER_TYPES, type_tags, TRANSFER, DIRECTION, SCOPE)
from vlib import sym

NON_POINTER = ('int', 'FooAlias', 'long long', 'long double')      # plain numbers
UNDECIDED_POINTERNESS = ('FooKind', 'va_list', 'FooRec', 'FooBadAlias')


def _first(el, tag):
    for c in el.children:
        if c.tag == tag:
            return c
    return None


class View(object):
    """What was emitted for the subject value of one run."""

    def __init__(self, o, loc, key):
        self.ok = False
        self.warnings = len(o.warnings)
        self.stopped = o.root is None
        if self.stopped:
            return
        cs = find_callable(o.root, loc)
        if len(cs) != 1:
            return
        c = cs[0]
        if loc[0] == 'field':
            c = _first(c, 'callback')
            if c is None:
                return
        self.callable = c
        pel = _first(c, 'parameters')
        self.params = [p for p in (pel.children if pel is not None else []) if p.tag == 'parameter']
        if key == 'returns':
            self.v = _first(c, 'return-value')
        else:
            m = [p for p in self.params if p.get('name') == key]
            self.v = m[0] if len(m) == 1 else None
        if self.v is None:
            return
        self.t = _first(self.v, 'type') or _first(self.v, 'array') or _first(self.v, 'varargs')
        self.ok = True

    def attr(self, name):
        return self.v.get(name)

    def index_of(self, pname):
        for i, p in enumerate(self.params):
            if p.get('name') == pname:
                return i
        return None

    def param(self, pname):
        for p in self.params:
            if p.get('name') == pname:
                return p
        return None


def _run(ckind, params, ret, key, ann):
    decls, blocks, dump, loc = build_callable(ckind, params, ret, {key: ann} if ann else {})
    o = run_pipeline(decls, blocks, dump)
    return View(o, loc, key)


def _params(pos, tkind, sib):
    """pos 0: subject is the return value; 1: first parameter; 2: after the siblings."""
    if pos == 0:
        return list(sib), tkind, 'returns'
    if pos == 1:
        return [(pipe.SUBJECT, tkind)] + list(sib), None, pipe.SUBJECT
    return list(sib) + [(pipe.SUBJECT, tkind)], None, pipe.SUBJECT


def _is_pointerish(tkind, direction, pos):
    """True / False / None (the statement does not decide)."""
    if pos != 0 and DIRECTION[direction] is not None and DIRECTION[direction][0] in ('out', 'inout'):
        return True
    label = pipe.TYPE_LABELS[tkind]
    if label in NON_POINTER:
        return False
    if label in UNDECIDED_POINTERNESS:
        return None
    return True


# ------------------------------------------------------------------------------
# transfer

def transfer(ckind: int, pos: int, tkind: int, xfer: int, direction: int, with_array: bool):
    ckind = sym.pick(ckind, 0, 4)
    pos = sym.pick(pos, 0, 2)
    tkind = sym.pick(tkind, 0, N_TYPES - 1)
    xfer = sym.pick(xfer, 1, 4)
    direction = sym.pick(direction, 0, 5)
    with_array = sym.flag(with_array)
    with sym.untraced():
        return _transfer(ckind, pos, tkind, xfer, direction, with_array)


def _transfer(ckind, pos, tkind, xfer, direction, with_array):
    if pos == 0:
        direction = 0
    if ckind == 4:
        return True     # callback fields of plain records cannot carry parameter annotations
    if 'gerror' in type_tags(tkind) or 'wkcb' in type_tags(tkind):
        return True     # role defaults (async callbacks, trailing GError**) own these values
    params, ret, key = _params(pos, tkind, [('n', 0)])
    arr = {} if with_array else None
    base_ann = value_annotations(direction=direction, array=arr)
    ann = value_annotations(transfer=xfer, direction=direction, array=arr)
    a = _run(ckind, params, ret, key, ann)
    b = _run(ckind, params, ret, key, base_ann)
    if a.stopped or b.stopped:
        return True
    if not (a.ok and b.ok):
        return 'subject value not emitted exactly once'
    want = TRANSFER[xfer]
    tags = type_tags(tkind)
    ptr = _is_pointerish(tkind, direction, pos)
    if 'wkcb' in tags or 'gerror' in tags:
        return True     # role defaults (async callbacks, trailing GError**) own these values
    if want == 'floating':
        valid = ('obj' in tags or 'variant' in tags) and not with_array
        if with_array:
            valid = None
        emitted = 'none'
    elif want == 'container':
        if with_array or 'list' in tags or 'map' in tags or 'garray' in tags:
            valid = True
        elif 'strv' in tags:
            valid = None
        else:
            valid = False
        emitted = 'container'
    else:
        valid = ptr if not with_array else (True if ptr else None)
        emitted = want
    if valid is None:
        return True
    got = a.attr('transfer-ownership')
    if valid:
        if got != emitted:
            return '(transfer %s) on %s: transfer-ownership=%r' % (want, pipe.TYPE_LABELS[tkind], got)
    else:
        if got != b.attr('transfer-ownership'):
            return 'invalid (transfer %s) on %s changed transfer-ownership: %r -> %r' % (
                want, pipe.TYPE_LABELS[tkind], b.attr('transfer-ownership'), got)
        if a.warnings <= b.warnings:
            return 'invalid (transfer %s) on %s was not reported' % (want, pipe.TYPE_LABELS[tkind])
    return True


# ------------------------------------------------------------------------------
# direction, nullable, optional, not nullable, skip

def nullability(ckind: int, pos: int, tkind: int, direction: int, nullable: bool, optional: bool,
                not_nullable: bool, skip: bool):
    ckind = sym.pick(ckind, 0, 4)
    pos = sym.pick(pos, 0, 2)
    tkind = sym.pick(tkind, 0, N_TYPES - 1)
    direction = sym.pick(direction, 0, 5)
    nullable = sym.flag(nullable)
    optional = sym.flag(optional)
    not_nullable = sym.flag(not_nullable)
    skip = sym.flag(skip)
    with sym.untraced():
        return _nullability(ckind, pos, tkind, direction, nullable, optional, not_nullable, skip)


def _nullability(ckind, pos, tkind, direction, nullable, optional, not_nullable, skip):
    if pos == 0:
        direction = 0
    if ckind == 4:
        return True
    params, ret, key = _params(pos, tkind, [('n', 0)])
    tags = type_tags(tkind)
    if 'gerror' in tags and pos == 2:
        return True     # trailing GError** is removed (C02)
    full = dict(direction=direction, nullable=nullable, optional=optional, not_nullable=not_nullable, skip=skip)
    a = _run(ckind, params, ret, key, value_annotations(**full))
    if a.stopped:
        return True
    if not a.ok:
        return 'subject value not emitted exactly once'
    label = pipe.TYPE_LABELS[tkind]
    d = DIRECTION[direction]
    # direction and caller-allocation
    if pos != 0 and d is not None:
        got_dir = a.attr('direction') or 'in'
        if got_dir != d[0]:
            return '(%s) on %s: direction=%r' % (d[0], label, got_dir)
        if d[1] == ['caller-allocates'] and a.attr('caller-allocates') != '1':
            return '(out caller-allocates): caller-allocates=%r' % a.attr('caller-allocates')
        if d[1] == ['callee-allocates'] and a.attr('caller-allocates') != '0':
            return '(out callee-allocates): caller-allocates=%r' % a.attr('caller-allocates')
    if skip and a.attr('skip') != '1':
        return '(skip) not reflected'
    if not skip and a.attr('skip') is not None:
        return 'skip="1" without (skip)'
    # nullable
    ptr = _is_pointerish(tkind, direction, pos)
    if not_nullable:
        if a.attr('nullable') is not None:
            return '(not nullable) but nullable=%r' % a.attr('nullable')
    elif nullable and ptr is not None:
        if ptr:
            if a.attr('nullable') != '1':
                return '(nullable) on %s not reflected' % label
        else:
            b = _run(ckind, params, ret, key, value_annotations(**dict(full, nullable=False)))
            if not b.ok:
                return 'baseline run failed'
            if a.attr('nullable') != b.attr('nullable'):
                return 'invalid (nullable) on %s changed nullable: %r -> %r' % (label, b.attr('nullable'),
                                                                               a.attr('nullable'))
            if a.warnings <= b.warnings:
                return 'invalid (nullable) on %s was not reported' % label
    # optional
    if optional:
        is_out = pos != 0 and d is not None and d[0] in ('out', 'inout')
        if is_out:
            if a.attr('optional') != '1':
                return '(optional) on an %s parameter not reflected' % d[0]
        else:
            b = _run(ckind, params, ret, key, value_annotations(**dict(full, optional=False)))
            if not b.ok:
                return 'baseline run failed'
            if a.attr('optional') != b.attr('optional'):
                return 'invalid (optional) changed optional: %r -> %r' % (b.attr('optional'), a.attr('optional'))
            if a.warnings <= b.warnings:
                return 'invalid (optional) on %s was not reported' % ('return value' if pos == 0 else 'in parameter')
    elif a.attr('optional') is not None:
        return 'optional=%r without (optional)' % a.attr('optional')
    return True


# ------------------------------------------------------------------------------
# arrays and element types

ZT = (None, ('zero-terminated', None), ('zero-terminated', '0'), ('zero-terminated', '1'))
ELT = (0, 1, 2, 4, 9, 13)      # indexes into USER_TYPES: none, utf8, gint, FooRec, GObject.Object, FooBar.Thing
ELT_NAME = {1: 'utf8', 2: 'gint', 4: 'Rec', 9: 'GObject.Object', 13: 'FooBar.Thing'}


def arrays(ckind: int, pos: int, tkind: int, direction: int, length: int, fixed: int, zt: int, elt: int,
           ndir: int):
    ckind = sym.pick(ckind, 0, 4)
    pos = sym.pick(pos, 0, 2)
    tkind = sym.pick(tkind, 0, N_TYPES - 1)
    direction = sym.pick(direction, 0, 5)
    length = sym.pick(length, 0, 2)
    fixed = sym.pick(fixed, 0, 2)
    zt = sym.pick(zt, 0, 3)
    elt = sym.pick(elt, 0, len(ELT) - 1)
    ndir = sym.pick(ndir, 0, 2)
    with sym.untraced():
        return _arrays(ckind, pos, tkind, direction, length, fixed, zt, elt, ndir)


def _arrays(ckind, pos, tkind, direction, length, fixed, zt, elt, ndir):
    if pos == 0:
        direction = 0
    if ckind == 4:
        return True
    tags = type_tags(tkind)
    if 'ptr' not in tags or 'cb' in tags or 'gerror' in tags:
        return True     # (array) is documented for pointer values
    # siblings: n (length candidate, int), m (int); the length parameter may carry its own direction
    sib = [('n', 14 if ndir else 0), ('m', 0)]
    params, ret, key = _params(pos, tkind, sib)
    opts = {}
    if length == 1:
        opts['length'] = 'n'
    elif length == 2:
        opts['length'] = 'm'
    if fixed:
        opts['fixed-size'] = '4' if fixed == 1 else '0'
    if ZT[zt] is not None:
        opts[ZT[zt][0]] = ZT[zt][1]
    et = [USER_TYPES[ELT[elt]]] if ELT[elt] else None
    ann = value_annotations(direction=direction, array=opts, element_type=et)
    anns = {key: ann}
    if ndir:
        anns['n'] = value_annotations(direction=(1, 2)[ndir - 1])
    decls, blocks, dump, loc = build_callable(ckind, params, ret, anns)
    o = run_pipeline(decls, blocks, dump)
    a = View(o, loc, key)
    if a.stopped:
        return True
    if not a.ok:
        return 'subject value not emitted exactly once'
    label = pipe.TYPE_LABELS[tkind]
    t = a.t
    if t is None or t.tag != 'array':
        return '(array) on %s: emitted %r' % (label, None if t is None else (t.tag, t.attrs))
    if length:
        want = a.index_of(opts['length'])
        if want is None or t.get('length') != str(want):
            return '(array length=%s): length=%r, parameter is at %r' % (opts['length'], t.get('length'), want)
        # the length parameter follows the array's direction (when the length parameter
        # carries a direction annotation of its own the two requirements can conflict
        # and the statement does not say which wins)
        if pos != 0 and not ndir:
            lp = a.param(opts['length'])
            adir = a.attr('direction') or 'in'
            if (lp.get('direction') or 'in') != adir:
                return 'length parameter %s direction %r, array direction %r' % (
                    opts['length'], lp.get('direction') or 'in', adir)
    elif t.get('length') is not None:
        return 'length=%r without a length option' % t.get('length')
    if fixed:
        if t.get('fixed-size') != opts['fixed-size']:
            return '(array fixed-size=%s): fixed-size=%r' % (opts['fixed-size'], t.get('fixed-size'))
    elif t.get('fixed-size') is not None:
        return 'fixed-size=%r without the option' % t.get('fixed-size')
    if ZT[zt] is not None:
        want_zt = '0' if ZT[zt][1] == '0' else '1'
        eff = t.get('zero-terminated')
        if eff is None:
            # GIR default when the attribute is absent: zero-terminated unless a
            # length or a fixed size is given (girepository/girparser.c, start_type)
            eff = '0' if (t.get('length') is not None or t.get('fixed-size') is not None) else '1'
        if eff != want_zt:
            return '(array zero-terminated%s): zero-terminated=%r' % (
                '' if ZT[zt][1] is None else '=' + ZT[zt][1], t.get('zero-terminated'))
    if ELT[elt]:
        e = _first(t, 'type') or _first(t, 'array')
        if e is None or e.get('name') != ELT_NAME[ELT[elt]]:
            return '(element-type %s): element %r' % (USER_TYPES[ELT[elt]], None if e is None else e.attrs)
    return True


def containers(ckind: int, pos: int, tkind: int, elt: int, elt2: int, type_override: int):
    """(element-type X [Y]) on lists / hash tables / GLib arrays and (type X) on any value."""
    ckind = sym.pick(ckind, 0, 4)
    pos = sym.pick(pos, 0, 2)
    tkind = sym.pick(tkind, 0, N_TYPES - 1)
    elt = sym.pick(elt, 0, len(ELT) - 1)
    elt2 = sym.pick(elt2, 0, len(ELT) - 1)
    type_override = sym.pick(type_override, 0, len(ELT) - 1)
    with sym.untraced():
        return _containers(ckind, pos, tkind, elt, elt2, type_override)


def _containers(ckind, pos, tkind, elt, elt2, type_override):
    if ckind == 4:
        return True
    tags = type_tags(tkind)
    if 'gerror' in tags or 'wkcb' in tags:
        return True
    params, ret, key = _params(pos, tkind, [('n', 0)])
    et = None
    if ELT[elt]:
        et = [USER_TYPES[ELT[elt]]]
        if ELT[elt2]:
            et.append(USER_TYPES[ELT[elt2]])
    ann = value_annotations(element_type=et, type_override=ELT[type_override])
    a = _run(ckind, params, ret, key, ann)
    if a.stopped:
        return True
    if not a.ok:
        return 'subject value not emitted exactly once'
    t = a.t
    label = pipe.TYPE_LABELS[tkind]
    if ELT[type_override]:
        if et is None:
            if t is None or t.tag != 'type' or t.get('name') != ELT_NAME[ELT[type_override]]:
                return '(type %s) on %s: emitted %r' % (USER_TYPES[ELT[type_override]], label,
                                                       None if t is None else (t.tag, t.attrs))
        return True
    if et is None:
        return True
    kids = [c for c in t.children if c.tag in ('type', 'array')] if t is not None else []
    if ('list' in tags or 'garray' in tags or 'strv' in tags and pos == 0) and len(et) == 1:
        if 'garray' in tags and label == 'GByteArray*':
            return True     # element of a byte array is fixed
        if len(kids) != 1 or kids[0].get('name') != ELT_NAME[ELT[elt]]:
            return '(element-type %s) on %s: element %r' % (et[0], label, [k.attrs for k in kids])
    if 'map' in tags and len(et) == 2:
        if len(kids) != 2 or kids[0].get('name') != ELT_NAME[ELT[elt]] or kids[1].get('name') != ELT_NAME[ELT[elt2]]:
            return '(element-type %s %s) on %s: %r' % (et[0], et[1], label, [k.attrs for k in kids])
    return True


# ------------------------------------------------------------------------------
# callbacks: scope / closure / destroy

REFS = (None, 'data', 'other', 'notify', 'n')
VALID_CLOSURE = ('data', 'other')     # gpointer siblings
VALID_DESTROY = ('notify',)           # GDestroyNotify sibling


def callbacks(ckind: int, tkind: int, scope: int, closure: int, destroy: int, order: int):
    ckind = sym.pick(ckind, 0, 3)
    tkind = sym.pick(tkind, 0, N_TYPES - 1)
    scope = sym.pick(scope, 0, 4)
    closure = sym.pick(closure, 0, 4)
    destroy = sym.pick(destroy, 0, 4)
    order = sym.pick(order, 0, 2)
    with sym.untraced():
        return _callbacks(ckind, tkind, scope, closure, destroy, order)


def _callbacks(ckind, tkind, scope, closure, destroy, order):
    tags = type_tags(tkind)
    if 'gerror' in tags:
        return True
    sib = [('n', 0), ('other', 9), ('data', 9), ('notify', 16)]
    subj = [(pipe.SUBJECT, tkind)]
    params = subj + sib if order == 0 else sib + subj if order == 1 else sib[:1] + subj + sib[1:]
    full = dict(scope=scope, closure=REFS[closure], destroy=REFS[destroy])
    a = _run(ckind, params, None, pipe.SUBJECT, value_annotations(**full))
    if a.stopped:
        return True
    if not a.ok:
        return 'subject parameter not emitted exactly once'
    label = pipe.TYPE_LABELS[tkind]
    is_cb = 'cb' in tags
    in_function = ckind in (0, 1, 3)       # function, method, virtual method
    if is_cb and in_function:
        if 'wkcb' in tags:
            return True     # well-known callbacks have fixed roles
        if REFS[destroy] in VALID_DESTROY:
            want = a.index_of(REFS[destroy])
            if a.attr('destroy') != str(want):
                return '(destroy %s): destroy=%r, parameter is at %r' % (REFS[destroy], a.attr('destroy'), want)
        if REFS[closure] in VALID_CLOSURE:
            want = a.index_of(REFS[closure])
            if a.attr('closure') != str(want):
                return '(closure %s): closure=%r, parameter is at %r' % (REFS[closure], a.attr('closure'), want)
        if SCOPE[scope] and not REFS[destroy]:
            # with a following GDestroyNotify sibling the role default (notified) competes; the
            # arrangement used here puts notify after the callback only for order 0/2
            notify_follows = a.index_of('notify') is not None and a.index_of('notify') > a.index_of(pipe.SUBJECT)
            if not notify_follows and a.attr('scope') != SCOPE[scope]:
                return '(scope %s): scope=%r' % (SCOPE[scope], a.attr('scope'))
        return True
    if not is_cb and in_function:
        # not valid on a non-callback parameter: reported, attribute unchanged
        for name, present in (('scope', SCOPE[scope]), ('closure', REFS[closure]), ('destroy', REFS[destroy])):
            if not present:
                continue
            less = dict(full)
            less[name] = 0 if name == 'scope' else None
            b = _run(ckind, params, None, pipe.SUBJECT, value_annotations(**less))
            if not b.ok:
                return 'baseline run failed'
            if a.attr(name) != b.attr(name):
                return 'invalid (%s) on %s changed %s: %r -> %r' % (name, label, name, b.attr(name), a.attr(name))
            if a.warnings <= b.warnings:
                return 'invalid (%s) on non-callback %s was not reported' % (name, label)
    return True


# ------------------------------------------------------------------------------
# free-form attributes

def attributes(ckind: int, pos: int, tkind: int, n_attr: int, with_value: bool, skip: bool):
    ckind = sym.pick(ckind, 0, 4)
    pos = sym.pick(pos, 0, 2)
    tkind = sym.pick(tkind, 0, N_TYPES - 1)
    n_attr = sym.pick(n_attr, 1, 2)
    with_value = sym.flag(with_value)
    skip = sym.flag(skip)
    with sym.untraced():
        return _attributes(ckind, pos, tkind, n_attr, with_value, skip)


def _attributes(ckind, pos, tkind, n_attr, with_value, skip):
    if ckind == 4:
        return True
    tags = type_tags(tkind)
    if 'gerror' in tags and pos == 2:
        return True
    params, ret, key = _params(pos, tkind, [('n', 0)])
    attrs = {'my.key': 'va lue' if with_value else None}
    if n_attr == 2:
        attrs['other'] = 'x'
    a = _run(ckind, params, ret, key, value_annotations(attributes=attrs, skip=skip))
    if a.stopped:
        return True
    if not a.ok:
        return 'subject value not emitted exactly once'
    got = [(c.get('name'), c.get('value')) for c in a.v.children if c.tag == 'attribute']
    want = [(k, v) for k, v in attrs.items() if v]
    if sorted(got) != sorted(want):
        return '(attributes %r): emitted %r' % (attrs, got)
    return True
