"""C05 harnesses: everything left introspectable is bindable; references resolve.

Real code executed: Transformer.parse (+ _create_function/_create_parameter/
_create_type_from_base/...), GDumpParser.parse on a fake dump tree,
MainTransformer.transform (all passes), IntrospectablePass.validate (all
passes), GIRWriter (attribute lists captured at the serialisation primitives).
Oracle: spec_closure.check_tree over the emitted element tree.
"""
import pipe
import spec_closure
from vlib import sym
from pipe import (build_callable, run_pipeline, find_callable, value_annotations,
                  T_VARARGS, N_TYPES, USER_TYPES, mk_block, type_tags)
from vlib.gistub import (s_typedef, t_typedef, t_ptr, t_basic, s_function, s_param, t_void,
                         s_member, FakeXml)


# violations recorded in /verif/known_findings.txt; a harness run with exempt=True
# ignores exactly these messages so that everything else is still decided on the
# inputs that trigger them
_KNOWN = ('without scope', 'gpointer (no element type)', 'list without element type')


def _verdict(o, exempt=False):
    if o.root is None:
        # fatal diagnostic or crash: no GIR is emitted, nothing to violate
        return True
    inc = spec_closure.includes_from_namespaces(o.sc.transformer._parsed_includes)
    errs = spec_closure.check_tree(o.root, inc)
    if exempt:
        errs = [e for e in errs if not any(k in e for k in _KNOWN)]
    if errs:
        return 'C05 violated: ' + '; '.join(errs[:4])
    return True


def _params_for(pos, tkind, neighbour):
    """pos 0: subject is the return value; 1: first parameter; 2: last parameter."""
    others = [('n', 0)] if neighbour == 0 else [('data', 9)] if neighbour == 1 else \
        [('notify', 16)] if neighbour == 2 else [('cb', 15)]
    if pos == 0:
        return others, tkind
    if tkind == T_VARARGS or pos == 2:
        return others + [(pipe.SUBJECT, tkind)], None
    return [(pipe.SUBJECT, tkind)] + others, None


def value_basic(ckind: int, pos: int, tkind: int, neighbour: int, skip: bool, transfer: int,
                direction: int, skip_callable: bool, exempt: bool = False):
    """One value of type TYPES[tkind] (or varargs) in a callable of kind ckind,
    with skip / transfer / direction annotations."""
    ckind = sym.pick(ckind, 0, 4)
    pos = sym.pick(pos, 0, 2)
    tkind = sym.pick(tkind, 0, N_TYPES)
    neighbour = sym.pick(neighbour, 0, 3)
    skip = sym.flag(skip)
    transfer = sym.pick(transfer, 0, 4)
    direction = sym.pick(direction, 0, 5)
    skip_callable = sym.flag(skip_callable)
    with sym.untraced():
        return _value_basic(ckind, pos, tkind, neighbour, skip, transfer, direction, skip_callable, exempt)


def _value_basic(ckind, pos, tkind, neighbour, skip, transfer, direction, skip_callable, exempt):
    if pos == 0 and tkind == T_VARARGS:
        return True
    params, ret = _params_for(pos, tkind, neighbour)
    key = 'returns' if pos == 0 else ('...' if tkind == T_VARARGS else pipe.SUBJECT)
    ann = value_annotations(transfer=transfer, direction=direction if pos else 0, skip=skip)
    decls, blocks, dump, loc = build_callable(
        ckind, params, ret, {key: ann}, callable_anns={'skip': []} if skip_callable else None)
    return _verdict(run_pipeline(decls, blocks, dump), exempt)


def value_types(ckind: int, pos: int, tkind: int, type_override: int, elt: int, elt2: int,
                array: int, transfer: int, exempt: bool = False):
    """(type X), (element-type X [Y]) and (array ...) on a value."""
    ckind = sym.pick(ckind, 0, 4)
    pos = sym.pick(pos, 0, 2)
    tkind = sym.pick(tkind, 0, N_TYPES)
    type_override = sym.pick(type_override, 0, len(USER_TYPES) - 1)
    elt = sym.pick(elt, 0, len(USER_TYPES) - 1)
    elt2 = sym.pick(elt2, 0, len(USER_TYPES) - 1)
    array = sym.pick(array, 0, 6)
    transfer = sym.pick(transfer, 0, 4)
    with sym.untraced():
        return _value_types(ckind, pos, tkind, type_override, elt, elt2, array, transfer, exempt)


def _value_types(ckind, pos, tkind, type_override, elt, elt2, array, transfer, exempt):
    if pos == 0 and tkind == T_VARARGS:
        return True
    params, ret = _params_for(pos, tkind, 0)
    key = 'returns' if pos == 0 else ('...' if tkind == T_VARARGS else pipe.SUBJECT)
    et = None
    if USER_TYPES[elt] is not None:
        et = [USER_TYPES[elt]]
        if USER_TYPES[elt2] is not None:
            et.append(USER_TYPES[elt2])
    arr = None
    if array == 1:
        arr = {}
    elif array == 2:
        arr = {'length': 'n'}
    elif array == 3:
        arr = {'length': 'missing'}
    elif array == 4:
        arr = {'fixed-size': '4'}
    elif array == 5:
        arr = {'zero-terminated': '1'}
    elif array == 6:
        arr = {'length': pipe.SUBJECT}
    ann = value_annotations(transfer=transfer, array=arr, element_type=et, type_override=type_override)
    decls, blocks, dump, loc = build_callable(ckind, params, ret, {key: ann})
    return _verdict(run_pipeline(decls, blocks, dump), exempt)


REFS = (None, 'data', 'notify', 'n', 'missing', pipe.SUBJECT, 'self')


def value_callbacks(ckind: int, tkind: int, scope: int, closure: int, destroy: int,
                    with_data: bool, with_notify: bool, order: int):
    """A (possibly callback) parameter with scope/closure/destroy annotations naming
    existing siblings, itself, the instance parameter or a missing name."""
    ckind = sym.pick(ckind, 0, 4)
    tkind = sym.pick(tkind, 0, N_TYPES)
    scope = sym.pick(scope, 0, 4)
    closure = sym.pick(closure, 0, 6)
    destroy = sym.pick(destroy, 0, 6)
    with_data = sym.flag(with_data)
    with_notify = sym.flag(with_notify)
    order = sym.pick(order, 0, 2)
    with sym.untraced():
        return _value_callbacks(ckind, tkind, scope, closure, destroy, with_data, with_notify, order)


def _value_callbacks(ckind, tkind, scope, closure, destroy, with_data, with_notify, order):
    if tkind == T_VARARGS:
        return True
    sib = [('n', 0)]
    if with_data:
        sib.append(('data', 9))
    if with_notify:
        sib.append(('notify', 16))
    subj = [(pipe.SUBJECT, tkind)]
    params = subj + sib if order == 0 else sib + subj if order == 1 else sib[:1] + subj + sib[1:]
    ann = value_annotations(scope=scope, closure=REFS[closure], destroy=REFS[destroy])
    decls, blocks, dump, loc = build_callable(ckind, params, None, {pipe.SUBJECT: ann})
    return _verdict(run_pipeline(decls, blocks, dump))


def field_types(tkind: int, type_override: int, elt: int, array: int, where: int, private: bool):
    """A data field of a record (where=0) or of the class instance struct (1)
    with (type)/(element-type)/(array) annotations given in the struct's block."""
    tkind = sym.pick(tkind, 0, N_TYPES)
    type_override = sym.pick(type_override, 0, len(USER_TYPES) - 1)
    elt = sym.pick(elt, 0, len(USER_TYPES) - 1)
    array = sym.pick(array, 0, 6)
    where = sym.pick(where, 0, 1)
    private = sym.flag(private)
    with sym.untraced():
        return _field_types(tkind, type_override, elt, array, where, private)


def _field_types(tkind, type_override, elt, array, where, private):
    if tkind == T_VARARGS:
        return True
    f = s_member('subj', pipe.mk_ctype(tkind), private=private)
    et = [USER_TYPES[elt]] if USER_TYPES[elt] is not None else None
    arr = None
    if array == 1:
        arr = {}
    elif array == 2:
        arr = {'length': 'n'}
    elif array == 3:
        arr = {'length': 'missing'}
    elif array == 4:
        arr = {'fixed-size': '4'}
    ann = value_annotations(array=arr, element_type=et, type_override=type_override)
    if where == 0:
        decls = pipe.fixed_decls(rec_extra_fields=[f])
        blocks = [mk_block('FooRec', params={'subj': (ann, None)})]
    else:
        decls = pipe.fixed_decls(rec_extra_fields=[])
        # field documented by its own block
        decls = pipe.fixed_decls(rec_extra_fields=[f])
        blocks = [mk_block('FooRec.subj', annotations=ann)]
    return _verdict(run_pipeline(decls, blocks, pipe.fixed_dump()))


GTYPES = ('gint', 'gchararray', 'GStrv', 'GObject', 'FooObj', 'FooBoxed', 'FooHidden', 'GHashTable',
          'gpointer', 'FooKind', 'void', 'GArray')


def class_members(ptype: int, pflags: int, sret: int, sparam: int, type_override: int,
                  skip_prop: bool, with_setter: bool, setter_ann: int):
    """Properties and signals from the runtime dump with arbitrary GType names
    (known, hidden, containers), property (type) override, accessor methods."""
    ptype = sym.pick(ptype, 0, len(GTYPES) - 1)
    pflags = sym.pick(pflags, 0, 15)
    sret = sym.pick(sret, 0, len(GTYPES) - 1)
    sparam = sym.pick(sparam, 0, len(GTYPES) - 1)
    type_override = sym.pick(type_override, 0, len(USER_TYPES) - 1)
    skip_prop = sym.flag(skip_prop)
    with_setter = sym.flag(with_setter)
    setter_ann = sym.pick(setter_ann, 0, 3)
    with sym.untraced():
        return _class_members(ptype, pflags, sret, sparam, type_override, skip_prop, with_setter, setter_ann)


def _class_members(ptype, pflags, sret, sparam, type_override, skip_prop, with_setter, setter_ann):
    prop = FakeXml('property', {'name': 'size', 'type': GTYPES[ptype], 'flags': str(pflags)})
    sig = FakeXml('signal', {'name': 'changed', 'return': GTYPES[sret], 'when': 'last'},
                  [FakeXml('param', {'type': 'FooObj'}), FakeXml('param', {'type': GTYPES[sparam]})])
    decls = pipe.fixed_decls()
    blocks = []
    pann = {}
    if USER_TYPES[type_override] is not None:
        pann['type'] = [USER_TYPES[type_override]]
    if skip_prop:
        pann['skip'] = []
    blocks.append(mk_block('FooObj:size', annotations=pann))
    if with_setter:
        decls.append(s_function('foo_obj_set_size', t_void(),
                                [s_param('self', t_ptr(t_typedef('FooObj'))), s_param('v', t_basic('int'))]))
        decls.append(s_function('foo_obj_get_size', t_basic('int'),
                                [s_param('self', t_ptr(t_typedef('FooObj')))]))
        if setter_ann == 1:
            blocks.append(mk_block('foo_obj_set_size', annotations={'set-property': ['size']}))
        elif setter_ann == 2:
            blocks.append(mk_block('foo_obj_set_size', annotations={'set-property': ['other']}))
        elif setter_ann == 3:
            blocks.append(mk_block('foo_obj_get_size', annotations={'get-property': ['size']}))
    dump = pipe.fixed_dump(properties=[prop], signals=[sig])
    return _verdict(run_pipeline(decls, blocks, dump))


def alias_targets(tkind: int, depth: int, skip_alias: bool, use: int):
    """typedef <T> FooMy; optionally typedef FooMy FooMy2; used as a parameter /
    return / field type."""
    tkind = sym.pick(tkind, 0, N_TYPES)
    depth = sym.pick(depth, 0, 1)
    skip_alias = sym.flag(skip_alias)
    use = sym.pick(use, 0, 3)
    with sym.untraced():
        return _alias_targets(tkind, depth, skip_alias, use)


def _alias_targets(tkind, depth, skip_alias, use):
    if tkind == T_VARARGS:
        return True
    decls = pipe.fixed_decls()
    decls.append(s_typedef('FooMy', pipe.mk_ctype(tkind)))
    name = 'FooMy'
    if depth >= 1:
        decls.append(s_typedef('FooMyTwo', t_typedef('FooMy')))
        name = 'FooMyTwo'
    blocks = []
    if skip_alias:
        blocks.append(mk_block('FooMy', annotations={'skip': []}))
    if use == 0:
        decls.append(s_function('foo_use', t_void(), [s_param('a', t_typedef(name))]))
    elif use == 1:
        decls.append(s_function('foo_use', t_typedef(name), []))
    elif use == 2:
        decls = pipe.fixed_decls(rec_extra_fields=[s_member('a', t_typedef(name))]) + decls[len(pipe.fixed_decls()):]
    return _verdict(run_pipeline(decls, blocks, pipe.fixed_dump()))


def rename_to(target: int, second: int, skip_target: bool):
    """(rename-to X) with X existing, missing, already shadowed, or itself."""
    target = sym.pick(target, 0, 4)
    second = sym.pick(second, 0, 4)
    skip_target = sym.flag(skip_target)
    with sym.untraced():
        return _rename_to(target, second, skip_target)


def _rename_to(target, second, skip_target):
    decls = pipe.fixed_decls()
    for n in ('foo_a', 'foo_b', 'foo_c'):
        decls.append(s_function(n, t_void(), [s_param('x', t_basic('int'))]))
    names = (None, 'foo_a', 'foo_b', 'foo_c', 'foo_missing')
    blocks = []
    if names[target]:
        blocks.append(mk_block('foo_b', annotations={'rename-to': [names[target]]}))
    if names[second]:
        blocks.append(mk_block('foo_c', annotations={'rename-to': [names[second]]}))
    if skip_target:
        blocks.append(mk_block('foo_a', annotations={'skip': []}))
    return _verdict(run_pipeline(decls, blocks, pipe.fixed_dump()))
