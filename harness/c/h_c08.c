/* LLSYM harness for C08: record/union layout computed by girepository/giroffsets.c
 * equals the System V x86-64 C ABI.
 *
 * The real giroffsets.c and girffi.c are #included unmodified (found through
 * -I $REPO/girepository), so the static functions compute_struct_field_offsets,
 * compute_union_field_offsets, get_*_size_alignment, compute_enum_storage_type are
 * reached through the real entry point _g_ir_node_compute_offsets().
 *
 * llsym_main() builds a GIrNode graph in fixed-shape static storage from nondet
 * integers, runs the real code on it and asserts that every size / alignment /
 * field offset equals the ABI layout, which is written here a second time,
 * independently, as branch-free C over the same nondet values (H_Exp, h_layout).
 *
 * Inputs (fixed per partition by checks/c08.py unless marked sym):
 *   top            node type of the outer record: 3 STRUCT, 4 BOXED, 7 OBJECT, 8 INTERFACE, 11 UNION
 *   k              number of members, 1..MAXK
 *   cfg_kinds      bit mask of allowed member kinds (K_*)
 *   cfg_tags       0: basic tags with a size only; 1: also void and pointer-only tags used by value
 *   cfg_enum       0: enum values fit int or unsigned int; 1: at least one enum does not; 2: any
 *   cfg_maxdims    array dimensions 1..ADIM        cfg_aelem  array element kinds allowed (1..3)
 *   cfg_unsized    1: an array may lack a fixed size
 *   cfg_ntypes     nested container types allowed (prefix of NTYPES)   cfg_nm  nested members 1..NMAX
 *   cfg_nptr       1: nested members may be pointers
 *   cfg_need_unknown  1: at least one member has no size (partitions of the "unknown layout" clause)
 *   cfg_after      1: members after the first one without size are K_BASIC or K_CBMEMBER only
 *                  (the kernel does not look at them any more; keeps those partitions small)
 *   cfg_azt        1: the zero-terminated flag of fixed-size arrays is symbolic (no influence on layout)
 *   cfg_twin       1: vacuity twin - the final assertion is false
 *   kind[i]  sym   member kind; then per kind (all sym):
 *     tagi[x] index into TAGS | ptag[x] any tag, used as pointer | eflags[x], ev0[x], ev1[x] enum or
 *     flags with two 64-bit member values | adims[i], alen[i*ADIM+d], ahas[i], aelem[i] |
 *     ntype[i], nm[i], nkind[NIDX(i,j)] | xtype[i] a non-type node
 *   x = i for the member itself or its array element, NIDX(i,j) for nested member j.
 */
#include "llsym.h"

#ifdef LLSYM_IR
#include <ffi.h>
#include "ffi_consts.h"          /* ffi_type_* = libffi's own values, read at check time */
#endif

#include "girffi.c"
#include "giroffsets.c"

#define MAXK 24
#define NMAX 3
#define ADIM 3
#define NIDX(i, j) (100 + (i) * NMAX + (j))

enum { K_BASIC, K_POINTER, K_ENUM, K_ARRAY, K_NESTED, K_CBFIELD, K_CBMEMBER, K_UNRESOLVED,
       K_NONTYPE, NKINDS };

/* ------------------------------------------------------------------ stubs (tiny C models) */

static int h_warnings;
static int h_fatal_ok;                    /* reaching _g_ir_module_fatal is the expected outcome */
static char h_who[] = "field M.n.n";
static GList h_pool[128];
static int h_pool_n;

void g_error_stub (const char *fmt, ...) { __llsym_fail (901); }
void g_assert_fail_stub (void) { __llsym_fail (902); }
void g_warning_stub (const char *fmt, ...) { h_warnings++; }
gchar *g_strdup_printf (const gchar *fmt, ...) { return h_who; }
void g_free (gpointer p) { }
const gchar *g_type_tag_to_string (GITypeTag t) { return "tag"; }
const gchar *_g_ir_node_type_to_string (GIrNodeTypeId t) { return "node"; }

GList *g_list_prepend (GList *l, gpointer d)
{
  GList *n;
  if (h_pool_n >= 128) __llsym_fail (904);
  n = &h_pool[h_pool_n++];
  n->data = d; n->next = l; n->prev = NULL;
  if (l) l->prev = n;
  return n;
}

GList *g_list_delete_link (GList *l, GList *link)
{
  GList *n;
  if (link != l) __llsym_fail (905);      /* the kernel only ever pops the head */
  n = l->next;
  if (n) n->prev = NULL;
  return n;
}

/* interface references: type->giinterface points at one of these instead of a name */
struct h_ref { GIrNode *target; };

GIrNode *_g_ir_find_node (GIrTypelibBuild *build, GIrModule *module, const char *name)
{
  return ((const struct h_ref *) name)->target;
}

/* the real one prints the message and exit(1)s: the typelib is not written */
void _g_ir_module_fatal (GIrTypelibBuild *build, guint line, const char *msg, ...)
{
  __llsym_assert (h_fatal_ok, 903);
  __llsym_output ("fatal", -1, 1);
  __llsym_exit ();
}

/* ------------------------------------------------------------------ fixed-shape storage */

static GIrModule h_module;
static GIrTypelibBuild h_build;
static GIrNodeStruct h_top_struct;
static GIrNodeBoxed h_top_boxed;
static GIrNodeInterface h_top_object;
static GIrNodeUnion h_top_union;

static GList h_mlist[MAXK];
static GIrNodeField h_fields[MAXK];
static GIrNodeType h_types[MAXK][ADIM + 1];
static GIrNodeFunction h_cbfield[MAXK], h_cbmember[MAXK];
static GIrNode h_misc[MAXK];
static struct h_ref h_refs[MAXK + 100 + MAXK * NMAX];

static GIrNodeEnum h_enums[MAXK];
static GIrNodeValue h_evalues[MAXK][2];
static GList h_evlist[MAXK][2];

static GIrNodeStruct h_nstruct[MAXK];
static GIrNodeUnion h_nunion[MAXK];
static GIrNodeBoxed h_nboxed[MAXK];
static GIrNodeInterface h_nobject[MAXK];
static GIrNodeField h_nfields[MAXK][NMAX];
static GIrNodeType h_ntypes[MAXK][NMAX];
static GList h_nlist[MAXK][NMAX];

/* ------------------------------------------------------------------ the oracle */

/* what the ABI says about one member: byte size, log2 of the alignment, or "no size" */
typedef struct { uint32_t size; uint32_t shift; int unknown; } H_Exp;

/* GITypeTag values usable for a by-value member: first those with a size, then those without */
static const int TAGS[20] = { 1, 2, 3, 4, 5, 6, 7, 8, 9, 10, 11, 12, 21,   0, 13, 14, 17, 18, 19, 20 };
#define N_SIZED_TAGS 13
/* System V x86-64: gboolean=int 4; (u)int8 1; (u)int16 2; (u)int32 4; (u)int64 8; float 4;
 * double 8; GType=gsize 8; gunichar=guint32 4.  Alignment of a scalar = its size. */
static const signed char O_SIZE[22]  = { -1, 4, 1, 1, 2, 2, 4, 4, 8, 8, 4, 8, 8, -1, -1, -1, -1, -1, -1, -1, -1, 4 };
static const signed char O_SHIFT[22] = {  0, 2, 0, 0, 1, 1, 2, 2, 3, 3, 2, 3, 3,  0,  0,  0,  0,  0,  0,  0,  0, 2 };
static const int NTYPES[5] = { G_IR_NODE_STRUCT, G_IR_NODE_UNION, G_IR_NODE_BOXED, G_IR_NODE_OBJECT,
                               G_IR_NODE_INTERFACE };
static const int XTYPES[8] = { G_IR_NODE_FUNCTION, G_IR_NODE_CONSTANT, G_IR_NODE_INVALID_0,
                               G_IR_NODE_PROPERTY, G_IR_NODE_SIGNAL, G_IR_NODE_VFUNC,
                               G_IR_NODE_XREF, G_IR_NODE_INVALID };

/* least multiple of 2^shift that is >= x */
static uint32_t h_roundup (uint32_t x, uint32_t shift)
{
  return ((x + ((1u << shift) - 1u)) >> shift) << shift;
}

/* Sequential (struct) or overlapping (union) layout of n members.
 * off[i]: expected offset of member i, meaningful while no earlier member is unknown. */
static void h_layout (int is_union, int n, const H_Exp *m, uint32_t *off, H_Exp *out)
{
  uint32_t end = 0, maxshift = 0, maxsize = 0;
  int unknown = 0, i;
  for (i = 0; i < n; i++)
    {
      uint32_t o = h_roundup (end, m[i].shift);
      unknown |= m[i].unknown;
      off[i] = is_union ? 0 : o;
      end = o + m[i].size;
      maxshift = m[i].shift > maxshift ? m[i].shift : maxshift;
      maxsize = m[i].size > maxsize ? m[i].size : maxsize;
    }
  out->size = h_roundup (is_union ? maxsize : end, maxshift);
  out->shift = maxshift;
  out->unknown = unknown;
}

/* ------------------------------------------------------------------ graph construction */

static int cfg_azt, cfg_tags, cfg_enum, cfg_maxdims, cfg_aelem, cfg_unsized, cfg_ntypes, cfg_nm, cfg_nptr;
static int h_wide_enums;

static void h_type_init (GIrNodeType *t)
{
  t->node.type = G_IR_NODE_TYPE;
  t->node.name = "t";
  t->node.module = &h_module;
}

/* a scalar type (basic by value / pointer / enumeration) into *t; x names its inputs */
static void h_scalar (int skind, int x, int slot, GIrNodeType *t, H_Exp *e)
{
  h_type_init (t);
  if (skind == K_BASIC)
    {
      int tag = TAGS[__llsym_choice ("tagi", x, cfg_tags ? 20 : N_SIZED_TAGS)];
      t->tag = tag;
      t->is_basic = 1;
      e->size = (uint32_t) O_SIZE[tag];
      e->shift = (uint32_t) O_SHIFT[tag];
      e->unknown = O_SIZE[tag] < 0;
    }
  else if (skind == K_POINTER)
    {
      t->tag = __llsym_choice ("ptag", x, 22);
      t->is_pointer = 1;
      e->size = 8; e->shift = 3; e->unknown = 0;
    }
  else /* K_ENUM */
    {
      GIrNodeEnum *en = &h_enums[slot];
      int64_t v0 = __llsym_nondet_i64 ("ev0", x), v1 = __llsym_nondet_i64 ("ev1", x);
      int64_t mx = v0 > v1 ? v0 : v1, mn = v0 < v1 ? v0 : v1;
      /* GCC: unsigned int if no value is negative and all fit it, int if all fit int,
       * otherwise a 64-bit type */
      int fits_uint = (mn >= 0) & (mx <= (int64_t) UINT32_MAX);
      int fits_int = (mn >= (int64_t) INT32_MIN) & (mx <= (int64_t) INT32_MAX);
      int fits = fits_uint | fits_int;
      if (cfg_enum == 0)
        __llsym_assume (fits);
      h_wide_enums |= !fits;
      en->node.type = __llsym_choice ("eflags", x, 2) ? G_IR_NODE_FLAGS : G_IR_NODE_ENUM;
      en->node.name = "e";
      en->node.module = &h_module;
      en->storage_type = GI_TYPE_TAG_VOID;
      h_evalues[slot][0].node.type = G_IR_NODE_VALUE; h_evalues[slot][0].value = v0;
      h_evalues[slot][1].node.type = G_IR_NODE_VALUE; h_evalues[slot][1].value = v1;
      h_evlist[slot][0].data = &h_evalues[slot][0]; h_evlist[slot][0].next = &h_evlist[slot][1];
      h_evlist[slot][1].data = &h_evalues[slot][1]; h_evlist[slot][1].prev = &h_evlist[slot][0];
      en->values = &h_evlist[slot][0];
      h_refs[x].target = (GIrNode *) en;
      t->tag = GI_TYPE_TAG_INTERFACE;
      t->is_interface = 1;
      t->giinterface = (gchar *) &h_refs[x];
      e->size = fits ? 4 : 8; e->shift = fits ? 2 : 3; e->unknown = 0;
    }
}

static GIrNode *h_container (int ntype, GIrNodeStruct *s, GIrNodeUnion *u, GIrNodeBoxed *b,
                             GIrNodeInterface *o, GList *members)
{
  GIrNode *n;
  if (ntype == G_IR_NODE_STRUCT) { s->members = members; n = &s->node; }
  else if (ntype == G_IR_NODE_UNION) { u->members = members; n = &u->node; }
  else if (ntype == G_IR_NODE_BOXED) { b->members = members; n = &b->node; }
  else { o->members = members; n = &o->node; }
  n->type = ntype;
  n->name = "n";
  n->module = &h_module;
  return n;
}

static void h_read_sa (GIrNode *n, int *size, int *alignment)
{
  if (n->type == G_IR_NODE_STRUCT) { *size = ((GIrNodeStruct *) n)->size; *alignment = ((GIrNodeStruct *) n)->alignment; }
  else if (n->type == G_IR_NODE_UNION) { *size = ((GIrNodeUnion *) n)->size; *alignment = ((GIrNodeUnion *) n)->alignment; }
  else if (n->type == G_IR_NODE_BOXED) { *size = ((GIrNodeBoxed *) n)->size; *alignment = ((GIrNodeBoxed *) n)->alignment; }
  else { *size = ((GIrNodeInterface *) n)->size; *alignment = ((GIrNodeInterface *) n)->alignment; }
}

void llsym_main (void)
{
  static H_Exp mexp[MAXK], nexp[MAXK][NMAX], want;
  static uint32_t want_off[MAXK], nwant_off[MAXK][NMAX];
  static int is_field[MAXK], nested_n[MAXK], nested_union[MAXK];
  int top = __llsym_nondet_i32 ("top", -1);
  int k = __llsym_nondet_i32 ("k", -1);
  int cfg_kinds = __llsym_nondet_i32 ("cfg_kinds", -1);
  int cfg_twin = __llsym_nondet_i32 ("cfg_twin", -1);
  int cfg_need_unknown = __llsym_nondet_i32 ("cfg_need_unknown", -1);
  int cfg_after = __llsym_nondet_i32 ("cfg_after", -1);
  int is_union = top == G_IR_NODE_UNION;
  int i, j, d, ok = 1, size, alignment;
  int seen_unknown = 0, expect_fatal = 0;
  GIrNode *topnode;

  cfg_azt = __llsym_nondet_i32 ("cfg_azt", -1);
  cfg_tags = __llsym_nondet_i32 ("cfg_tags", -1);
  cfg_enum = __llsym_nondet_i32 ("cfg_enum", -1);
  cfg_maxdims = __llsym_nondet_i32 ("cfg_maxdims", -1);
  cfg_aelem = __llsym_nondet_i32 ("cfg_aelem", -1);
  cfg_unsized = __llsym_nondet_i32 ("cfg_unsized", -1);
  cfg_ntypes = __llsym_nondet_i32 ("cfg_ntypes", -1);
  cfg_nm = __llsym_nondet_i32 ("cfg_nm", -1);
  cfg_nptr = __llsym_nondet_i32 ("cfg_nptr", -1);
  __llsym_assume (k >= 1 && k <= MAXK);
  __llsym_assume (top == G_IR_NODE_STRUCT || top == G_IR_NODE_BOXED || top == G_IR_NODE_OBJECT
                  || top == G_IR_NODE_INTERFACE || top == G_IR_NODE_UNION);
  __llsym_assume (cfg_maxdims >= 1 && cfg_maxdims <= ADIM && cfg_aelem >= 1 && cfg_aelem <= 3
                  && cfg_ntypes >= 1 && cfg_ntypes <= 5 && cfg_nm >= 1 && cfg_nm <= NMAX);

  h_module.name = "M";
  h_build.module = &h_module;

  for (i = 0; i < k; i++)
    {
      int kind = __llsym_choice ("kind", i, NKINDS);
      GIrNodeField *f = &h_fields[i];
      GIrNodeType *t = &h_types[i][0];
      H_Exp *e = &mexp[i];

      __llsym_assume ((cfg_kinds >> kind) & 1);
      if (cfg_after)
        __llsym_assume (!seen_unknown | (kind == K_BASIC) | (kind == K_CBMEMBER));
      f->node.type = G_IR_NODE_FIELD;
      f->node.name = "f";
      f->node.module = &h_module;
      f->type = t;
      h_mlist[i].data = f;
      is_field[i] = 1;

      switch (kind)
        {
        case K_BASIC:
        case K_POINTER:
        case K_ENUM:
          h_scalar (kind, i, i, t, e);
          break;

        case K_ARRAY:
          {
            int nd = cfg_maxdims > 1 ? 1 + __llsym_choice ("adims", i, cfg_maxdims) : 1;
            int has = cfg_unsized ? __llsym_choice ("ahas", i, 2) : 1;
            int ek = cfg_aelem > 1 ? __llsym_choice ("aelem", i, cfg_aelem) : K_BASIC;
            int64_t count = 1;
            H_Exp ee;
            for (d = 0; d < nd; d++)
              {
                int len = __llsym_nondet_i32 ("alen", i * ADIM + d);
                __llsym_assume (len >= 1 && len <= 32768);
                count *= len;
                h_type_init (&h_types[i][d]);
                h_types[i][d].tag = GI_TYPE_TAG_ARRAY;
                h_types[i][d].is_array = 1;
                h_types[i][d].has_size = d == 0 ? has : 1;
                h_types[i][d].size = len;
                /* attributes a fixed-size C array's layout does not depend on */
                if (cfg_azt)
                  h_types[i][d].zero_terminated = __llsym_nondet_u8 ("azt", i * ADIM + d) & 1;
                h_types[i][d].parameter_type1 = &h_types[i][d + 1];
              }
            __llsym_assume (count <= (1 << 24));    /* byte size stays far inside int */
            h_scalar (ek, i, i, &h_types[i][nd], &ee);
            e->size = (uint32_t) count * ee.size;
            e->shift = ee.shift;
            e->unknown = ee.unknown | !has;
            break;
          }

        case K_NESTED:
          {
            int ntype = NTYPES[cfg_ntypes > 1 ? __llsym_choice ("ntype", i, cfg_ntypes) : 0];
            int nm = cfg_nm > 1 ? 1 + __llsym_choice ("nm", i, cfg_nm) : 1;
            for (j = 0; j < nm; j++)
              {
                GIrNodeField *nf = &h_nfields[i][j];
                int nk = cfg_nptr ? __llsym_choice ("nkind", NIDX (i, j), 2) : K_BASIC;
                nf->node.type = G_IR_NODE_FIELD;
                nf->node.name = "g";
                nf->node.module = &h_module;
                nf->type = &h_ntypes[i][j];
                h_scalar (nk, NIDX (i, j), 0, &h_ntypes[i][j], &nexp[i][j]);
                h_nlist[i][j].data = nf;
                if (j > 0)
                  {
                    h_nlist[i][j - 1].next = &h_nlist[i][j];
                    h_nlist[i][j].prev = &h_nlist[i][j - 1];
                  }
              }
            nested_n[i] = nm;
            nested_union[i] = ntype == G_IR_NODE_UNION;
            h_refs[i].target = h_container (ntype, &h_nstruct[i], &h_nunion[i], &h_nboxed[i],
                                            &h_nobject[i], &h_nlist[i][0]);
            h_type_init (t);
            t->tag = GI_TYPE_TAG_INTERFACE;
            t->is_interface = 1;
            t->giinterface = (gchar *) &h_refs[i];
            h_layout (nested_union[i], nm, nexp[i], nwant_off[i], e);
            break;
          }

        case K_CBFIELD:           /* <field><callback/></field>: a function pointer */
          h_cbfield[i].node.type = G_IR_NODE_CALLBACK;
          f->callback = &h_cbfield[i];
          f->type = NULL;
          e->size = 8; e->shift = 3; e->unknown = 0;
          break;

        case K_CBMEMBER:          /* <callback/> directly inside the record: a function pointer */
          h_cbmember[i].node.type = G_IR_NODE_CALLBACK;
          h_cbmember[i].node.name = "c";
          h_mlist[i].data = &h_cbmember[i];
          is_field[i] = 0;
          e->size = 8; e->shift = 3; e->unknown = 0;
          break;

        case K_UNRESOLVED:        /* interface type whose name resolves to nothing */
          h_type_init (t);
          t->tag = GI_TYPE_TAG_INTERFACE;
          t->is_interface = 1;
          t->giinterface = (gchar *) &h_refs[i];
          h_refs[i].target = NULL;
          e->size = 0; e->shift = 0; e->unknown = 1;
          expect_fatal |= !seen_unknown;
          break;

        default: /* K_NONTYPE */  /* interface type naming something that is not a type */
          h_type_init (t);
          t->tag = GI_TYPE_TAG_INTERFACE;
          t->is_interface = 1;
          t->giinterface = (gchar *) &h_refs[i];
          h_misc[i].type = XTYPES[__llsym_choice ("xtype", i, 8)];
          h_misc[i].name = "x";
          h_refs[i].target = &h_misc[i];
          e->size = 0; e->shift = 0; e->unknown = 1;
          break;
        }
      seen_unknown |= e->unknown;
      if (i > 0)
        {
          h_mlist[i - 1].next = &h_mlist[i];
          h_mlist[i].prev = &h_mlist[i - 1];
        }
    }
  if (cfg_enum == 1)
    __llsym_assume (h_wide_enums);
  if (cfg_need_unknown)
    __llsym_assume (seen_unknown);

  topnode = h_container (top, &h_top_struct, &h_top_union, &h_top_boxed, &h_top_object, &h_mlist[0]);
  h_fatal_ok = expect_fatal;

  _g_ir_node_compute_offsets (&h_build, topnode);          /* the code under test */

  h_read_sa (topnode, &size, &alignment);
  h_layout (is_union, k, mexp, want_off, &want);

  __llsym_output ("size", -1, size);
  __llsym_output ("align", -1, alignment);
  __llsym_output ("want_size", -1, want.unknown ? -1 : (int64_t) want.size);
  __llsym_output ("want_align", -1, want.unknown ? -1 : (int64_t) (1u << want.shift));
  /* One assertion per member, in layout order, then one for the record as a whole: each is a
   * small step from the previous (already proven) one, and the executor shares the proofs
   * between all paths with the same leading members. */
  __llsym_assert (!expect_fatal, 2);       /* the unresolved name must have been fatal */
  seen_unknown = 0;
  for (i = 0; i < k; i++)
    {
      ok = 1;
      seen_unknown |= mexp[i].unknown;
      if (is_field[i])
        {
          /* union: the kernel never touches field offsets (they stay 0);
           * struct: members from the first unknown one on get -1 */
          uint32_t w = is_union ? 0 : (seen_unknown ? (uint32_t) -1 : want_off[i]);
          __llsym_output ("off", i, h_fields[i].offset);
          __llsym_output ("want_off", i, (int32_t) w);
          ok &= (uint32_t) h_fields[i].offset == w;
        }
      /* a nested record is a record of its own: its layout is checked too, if it was computed */
      if (nested_n[i] && !seen_unknown)
        {
          int ns, na, nunk = 0;
          h_read_sa (h_refs[i].target, &ns, &na);
          __llsym_output ("nsize", i, ns);
          __llsym_output ("nalign", i, na);
          ok &= (uint32_t) ns == mexp[i].size;
          ok &= (uint32_t) na == 1u << mexp[i].shift;
          for (j = 0; j < nested_n[i]; j++)
            {
              uint32_t w;
              nunk |= nexp[i][j].unknown;
              w = nested_union[i] ? 0 : (nunk ? (uint32_t) -1 : nwant_off[i][j]);
              __llsym_output ("noff", NIDX (i, j), h_nfields[i][j].offset);
              ok &= (uint32_t) h_nfields[i][j].offset == w;
            }
        }
      __llsym_assert (ok, 10 + i);
    }
  ok = (uint32_t) size == (want.unknown ? (uint32_t) -1 : want.size);
  ok &= (uint32_t) alignment == (want.unknown ? (uint32_t) -1 : 1u << want.shift);
  __llsym_output ("warnings", -1, h_warnings);
  __llsym_assert (ok, 1);
  if (cfg_twin)
    __llsym_assert (0, 99);
}
