/* LLSYM harness for C09 (kernels): offset arithmetic of the info accessors and the attribute
 * search of the repository API.
 *
 * giobjectinfo.c, giinterfaceinfo.c, gistructinfo.c, giunioninfo.c, gienuminfo.c are #included
 * whole and unmodified; from gibaseinfo.c (whose g_info_new is stubbed here) slice.py copies
 * g_base_info_get_type, cmp_attribute, _attribute_blob_find_first,
 * g_base_info_iterate_attributes verbatim into sliced_gibaseinfo.inc.
 *
 * g_info_new (type, container, typelib, offset) returns its offset argument (and records the
 * type): the offset is the only thing an accessor computes.  _g_info_from_entry returns its
 * directory index.  The oracle is the layout described in gitypelib-internal.h, transcribed:
 *   container blob | 2 bytes per interface/prerequisite, padded to a multiple of 4 |
 *   fields (FieldBlob, followed by a CallbackBlob when has_embedded_type) | properties |
 *   methods | signals | vfuncs | constants          (enum: values | methods)
 *
 * mode: 0 object, 1 interface, 2 struct, 3 union, 4 enum, 5 attribute table.   acc: accessor.
 * Counts that the accessor only multiplies are arbitrary u16; what it walks (fields before
 * the requested one, the interface array, the attribute table) is materialised in the image.
 */
#include <string.h>
#include <stdlib.h>
#include "llsym.h"
#include <glib.h>
#include "girepository.h"
#include "girepository-private.h"
#include "gitypelib-internal.h"
#include "llsym_libc.h"

#define IMG 512
static guchar h_img[IMG];            /* the typelib image: one object of exactly typelib->len bytes */
static GITypelib h_typelib;
static GIRealInfo h_info;
static int h_new_type = -1, h_new_calls;

void g_assert_fail_stub (void) { __llsym_fail (902); }

GIBaseInfo *g_info_new (GIInfoType type, GIBaseInfo *container, GITypelib *typelib, guint32 offset)
{
  if (container != (GIBaseInfo *) &h_info || typelib != &h_typelib) __llsym_fail (930);
  h_new_type = type;
  h_new_calls++;
  return (GIBaseInfo *) (gsize) offset;
}

GIBaseInfo *_g_info_from_entry (GIRepository *repository, GITypelib *typelib, guint16 index)
{
  if (typelib != &h_typelib) __llsym_fail (931);
  h_new_calls++;
  return (GIBaseInfo *) (gsize) (0x100000u + index);
}

#include "sliced_gibaseinfo.inc"
#include "giobjectinfo.c"
#include "giinterfaceinfo.c"
#include "gistructinfo.c"
#include "giunioninfo.c"
#include "gienuminfo.c"

/* the format's blob sizes (gitypelib-internal.h; g_typelib_check_sanity asserts the same) */
enum { SZ_HEADER = 112, SZ_OBJECT = 60, SZ_INTERFACE = 40, SZ_STRUCT = 32, SZ_UNION = 40, SZ_ENUM = 24,
       SZ_FIELD = 16, SZ_CALLBACK = 12, SZ_PROPERTY = 16, SZ_FUNCTION = 20, SZ_SIGNAL = 16,
       SZ_VFUNC = 20, SZ_CONSTANT = 24, SZ_VALUE = 12, SZ_ATTRIBUTE = 12 };
_Static_assert (sizeof (Header) == SZ_HEADER && sizeof (ObjectBlob) == SZ_OBJECT
                && sizeof (InterfaceBlob) == SZ_INTERFACE && sizeof (StructBlob) == SZ_STRUCT
                && sizeof (UnionBlob) == SZ_UNION && sizeof (EnumBlob) == SZ_ENUM
                && sizeof (FieldBlob) == SZ_FIELD && sizeof (CallbackBlob) == SZ_CALLBACK
                && sizeof (PropertyBlob) == SZ_PROPERTY && sizeof (FunctionBlob) == SZ_FUNCTION
                && sizeof (SignalBlob) == SZ_SIGNAL && sizeof (VFuncBlob) == SZ_VFUNC
                && sizeof (ConstantBlob) == SZ_CONSTANT && sizeof (ValueBlob) == SZ_VALUE
                && sizeof (AttributeBlob) == SZ_ATTRIBUTE, "typelib format sizes");

enum { A_IFACE, A_FIELD, A_PROPERTY, A_METHOD, A_SIGNAL, A_VFUNC, A_CONSTANT, A_VALUE };

static uint16_t h_size (const char *name, int v, int symbolic)
{
  uint16_t s = (uint16_t) v;
  if (symbolic)
    {
      s = __llsym_nondet_u16 (name, -1);      /* symbolic, but what the format says */
      __llsym_assume (s == v);
    }
  return s;
}

static void h_header (int symbolic_sizes)
{
  Header *hd = (Header *) h_img;
  hd->object_blob_size = h_size ("object_blob_size", SZ_OBJECT, symbolic_sizes);
  hd->interface_blob_size = h_size ("interface_blob_size", SZ_INTERFACE, symbolic_sizes);
  hd->struct_blob_size = h_size ("struct_blob_size", SZ_STRUCT, symbolic_sizes);
  hd->union_blob_size = h_size ("union_blob_size", SZ_UNION, symbolic_sizes);
  hd->enum_blob_size = h_size ("enum_blob_size", SZ_ENUM, symbolic_sizes);
  hd->field_blob_size = h_size ("field_blob_size", SZ_FIELD, symbolic_sizes);
  hd->callback_blob_size = h_size ("callback_blob_size", SZ_CALLBACK, symbolic_sizes);
  hd->property_blob_size = h_size ("property_blob_size", SZ_PROPERTY, symbolic_sizes);
  hd->function_blob_size = h_size ("function_blob_size", SZ_FUNCTION, symbolic_sizes);
  hd->signal_blob_size = h_size ("signal_blob_size", SZ_SIGNAL, symbolic_sizes);
  hd->vfunc_blob_size = h_size ("vfunc_blob_size", SZ_VFUNC, symbolic_sizes);
  hd->constant_blob_size = h_size ("constant_blob_size", SZ_CONSTANT, symbolic_sizes);
  hd->value_blob_size = h_size ("value_blob_size", SZ_VALUE, symbolic_sizes);
  hd->attribute_blob_size = h_size ("attribute_blob_size", SZ_ATTRIBUTE, symbolic_sizes);
  h_typelib.data = h_img;
  h_typelib.len = IMG;
  h_info.typelib = &h_typelib;
  h_info.ref_count = 1;
}

/* count of a section the accessor only multiplies: any u16 */
static uint16_t h_count (const char *name) { return __llsym_nondet_u16 (name, -1); }

/* up to 3 FieldBlobs written at `at` the way the compiler writes them; returns their total size */
static uint32_t h_fields (uint32_t at, int n, int *callbacks)
{
  uint32_t off = at;
  int i;
  *callbacks = 0;
  for (i = 0; i < n; i++)
    {
      int emb = __llsym_pick ("embedded", i, 2);
      ((FieldBlob *) &h_img[off])->has_embedded_type = emb;
      off += SZ_FIELD + (emb ? SZ_CALLBACK : 0);       /* the CallbackBlob follows its field */
      *callbacks += emb;
    }
  return off - at;
}

static void mode_container (int mode, int acc)
{
  uint32_t base = SZ_HEADER + 4 * __llsym_pick ("pad", -1, 2);
  uint32_t want = 0, got;
  int want_type = -1, n, ncb = 0;
  GIBaseInfo *info = (GIBaseInfo *) &h_info, *r = NULL;
  h_info.offset = base;

  if (mode == 0 || mode == 1)
    {
      /* object: interfaces; interface: prerequisites - then the same sections */
      int is_obj = mode == 0;
      uint32_t blobsz = is_obj ? SZ_OBJECT : SZ_INTERFACE;
      ObjectBlob *ob = (ObjectBlob *) &h_img[base];
      InterfaceBlob *ib = (InterfaceBlob *) &h_img[base];
      uint16_t n_if, n_fields = 0, n_fcb = 0, n_prop, n_meth, n_sig, n_vf, n_const;
      uint32_t sec, fields_bytes;
      h_info.type = is_obj ? GI_INFO_TYPE_OBJECT : GI_INFO_TYPE_INTERFACE;
      if (acc == A_IFACE || acc == A_FIELD)
        n_if = (uint16_t) __llsym_pick ("n_if", -1, 4);        /* 0..3: the array / the fields are walked */
      else
        n_if = h_count ("n_if");
      sec = base + blobsz + 2 * (n_if + (n_if & 1));         /* padded to 4 bytes */
      if (is_obj && acc == A_FIELD)
        {
          n_fields = (uint16_t) __llsym_pick ("n_fields", -1, 4);
          fields_bytes = h_fields (sec, n_fields, &ncb);
          n_fcb = (uint16_t) ncb;
        }
      else if (is_obj)
        {
          n_fields = h_count ("n_fields");
          n_fcb = h_count ("n_field_callbacks");
          __llsym_assume (n_fcb <= n_fields);                /* each is one of the fields */
          fields_bytes = (uint32_t) n_fields * SZ_FIELD + (uint32_t) n_fcb * SZ_CALLBACK;
        }
      else
        fields_bytes = 0;
      n_prop = h_count ("n_properties"); n_meth = h_count ("n_methods"); n_sig = h_count ("n_signals");
      n_vf = h_count ("n_vfuncs"); n_const = h_count ("n_constants");
      if (is_obj)
        {
          ob->n_interfaces = n_if; ob->n_fields = n_fields; ob->n_field_callbacks = n_fcb;
          ob->n_properties = n_prop; ob->n_methods = n_meth; ob->n_signals = n_sig;
          ob->n_vfuncs = n_vf; ob->n_constants = n_const;
        }
      else
        {
          ib->n_prerequisites = n_if; ib->n_properties = n_prop; ib->n_methods = n_meth;
          ib->n_signals = n_sig; ib->n_vfuncs = n_vf; ib->n_constants = n_const;
        }
      if (acc == A_IFACE)
        {
          uint16_t *arr = (uint16_t *) &h_img[base + blobsz];
          int i;
          __llsym_assume (n_if >= 1);
          for (i = 0; i < n_if; i++)
            arr[i] = __llsym_nondet_u16 ("iface", i);
          n = __llsym_pick ("n", -1, n_if);
          r = is_obj ? (GIBaseInfo *) g_object_info_get_interface ((GIObjectInfo *) info, n)
                     : g_interface_info_get_prerequisite ((GIInterfaceInfo *) info, n);
          want = 0x100000u + arr[n];
        }
      else if (acc == A_FIELD)
        {
          uint32_t off = sec;
          int i;
          __llsym_assume (n_fields >= 1);
          n = __llsym_pick ("n", -1, n_fields);
          for (i = 0; i < n; i++)
            off += SZ_FIELD + (((FieldBlob *) &h_img[off])->has_embedded_type ? SZ_CALLBACK : 0);
          r = (GIBaseInfo *) g_object_info_get_field ((GIObjectInfo *) info, n);
          want = off; want_type = GI_INFO_TYPE_FIELD;
        }
      else
        {
          uint32_t start[7];
          uint16_t cnt = acc == A_PROPERTY ? n_prop : acc == A_METHOD ? n_meth : acc == A_SIGNAL ? n_sig
            : acc == A_VFUNC ? n_vf : n_const;
          uint32_t esz = acc == A_PROPERTY ? SZ_PROPERTY : acc == A_METHOD ? SZ_FUNCTION
            : acc == A_SIGNAL ? SZ_SIGNAL : acc == A_VFUNC ? SZ_VFUNC : SZ_CONSTANT;
          start[A_PROPERTY] = sec + fields_bytes;
          start[A_METHOD] = start[A_PROPERTY] + (uint32_t) n_prop * SZ_PROPERTY;
          start[A_SIGNAL] = start[A_METHOD] + (uint32_t) n_meth * SZ_FUNCTION;
          start[A_VFUNC] = start[A_SIGNAL] + (uint32_t) n_sig * SZ_SIGNAL;
          start[A_CONSTANT] = start[A_VFUNC] + (uint32_t) n_vf * SZ_VFUNC;
          n = __llsym_nondet_u16 ("n", -1);
          __llsym_assume (n < cnt);                          /* an index the section has */
          want = start[acc] + (uint32_t) n * esz;
          want_type = acc == A_PROPERTY ? GI_INFO_TYPE_PROPERTY : acc == A_METHOD ? GI_INFO_TYPE_FUNCTION
            : acc == A_SIGNAL ? GI_INFO_TYPE_SIGNAL : acc == A_VFUNC ? GI_INFO_TYPE_VFUNC : GI_INFO_TYPE_CONSTANT;
          if (is_obj)
            r = acc == A_PROPERTY ? (GIBaseInfo *) g_object_info_get_property ((GIObjectInfo *) info, n)
              : acc == A_METHOD ? (GIBaseInfo *) g_object_info_get_method ((GIObjectInfo *) info, n)
              : acc == A_SIGNAL ? (GIBaseInfo *) g_object_info_get_signal ((GIObjectInfo *) info, n)
              : acc == A_VFUNC ? (GIBaseInfo *) g_object_info_get_vfunc ((GIObjectInfo *) info, n)
              : (GIBaseInfo *) g_object_info_get_constant ((GIObjectInfo *) info, n);
          else
            r = acc == A_PROPERTY ? (GIBaseInfo *) g_interface_info_get_property ((GIInterfaceInfo *) info, n)
              : acc == A_METHOD ? (GIBaseInfo *) g_interface_info_get_method ((GIInterfaceInfo *) info, n)
              : acc == A_SIGNAL ? (GIBaseInfo *) g_interface_info_get_signal ((GIInterfaceInfo *) info, n)
              : acc == A_VFUNC ? (GIBaseInfo *) g_interface_info_get_vfunc ((GIInterfaceInfo *) info, n)
              : (GIBaseInfo *) g_interface_info_get_constant ((GIInterfaceInfo *) info, n);
        }
    }
  else if (mode == 2 || mode == 3)
    {
      /* struct / union: up to 3 materialised fields (with or without embedded callback), methods */
      int is_struct = mode == 2, i;
      int allow_emb = __llsym_nondet_i32 ("cfg_embedded", -1);      /* fixed per partition */
      uint32_t blobsz = is_struct ? SZ_STRUCT : SZ_UNION, sec = base + blobsz, off, fields_bytes;
      uint16_t n_fields = (uint16_t) __llsym_pick ("n_fields", -1, 4), n_meth = h_count ("n_methods");
      h_info.type = is_struct ? GI_INFO_TYPE_STRUCT : GI_INFO_TYPE_UNION;
      fields_bytes = h_fields (sec, n_fields, &ncb);
      __llsym_assume (allow_emb ? ncb > 0 : ncb == 0);
      if (is_struct)
        { StructBlob *b = (StructBlob *) &h_img[base]; b->n_fields = n_fields; b->n_methods = n_meth; }
      else
        { UnionBlob *b = (UnionBlob *) &h_img[base]; b->n_fields = n_fields; b->n_functions = n_meth; }
      if (acc == A_FIELD)
        {
          __llsym_assume (n_fields >= 1);
          n = __llsym_pick ("n", -1, n_fields);
          off = sec;
          for (i = 0; i < n; i++)
            off += SZ_FIELD + (((FieldBlob *) &h_img[off])->has_embedded_type ? SZ_CALLBACK : 0);
          want = off; want_type = GI_INFO_TYPE_FIELD;
          r = is_struct ? (GIBaseInfo *) g_struct_info_get_field ((GIStructInfo *) info, n)
                        : (GIBaseInfo *) g_union_info_get_field ((GIUnionInfo *) info, n);
        }
      else
        {
          n = __llsym_nondet_u16 ("n", -1);
          __llsym_assume (n < n_meth);
          want = sec + fields_bytes + (uint32_t) n * SZ_FUNCTION; want_type = GI_INFO_TYPE_FUNCTION;
          r = is_struct ? (GIBaseInfo *) g_struct_info_get_method ((GIStructInfo *) info, n)
                        : (GIBaseInfo *) g_union_info_get_method ((GIUnionInfo *) info, n);
        }
    }
  else
    {
      EnumBlob *b = (EnumBlob *) &h_img[base];
      uint16_t n_values = h_count ("n_values"), n_meth = h_count ("n_methods");
      h_info.type = __llsym_pick ("flags", -1, 2) ? GI_INFO_TYPE_FLAGS : GI_INFO_TYPE_ENUM;
      b->n_values = n_values; b->n_methods = n_meth;
      n = __llsym_nondet_u16 ("n", -1);
      if (acc == A_VALUE)
        {
          __llsym_assume (n < n_values);
          want = base + SZ_ENUM + (uint32_t) n * SZ_VALUE; want_type = GI_INFO_TYPE_VALUE;
          r = (GIBaseInfo *) g_enum_info_get_value ((GIEnumInfo *) info, n);
        }
      else
        {
          __llsym_assume (n < n_meth);
          want = base + SZ_ENUM + (uint32_t) n_values * SZ_VALUE + (uint32_t) n * SZ_FUNCTION;
          want_type = GI_INFO_TYPE_FUNCTION;
          r = (GIBaseInfo *) g_enum_info_get_method ((GIEnumInfo *) info, n);
        }
    }
  got = (uint32_t) (gsize) r;
  __llsym_output ("got", -1, got);
  __llsym_output ("want", -1, want);
  __llsym_output ("type", -1, h_new_type);
  __llsym_assert (h_new_calls == 1, 2);
  __llsym_assert (got == want, 1);
  __llsym_assert (want_type < 0 || h_new_type == want_type, 3);
}

#define AMAX 5
static void mode_attributes (int acc)
{
  Header *hd = (Header *) h_img;
  int na = __llsym_pick ("n_attributes", -1, AMAX + 1), tail = __llsym_nondet_i32 ("cfg_tail", -1);
  uint32_t table = IMG - tail - na * SZ_ATTRIBUTE;           /* `tail` bytes of strings follow it */
  uint32_t probe = __llsym_nondet_u32 ("probe", -1), off[AMAX];
  AttributeBlob *a = (AttributeBlob *) &h_img[table], *res;
  int i, first = -1, count = 0;
  __llsym_assume (tail >= 0 && tail <= 64);
  hd->attributes = table;
  hd->n_attributes = na;
  for (i = 0; i < na; i++)
    {
      off[i] = __llsym_nondet_u32 ("attr_offset", i);
      if (i > 0)
        __llsym_assume (off[i - 1] <= off[i]);               /* the compiler sorts the table */
      a[i].offset = off[i];
      a[i].name = 4 * i;                                     /* string offsets: just tell them apart */
      a[i].value = 4 * i + 1;
    }
  for (i = na - 1; i >= 0; i--)
    {
      first = off[i] == probe ? i : first;
      count += off[i] == probe;
    }
  h_info.type = GI_INFO_TYPE_OBJECT;
  h_info.offset = probe;
  if (acc == 0)
    {
      res = _attribute_blob_find_first ((GIBaseInfo *) &h_info, probe);
      __llsym_output ("found", -1, res ? (int64_t) (res - a) : -1);
      __llsym_assert (res == (first >= 0 ? &a[first] : NULL), 1);
    }
  else
    {
      GIAttributeIter it = { 0, };
      gchar *name = NULL, *value = NULL;
      int k = 0, ok = 1;
      while (g_base_info_iterate_attributes ((GIBaseInfo *) &h_info, &it, &name, &value))
        {
          /* the k-th hit is entry first+k: its name and value strings */
          ok &= (k < count) & (name == (gchar *) &h_img[4 * (first + k)]) & (value == (gchar *) &h_img[4 * (first + k) + 1]);
          k++;
          if (k > AMAX) __llsym_fail (940);
        }
      __llsym_output ("yielded", -1, k);
      __llsym_assert (ok & (k == count), 1);
    }
}

void llsym_main (void)
{
  int mode = __llsym_nondet_i32 ("mode", -1), acc = __llsym_nondet_i32 ("acc", -1);
  int twin = __llsym_nondet_i32 ("cfg_twin", -1), symsz = __llsym_nondet_i32 ("cfg_symbolic_sizes", -1);
  __llsym_assume (mode >= 0 && mode <= 5 && acc >= 0 && acc <= A_VALUE);
  h_header (symsz);
  if (mode == 5) mode_attributes (acc);
  else mode_container (mode, acc);
  if (twin)
    __llsym_assert (0, 99);
}
