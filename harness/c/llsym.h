/* Harness-side interface of LLSYM (see /verif/vlib/llsym/__init__.py).
 *
 * The same harness source is compiled twice: by clang to LLVM IR, where these
 * functions stay undefined and are interpreted by the symbolic executor, and
 * natively by gcc together with llsym_native.c, where the nondet functions read
 * their values from an input file ("name value" lines) - used for translator
 * validation and for replaying counterexamples outside the engine.
 *
 * Every nondet input has a name and an index (idx < 0: scalar "name", else
 * "name[idx]"); idx must be a concrete value at the call. */
#ifndef LLSYM_H
#define LLSYM_H
#include <stdint.h>

int32_t  __llsym_nondet_i32 (const char *name, int idx);
int64_t  __llsym_nondet_i64 (const char *name, int idx);
uint8_t  __llsym_nondet_u8  (const char *name, int idx);
uint16_t __llsym_nondet_u16 (const char *name, int idx);
uint32_t __llsym_nondet_u32 (const char *name, int idx);
uint64_t __llsym_nondet_u64 (const char *name, int idx);
/* nondet value in [0, n), n a constant <= 256; the executor hands it out in
 * case-split form so that table look-ups and comparisons with constants on it
 * are decided without solver calls */
int32_t  __llsym_choice (const char *name, int idx, int n);
/* the same input, but the executor explores one path per value and returns it concretely
 * (for lengths and shapes that drive loops) */
int32_t  __llsym_pick (const char *name, int idx, int n);

void __llsym_assume (int cond);
/* query: path condition and not cond; satisfiable => counterexample `id` */
void __llsym_assert (int cond, int id);
/* reaching this point is a failure (g_error, g_assert, ...) */
void __llsym_fail (int id) __attribute__((noreturn));
/* normal end of the path (models exit()) */
void __llsym_exit (void) __attribute__((noreturn));
/* observation: what the code under test computed ("name[idx]" = value) */
void __llsym_output (const char *name, int idx, int64_t value);

void llsym_main (void);
#endif
