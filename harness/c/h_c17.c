/* LLSYM harness for C17: the version / conflict / dependency-split kernels of
 * girepository/girepository.c.
 *
 * girepository.c does not compile whole against the shim (GObject boilerplate), so the
 * functions under test are copied verbatim out of the current file by vlib/llsym/slice.py
 * into sliced_girepository.inc (generated in the work dir on every run):
 *   parse_version, compare_version, struct NamespaceVersionCandidadate,
 *   compare_candidate_reverse, check_version_conflict, get_repository,
 *   get_registered_status, get_typelib_dependencies, load_dependencies_recurse,
 *   struct _GIRepositoryPrivate, default_repository.
 * libc calls go to the models of llsym_libc.h in the IR build, to glibc in the native twin.
 *
 * mode (fixed per partition):
 *   0 parse_version on an arbitrary NUL-terminated string of `len` bytes (len fixed)
 *   1 compare_version on two version strings of the form D+ or D+.D+
 *   2 compare_candidate_reverse on three candidates (such versions, symbolic path indices)
 *   3 get_registered_status / check_version_conflict
 *   4 load_dependencies_recurse: the Namespace-version split
 * Oracles are written here independently of the code under test (DESIGN.md C17).
 */
#include <string.h>
#include <stdlib.h>
#include "llsym.h"
#include <glib.h>
#include "girepository.h"
#include "gitypelib-internal.h"
#include "llsym_libc.h"

/* ------------------------------------------------------------------ stubs */
static void init_globals (void);
static GIRepository h_repo;
static GITypelib h_loaded_typelib, h_lazy_typelib;
static int h_is_loaded, h_is_lazy;
static char h_tag_typelibs, h_tag_lazy;
static char h_pool[256];
static int h_pool_n;
static char *h_vec[8];

void g_assert_fail_stub (void) { __llsym_fail (902); }
void g_free (gpointer p) { }
void g_strfreev (gchar **v) { }

gpointer g_hash_table_lookup (GHashTable *t, gconstpointer key)
{
  if (t == (GHashTable *) &h_tag_typelibs) return h_is_loaded ? &h_loaded_typelib : NULL;
  if (t == (GHashTable *) &h_tag_lazy) return h_is_lazy ? &h_lazy_typelib : NULL;
  __llsym_fail (910);
}

static char *h_alloc (int n)
{
  char *p = &h_pool[h_pool_n];
  if (h_pool_n + n > (int) sizeof h_pool) __llsym_fail (911);
  h_pool_n += n;
  return p;
}

gchar *g_strndup (const gchar *s, gsize n)
{
  gchar *p = h_alloc ((int) n + 1);
  gsize i;
  for (i = 0; i < n && s[i]; i++) p[i] = s[i];
  p[i] = 0;
  return p;
}

/* single-character delimiter, max_tokens 0: all the kernel uses */
gchar **g_strsplit (const gchar *s, const gchar *delim, gint max_tokens)
{
  int n = 0;
  const gchar *start = s;
  if (delim[0] == 0 || delim[1] != 0 || max_tokens != 0) __llsym_fail (912);
  if (*s == 0) { h_vec[0] = NULL; return h_vec; }
  for (;; s++)
    if (*s == delim[0] || *s == 0)
      {
        if (n >= 7) __llsym_fail (913);
        h_vec[n++] = g_strndup (start, (gsize) (s - start));
        if (*s == 0) break;
        start = s + 1;
      }
  h_vec[n] = NULL;
  return h_vec;
}

/* recorder for the dependency loads */
static struct { char ns[12]; const char *version; GIRepository *repo; } h_req[4];
static int h_nreq, h_req_ok[4];
GITypelib *g_irepository_require (GIRepository *repository, const gchar *namespace_,
                                  const gchar *version, GIRepositoryLoadFlags flags, GError **error)
{
  int i, n = h_nreq;
  if (n >= 4) __llsym_fail (914);
  for (i = 0; i < 11 && namespace_[i]; i++) h_req[n].ns[i] = namespace_[i];
  h_req[n].ns[i] = 0;
  h_req[n].version = version;
  h_req[n].repo = repository;
  h_nreq = n + 1;
  return h_req_ok[n] ? &h_loaded_typelib : NULL;
}

#include "sliced_girepository.inc"       /* the code under test */

static void init_globals (void) { default_repository = &h_repo; }

/* ------------------------------------------------------------------ inputs */

/* every string sits right-aligned in an object of its own: a read past the terminator leaves it */
static char h_vbuf[3][6];

/* version shapes (digits before the dot, digits after it; 0 = no dot), ordered by length */
static const unsigned char SHAPES[11][2] = { {1,0}, {2,0}, {3,0}, {1,1}, {4,0}, {1,2}, {2,1},
                                             {5,0}, {1,3}, {2,2}, {3,1} };
static const int NSHAPES[6] = { 0, 1, 2, 4, 7, 11 };   /* shapes of length <= index */

/* a well-formed version string into h_vbuf[x]; its numeric value as the oracle sees it */
static char *h_version (int x, int maxlen, int *major, int *minor)
{
  int shape = __llsym_pick ("shape", x, NSHAPES[maxlen]);
  int a = SHAPES[shape][0], b = SHAPES[shape][1];
  int len = a + (b ? 1 + b : 0), i, M = 0, m = 0;
  char *s = &h_vbuf[x][5 - len];
  for (i = 0; i < a; i++)
    {
      int d = '0' + __llsym_choice ("d", x * 8 + i, 10);
      s[i] = (char) d;
      M = M * 10 + (d - '0');
    }
  if (b)
    {
      s[a] = '.';
      for (i = 0; i < b; i++)
        {
          int d = '0' + __llsym_choice ("d", x * 8 + a + 1 + i, 10);
          s[a + 1 + i] = (char) d;
          m = m * 10 + (d - '0');
        }
    }
  s[len] = 0;
  *major = M;
  *minor = m;
  return s;
}

/* an arbitrary string of exactly len non-NUL bytes, right-aligned in buf[cap] */
static char *h_string (const char *name, int base, char *buf, int cap, int len)
{
  char *s = &buf[cap - 1 - len];
  int i;
  for (i = 0; i < len; i++)
    {
      uint8_t c = __llsym_nondet_u8 (name, base + i);
      __llsym_assume (c != 0);
      s[i] = (char) c;
    }
  s[len] = 0;
  return s;
}

static int sign (int x) { return (x > 0) - (x < 0); }

/* ------------------------------------------------------------------ modes */

static void mode_parse (void)
{
  int len = __llsym_nondet_i32 ("len", -1), i, major = -7, minor = -7, ret;
  int ndots = 0, dotpos = 0, alld = 1, wf, M = 0, m = 0;
  char *s;
  __llsym_assume (len >= 0 && len <= 5);
  s = h_string ("c", 0, h_vbuf[0], 6, len);

  ret = parse_version (s, &major, &minor);        /* must also stay inside the string's object */

  /* oracle: recognise D+ / D+.D+ and evaluate it, without branching on the bytes */
  for (i = 0; i < len; i++)
    {
      int isdot = s[i] == '.', isd = (s[i] >= '0') & (s[i] <= '9');
      dotpos += isdot & (ndots == 0) ? i : 0;
      ndots += isdot;
      alld &= isd | isdot;
    }
  wf = alld & (((ndots == 0) & (len >= 1)) | ((ndots == 1) & (dotpos >= 1) & (dotpos <= len - 2)));
  for (i = 0; i < len; i++)
    {
      int d = s[i] - '0', before = (ndots == 0) | (i < dotpos), after = (ndots == 1) & (i > dotpos);
      M = before ? M * 10 + d : M;
      m = after ? m * 10 + d : m;
    }
  __llsym_output ("ret", -1, ret);
  __llsym_output ("major", -1, major);
  __llsym_output ("minor", -1, ret ? minor : 0);
  __llsym_output ("wellformed", -1, wf);
  __llsym_assert (!wf | ((ret != 0) & (major == M) & (minor == m)), 1);
}

static void mode_compare (int maxlen)
{
  int M1, m1, M2, m2, r, want;
  char *v1 = h_version (0, maxlen, &M1, &m1), *v2 = h_version (1, maxlen, &M2, &m2);
  r = compare_version (v1, v2);
  want = M1 != M2 ? (M1 > M2 ? 1 : -1) : (m1 != m2 ? (m1 > m2 ? 1 : -1) : 0);
  __llsym_output ("cmp", -1, r);
  __llsym_assert (r == want, 1);
}

static void mode_candidates (int maxlen)
{
  struct NamespaceVersionCandidadate c[3];
  int M[3], m[3], r[3][3], i, j, k, ok = 1, best = 0;
  for (i = 0; i < 3; i++)
    {
      c[i].mfile = NULL;
      c[i].path = NULL;
      c[i].version = h_version (i, maxlen, &M[i], &m[i]);
      c[i].path_index = __llsym_nondet_i32 ("path_index", i);
    }
  for (i = 0; i < 3; i++)
    for (j = 0; j < 3; j++)
      {
        r[i][j] = compare_candidate_reverse (&c[i], &c[j]);
        __llsym_output ("r", i * 3 + j, r[i][j]);
      }
  /* what it must mean: i sorts before j iff i has the higher version, or the same version
   * and comes from an earlier directory */
  for (i = 0; i < 3; i++)
    for (j = 0; j < 3; j++)
      {
        int higher = (M[i] > M[j]) | ((M[i] == M[j]) & (m[i] > m[j]));
        int same = (M[i] == M[j]) & (m[i] == m[j]);
        int before = higher | (same & (c[i].path_index < c[j].path_index));
        int equal = same & (c[i].path_index == c[j].path_index);
        ok &= (r[i][j] < 0) == before;
        ok &= (r[i][j] == 0) == equal;
      }
  __llsym_assert (ok, 1);
  /* strict weak order on the values actually returned: what g_slist_sort relies on */
  ok = 1;
  for (i = 0; i < 3; i++)
    {
      ok &= r[i][i] == 0;
      for (j = 0; j < 3; j++)
        {
          ok &= sign (r[i][j]) == -sign (r[j][i]);
          for (k = 0; k < 3; k++)
            {
              ok &= !((r[i][j] < 0) & (r[j][k] < 0)) | (r[i][k] < 0);
              ok &= !((r[i][j] == 0) & (r[j][k] == 0)) | (r[i][k] == 0);
            }
        }
    }
  __llsym_assert (ok, 2);
  /* the head of the sorted list = a minimum of the order: highest version, earliest directory */
  for (i = 1; i < 3; i++)
    best = r[i][best] < 0 ? i : best;
  ok = 1;
  for (i = 0; i < 3; i++)
    {
      int higher = (M[i] > M[best]) | ((M[i] == M[best]) & (m[i] > m[best]));
      int same = (M[i] == M[best]) & (m[i] == m[best]);
      ok &= !higher & !(same & (c[i].path_index < c[best].path_index));
    }
  __llsym_output ("elected", -1, best);
  __llsym_assert (ok, 3);
}

static guchar h_data1[sizeof (Header) + 8], h_data2[sizeof (Header) + 8];

static GIRepositoryPrivate h_priv;

static void mode_conflict (void)
{
  int use_default = __llsym_choice ("use_default", -1, 2);
  int allow_lazy = __llsym_choice ("allow_lazy", -1, 2);
  int has_version = __llsym_choice ("has_version", -1, 2);
  int want_lazy = __llsym_choice ("want_lazy", -1, 2), want_conf = __llsym_choice ("want_conflict", -1, 2);
  int lenv = __llsym_pick ("lenv", -1, 6), len1 = __llsym_pick ("len1", -1, 6);
  int len2 = __llsym_pick ("len2", -1, 6), i;
  char *version, *v1, *v2, *conflict = (char *) &h_tag_lazy;
  gboolean lazy_status = 77;
  GITypelib *got, *want_t;
  char *want_c;
  int want_ls = 0, eq1 = 1, eq2 = 1;

  h_is_loaded = __llsym_choice ("loaded", -1, 2);
  h_is_lazy = __llsym_choice ("lazy", -1, 2);
  h_priv.typelibs = (GHashTable *) &h_tag_typelibs;
  h_priv.lazy_typelibs = (GHashTable *) &h_tag_lazy;
  h_repo.priv = &h_priv;
  version = h_string ("v", 0, h_vbuf[0], 6, lenv);
  /* the namespace version of the registered typelibs: last bytes of their images */
  v1 = h_string ("l", 0, (char *) h_data1, sizeof h_data1, len1);
  v2 = h_string ("z", 0, (char *) h_data2, sizeof h_data2, len2);
  h_loaded_typelib.data = h_data1;
  h_loaded_typelib.len = sizeof h_data1;
  ((Header *) h_data1)->nsversion = (guint32) (v1 - (char *) h_data1);
  h_lazy_typelib.data = h_data2;
  h_lazy_typelib.len = sizeof h_data2;
  ((Header *) h_data2)->nsversion = (guint32) (v2 - (char *) h_data2);

  got = get_registered_status (use_default ? NULL : &h_repo, "Ns", has_version ? version : NULL,
                               allow_lazy, want_lazy ? &lazy_status : NULL,
                               want_conf ? &conflict : NULL);

  /* oracle: string equality written on the bytes (both strings end at their first NUL) */
  eq1 = lenv == len1;
  eq2 = lenv == len2;
  for (i = 0; i < 5; i++)
    {
      eq1 &= (i >= lenv) | (i >= len1) | (version[i < lenv ? i : 0] == v1[i < len1 ? i : 0]);
      eq2 &= (i >= lenv) | (i >= len2) | (version[i < lenv ? i : 0] == v2[i < len2 ? i : 0]);
    }
  want_c = (char *) &h_tag_lazy;           /* untouched unless a registered typelib is examined */
  if (h_is_loaded)
    {
      want_t = (!has_version | eq1) ? &h_loaded_typelib : NULL;
      want_c = want_t ? NULL : v1;
    }
  else if (h_is_lazy)
    {
      want_ls = 1;
      if (allow_lazy)
        {
          want_t = (!has_version | eq2) ? &h_lazy_typelib : NULL;
          want_c = want_t ? NULL : v2;
        }
      else
        want_t = NULL;
    }
  else
    want_t = NULL;
  __llsym_output ("got", -1, got == NULL ? 0 : got == &h_loaded_typelib ? 1 : got == &h_lazy_typelib ? 2 : 3);
  __llsym_output ("lazy_status", -1, lazy_status);
  __llsym_output ("conflict", -1, conflict == NULL ? 0 : conflict == v1 ? 1 : conflict == v2 ? 2
                  : conflict == (char *) &h_tag_lazy ? 3 : 4);
  __llsym_assert (got == want_t, 1);
  __llsym_assert (!want_lazy | (lazy_status == want_ls), 2);
  __llsym_assert (!want_conf | (conflict == want_c), 3);
}

#define DEPMAX 7
static guchar h_data3[sizeof (Header) + 2 * DEPMAX + 3];

static void mode_split (void)
{
  int ndeps = __llsym_pick ("ndeps", -1, 3), n, i, pos, ok, want_calls = 0, ret, want_ret = 1;
  int len[2], lastdash[2];
  char *glob = (char *) h_data3 + sizeof (Header) + 1, *dep[2];
  GError *err = NULL;

  static GITypelib self;                  /* the typelib whose dependencies are loaded */
  self.data = h_data3;
  self.len = sizeof h_data3;
  /* registration state of the dependency namespaces: anything - not loaded, loaded or lazily
   * loaded, with a version equal to the recorded one or not (three arbitrary bytes).  The
   * property wants every recorded dependency required AT THE RECORDED VERSION, so that a
   * loaded other version surfaces as g_irepository_require's conflict error: the kernel must
   * not decide by itself that a registered namespace is good enough. */
  h_is_loaded = __llsym_choice ("loaded", -1, 2);
  h_is_lazy = __llsym_choice ("lazy", -1, 2);
  h_priv.typelibs = (GHashTable *) &h_tag_typelibs;
  h_priv.lazy_typelibs = (GHashTable *) &h_tag_lazy;
  h_repo.priv = &h_priv;
  h_loaded_typelib.data = h_data1;
  h_loaded_typelib.len = sizeof h_data1;
  h_lazy_typelib.data = h_data1;
  h_lazy_typelib.len = sizeof h_data1;
  ((Header *) h_data1)->nsversion = sizeof (Header);
  for (i = 0; i < 3; i++)
    h_data1[sizeof (Header) + i] = __llsym_nondet_u8 ("l", i);
  h_data1[sizeof (Header) + 3] = 0;
  pos = 0;
  for (n = 0; n < ndeps; n++)
    {
      len[n] = 1 + __llsym_pick ("deplen", n, DEPMAX);
      lastdash[n] = __llsym_pick ("lastdash", n, len[n]);      /* where the last dash is */
      dep[n] = glob + pos;
      for (i = 0; i < len[n]; i++)
        {
          uint8_t c = __llsym_nondet_u8 ("dep", n * 8 + i);
          __llsym_assume (c != 0 && c != '|');
          /* the compiler writes "Namespace-version": at least one dash; earlier ones are free */
          __llsym_assume (i < lastdash[n] || (i == lastdash[n]) == (c == '-'));
          glob[pos + i] = (char) c;
        }
      pos += len[n];
      glob[pos++] = n + 1 < ndeps ? '|' : 0;
      h_req_ok[n] = __llsym_choice ("require_ok", n, 2);
    }
  ((Header *) h_data3)->dependencies = ndeps ? (guint32) (glob - (char *) h_data3) : 0;

  ret = load_dependencies_recurse (&h_repo, &self, &err);

  /* oracle: one require per entry, in order, until the first failure */
  for (n = 0; n < ndeps; n++)
    {
      want_calls += want_ret;
      want_ret &= h_req_ok[n];
    }
  __llsym_output ("ret", -1, ret);
  __llsym_output ("calls", -1, h_nreq);
  __llsym_assert ((ret != 0) == want_ret, 1);
  __llsym_assert (h_nreq == want_calls, 2);
  for (n = 0; n < want_calls && n < h_nreq; n++)
    {
      int vlen = len[n] - lastdash[n] - 1;
      ok = h_req[n].repo == &h_repo;
      /* namespace = the bytes before the last dash, version = the text after it */
      for (i = 0; i < lastdash[n]; i++)
        ok &= h_req[n].ns[i] == dep[n][i];
      ok &= h_req[n].ns[lastdash[n]] == 0;
      for (i = 0; i < vlen; i++)
        ok &= h_req[n].version[i] == dep[n][lastdash[n] + 1 + i];
      ok &= h_req[n].version[vlen] == 0;
      __llsym_output ("nslen", n, (int64_t) strlen (h_req[n].ns));
      __llsym_output ("verlen", n, (int64_t) strlen (h_req[n].version));
      __llsym_assert (ok, 10 + n);
    }
}

void llsym_main (void)
{
  int mode = __llsym_nondet_i32 ("mode", -1);
  int maxlen = __llsym_nondet_i32 ("cfg_maxlen", -1);
  int twin = __llsym_nondet_i32 ("cfg_twin", -1);
  __llsym_assume (maxlen >= 1 && maxlen <= 5);
  if (mode == 0) mode_parse ();
  else if (mode == 1) mode_compare (maxlen);
  else if (mode == 2) mode_candidates (maxlen);
  else if (mode == 3) mode_conflict ();
  else if (mode == 4) mode_split ();
  else __llsym_assume (0);
  if (twin)
    __llsym_assert (0, 99);
}
