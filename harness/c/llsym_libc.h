/* Short C models of the libc functions the sliced kernels call.  Include AFTER <string.h> /
 * <stdlib.h> and BEFORE the code under test.
 *
 * Only the IR build (-DLLSYM_IR) uses them (the calls are renamed by macros, so clang cannot
 * treat them as builtins); the native twin calls the real libc, which makes the translator
 * validation of every harness also a validation of these models against glibc. */
#ifndef LLSYM_LIBC_H
#define LLSYM_LIBC_H
#ifdef LLSYM_IR
#include <stddef.h>

static size_t h_strlen (const char *s)
{
  size_t n = 0;
  while (s[n]) n++;
  return n;
}

static int h_strcmp (const char *a, const char *b)
{
  size_t i = 0;
  while (a[i] && a[i] == b[i]) i++;
  return (int) (unsigned char) a[i] - (int) (unsigned char) b[i];
}

static int h_strncmp (const char *a, const char *b, size_t n)
{
  size_t i = 0;
  if (n == 0) return 0;
  while (i + 1 < n && a[i] && a[i] == b[i]) i++;
  return (int) (unsigned char) a[i] - (int) (unsigned char) b[i];
}

static char *h_strchr (const char *s, int c)
{
  for (;; s++)
    {
      if (*s == (char) c) return (char *) s;
      if (!*s) return NULL;
    }
}

static char *h_strrchr (const char *s, int c)
{
  const char *last = NULL;
  for (;; s++)
    {
      if (*s == (char) c) last = s;
      if (!*s) return (char *) last;
    }
}

static char *h_strstr (const char *h, const char *n)
{
  for (;; h++)
    {
      size_t i = 0;
      while (n[i] && h[i] == n[i]) i++;
      if (!n[i]) return (char *) h;
      if (!*h) return NULL;
    }
}

static int h_memcmp (const void *a, const void *b, size_t n)
{
  const unsigned char *p = a, *q = b;
  size_t i;
  for (i = 0; i < n; i++)
    if (p[i] != q[i]) return (int) p[i] - (int) q[i];
  return 0;
}

/* base 10 only, "C" locale; overflow clamps like ISO C says (LONG_MAX / LONG_MIN) */
static long h_strtol (const char *s, char **end, int base)
{
  const char *p = s;
  unsigned long acc = 0, lim, cutoff, cutlim;
  int neg = 0, any = 0, over = 0;
  if (base != 10) __llsym_fail (990);
  while (*p == ' ' || (*p >= '\t' && *p <= '\r')) p++;
  if (*p == '-') { neg = 1; p++; }
  else if (*p == '+') p++;
  lim = neg ? (unsigned long) 1 << 63 : ((unsigned long) 1 << 63) - 1;
  cutoff = lim / 10;                    /* constants: no division by a symbolic value */
  cutlim = lim % 10;
  while (*p >= '0' && *p <= '9')
    {
      unsigned long d = (unsigned long) (*p - '0');
      if (acc > cutoff || (acc == cutoff && d > cutlim)) over = 1; else acc = acc * 10 + d;
      any = 1;
      p++;
    }
  if (end) *end = (char *) (any ? p : s);
  if (over) acc = lim;
  return neg ? (long) (0 - acc) : (long) acc;
}

static void *h_bsearch (const void *key, const void *base, size_t n, size_t size,
                        int (*cmp) (const void *, const void *))
{
  size_t lo = 0, hi = n;            /* glibc's algorithm: midpoint of [lo, hi) */
  while (lo < hi)
    {
      size_t mid = (lo + hi) / 2;
      const void *p = (const char *) base + mid * size;
      int c = cmp (key, p);
      if (c < 0) hi = mid;
      else if (c > 0) lo = mid + 1;
      else return (void *) p;
    }
  return NULL;
}

#define strlen h_strlen
#define strcmp h_strcmp
#define strncmp h_strncmp
#define strchr h_strchr
#define strrchr h_strrchr
#define strstr h_strstr
#define memcmp h_memcmp
#define strtol h_strtol
#define bsearch h_bsearch
#endif
#endif
