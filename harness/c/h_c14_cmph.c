/* Native-only companion of the C14 check: does the perfect-hash contract that h_c14.c assumes
 * of cmph_search_packed hold for the real code?
 *
 * gthash.c is #included whole and linked with the repository's girepository/cmph/ sources
 * (built by checks/c14.py from the current tree); GHashTable is a tiny insertion-ordered string map
 * defined here.  Generated names (short, long, prefix-related, near-colliding) are packed with
 * _gi_typelib_hash_builder_*; then
 *   - cmph_search_packed must map the names to pairwise distinct values < n       (the contract)
 *   - _gi_typelib_hash_search must return each name's own index
 *   - for absent keys it must return some index < n (the caller's strcmp rejects it).
 * usage: <exe> <n> <seed>     prints "OK n=<n> ..." or "FAIL ..." (exit 1)
 */
#include <stdio.h>
#include <stdlib.h>
#include <string.h>
#include <glib.h>
#include <glib-object.h>

/* ---- the few GLib functions gthash.c uses */
struct _GHashTable { char **keys; gpointer *vals; guint n, cap; };
typedef guint (*GHashFunc) (gconstpointer);
typedef gboolean (*GEqualFunc) (gconstpointer, gconstpointer);
guint g_str_hash (gconstpointer v) { return 0; }
gboolean g_str_equal (gconstpointer a, gconstpointer b) { return strcmp (a, b) == 0; }
gpointer g_malloc (gsize n) { void *p = malloc (n ? n : 1); if (!p) abort (); return p; }
gpointer g_malloc0 (gsize n) { void *p = calloc (n ? n : 1, 1); if (!p) abort (); return p; }
gpointer g_malloc_n (gsize a, gsize b) { return g_malloc (a * b); }
gpointer g_malloc0_n (gsize a, gsize b) { return g_malloc0 (a * b); }
void g_free (gpointer p) { free (p); }
gchar *g_strdup (const gchar *s) { gchar *p = g_malloc (strlen (s) + 1); strcpy (p, s); return p; }
void g_assert_fail_stub (void) { printf ("FAIL g_assert\n"); exit (1); }
GHashTable *g_hash_table_new_full (GHashFunc h, GEqualFunc e, GDestroyNotify kd, GDestroyNotify vd)
{
  return g_malloc0 (sizeof (GHashTable));
}
gboolean g_hash_table_insert (GHashTable *t, gpointer key, gpointer value)
{
  guint i;
  for (i = 0; i < t->n; i++)
    if (strcmp (t->keys[i], key) == 0) { t->vals[i] = value; return FALSE; }
  if (t->n == t->cap)
    {
      t->cap = t->cap ? 2 * t->cap : 64;
      t->keys = realloc (t->keys, t->cap * sizeof (char *));
      t->vals = realloc (t->vals, t->cap * sizeof (gpointer));
    }
  t->keys[t->n] = key; t->vals[t->n] = value; t->n++;
  return TRUE;
}
guint g_hash_table_size (GHashTable *t) { return t->n; }
void g_hash_table_destroy (GHashTable *t) { }
void g_hash_table_iter_init (GHashTableIter *it, GHashTable *t) { it->d1 = t; it->d4 = 0; }
gboolean g_hash_table_iter_next (GHashTableIter *it, gpointer *key, gpointer *value)
{
  GHashTable *t = it->d1;
  if ((guint) it->d4 >= t->n) return FALSE;
  if (key) *key = t->keys[it->d4];
  if (value) *value = t->vals[it->d4];
  it->d4++;
  return TRUE;
}

#include "gthash.c"

static unsigned long rng;
static unsigned rnd (void) { rng = rng * 6364136223846793005UL + 1442695040888963407UL; return (unsigned) (rng >> 33); }

int main (int argc, char **argv)
{
  int n = argc > 1 ? atoi (argv[1]) : 300, i, j, absent_in_range = 0;
  char (*names)[40] = calloc (n + 64, 40);
  unsigned char *seen = calloc (n, 1);
  GITypelibHashBuilder *b = _gi_typelib_hash_builder_new ();
  guint32 size;
  guint8 *mem;
  rng = argc > 2 ? strtoul (argv[2], NULL, 10) : 1;
  for (i = 0; i < n; i++)
    {
      /* mixes: short names, prefix chains, near-collisions (one character apart), long names */
      switch (i % 5)
        {
        case 0: snprintf (names[i], 40, "%c%d", 'a' + rnd () % 26, i); break;
        case 1: snprintf (names[i], 40, "Prefix%d", i); break;
        case 2: snprintf (names[i], 40, "Prefix%dX", i - 1); break;
        case 3: snprintf (names[i], 40, "n%07dq%c", i, 'a' + rnd () % 2); break;
        default: snprintf (names[i], 40, "a_rather_long_identifier_name_%d_%u", i, rnd () % 1000); break;
        }
      _gi_typelib_hash_builder_add_string (b, names[i], (guint16) i);
    }
  if (!_gi_typelib_hash_builder_prepare (b))
    {
      /* the compiler then writes no directory index (girmodule.c: "we just punt"): linear search */
      printf ("OK n=%d not buildable: no index section\n", n);
      return 0;
    }
  size = _gi_typelib_hash_builder_get_buffer_size (b);
  mem = g_malloc0 (size + 8);
  mem = (guint8 *) (((size_t) mem + 3) & ~(size_t) 3);
  _gi_typelib_hash_builder_pack (b, mem, size);
  for (i = 0; i < n; i++)
    {
      guint32 h = cmph_search_packed (((guint32 *) mem) + 1, names[i], strlen (names[i]));
      if (h >= (guint32) n || seen[h]) { printf ("FAIL contract: h(%s)=%u %s\n", names[i], h, h >= (guint32) n ? "out of range" : "not injective"); return 1; }
      seen[h] = 1;
      if (_gi_typelib_hash_search (mem, names[i], n) != i) { printf ("FAIL search(%s) != %d\n", names[i], i); return 1; }
    }
  for (j = 0; j < 2 * n; j++)
    {
      char key[48];
      guint16 r;
      snprintf (key, sizeof key, j % 2 ? "%s_" : "Z%s", names[j / 2 % n]);
      r = _gi_typelib_hash_search (mem, key, n);
      if (r >= n) { printf ("FAIL absent key %s -> index %u >= n\n", key, r); return 1; }
      absent_in_range++;
    }
  printf ("OK n=%d packed=%u absent_probes=%d\n", n, size, absent_in_range);
  return 0;
}
