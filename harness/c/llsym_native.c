/* Native implementation of the LLSYM harness interface (replay / translator validation).
 * usage: <harness> <input file>     input file: lines "name value" (value: decimal, 64-bit)
 * stdout: OUT name value | ASSERT id | FAIL id | ASSUME | MISSING name | EXIT | DONE
 * exit status: 0 done, 10 assertion failed, 11 fail point reached, 12 assumption violated,
 * 13 input missing */
#include <stdio.h>
#include <stdlib.h>
#include <string.h>
#include "llsym.h"

#define MAXIN 4096
static struct { char name[64]; uint64_t v; } in[MAXIN];
static int n_in;

static uint64_t get (const char *name, int idx)
{
  char key[96];
  int i;
  if (idx < 0) snprintf (key, sizeof key, "%s", name);
  else snprintf (key, sizeof key, "%s[%d]", name, idx);
  for (i = 0; i < n_in; i++)
    if (strcmp (in[i].name, key) == 0)
      return in[i].v;
  printf ("MISSING %s\n", key);
  exit (13);
}

int32_t  __llsym_nondet_i32 (const char *n, int i) { return (int32_t) get (n, i); }
int64_t  __llsym_nondet_i64 (const char *n, int i) { return (int64_t) get (n, i); }
uint8_t  __llsym_nondet_u8  (const char *n, int i) { return (uint8_t) get (n, i); }
uint16_t __llsym_nondet_u16 (const char *n, int i) { return (uint16_t) get (n, i); }
uint32_t __llsym_nondet_u32 (const char *n, int i) { return (uint32_t) get (n, i); }
uint64_t __llsym_nondet_u64 (const char *n, int i) { return get (n, i); }

int32_t __llsym_choice (const char *n, int i, int bound)
{
  uint32_t v = (uint32_t) get (n, i);
  if (v >= (uint32_t) bound) { printf ("ASSUME\n"); exit (12); }
  return (int32_t) v;
}

int32_t __llsym_pick (const char *n, int i, int bound) { return __llsym_choice (n, i, bound); }

void __llsym_assume (int c) { if (!c) { printf ("ASSUME\n"); exit (12); } }
/* LLSYM_KEEP_GOING=1: report a failing assertion and continue, so that a replay shows every
 * value the code under test computed; the exit status still says "assertion failed". */
static int n_failed;
void __llsym_assert (int c, int id)
{
  if (c) return;
  printf ("ASSERT %d\n", id);
  n_failed++;
  if (!getenv ("LLSYM_KEEP_GOING")) exit (10);
}
void __llsym_fail (int id) { printf ("FAIL %d\n", id); exit (11); }
void __llsym_exit (void) { printf ("EXIT\n"); exit (0); }

void __llsym_output (const char *name, int idx, int64_t v)
{
  if (idx < 0) printf ("OUT %s %lld\n", name, (long long) v);
  else printf ("OUT %s[%d] %lld\n", name, idx, (long long) v);
}

int main (int argc, char **argv)
{
  FILE *f;
  setvbuf (stdout, NULL, _IONBF, 0);
  if (argc < 2 || !(f = fopen (argv[1], "r"))) { fprintf (stderr, "usage: %s inputs\n", argv[0]); return 2; }
  while (n_in < MAXIN && fscanf (f, "%63s %llu", in[n_in].name, (unsigned long long *) &in[n_in].v) == 2)
    n_in++;
  fclose (f);
  llsym_main ();
  printf ("DONE\n");
  return n_failed ? 10 : 0;
}
