/* LLSYM harness for C14: directory look-ups of girepository/gitypelib.c and gthash.c.
 *
 * Copied verbatim out of the current files by vlib/llsym/slice.py (sliced_gitypelib.inc,
 * sliced_gthash.inc): g_typelib_get_dir_entry, get_section_by_id,
 * g_typelib_get_dir_entry_by_name, g_typelib_get_dir_entry_by_gtype_name, StrSplitIter,
 * strsplit_iter_init/_next/_clear, g_typelib_matches_gtype_name_prefix,
 * g_typelib_get_dir_entry_by_error_domain; _gi_typelib_hash_search.
 *
 * The typelib image is one static object of exactly IMG bytes (typelib->len), so every read
 * outside it is an out-of-bounds access for the executor (and for ASan in the native twin).
 * Layout (all offsets concrete per path, chosen through __llsym_pick):
 *   Header | 0 or 4 pad bytes | directory: n DirEntry | n blobs of 24 bytes | section table |
 *   hash section (4-aligned: u32 dirmap offset, 4 opaque bytes, u16 table[n]) | ... | strings,
 *   the last one ending at the last byte of the image.
 * These are the invariants g_typelib_validate / the compiler establish and the harness assumes:
 * offsets inside the image, strings NUL-terminated inside it, section table terminated by
 * GI_SECTION_END, hash section 4-aligned with table[h(name_i)] = i, local entry names distinct.
 * In mode 0 the directory continues with 0..XMAX non-local entries (n_entries = n_local_entries +
 * that many) with arbitrary names: a name found only there is not in the namespace.
 *
 * cmph_search_packed is an uninterpreted function under the perfect-hash contract only:
 * the n entry names map to pairwise distinct values < n, any other key to an arbitrary u32.
 *
 * mode: 0 by name (linear and hashed), 1 by GType name, 2 by error domain,
 *       3 g_typelib_matches_gtype_name_prefix, 4 g_typelib_get_dir_entry arithmetic.
 * cfg_maxstr: longest string (bytes before the NUL).
 */
#include <string.h>
#include <stdlib.h>
#include "llsym.h"
#include <glib.h>
#include "girepository.h"
#include "gitypelib-internal.h"
#include "llsym_libc.h"

typedef unsigned int cmph_uint32;
cmph_uint32 cmph_search_packed (void *packed_mphf, const char *key, cmph_uint32 keylen);

#define IMG 352
#define NMAX 3
#define XMAX 2                     /* non-local directory entries after the local ones */
#define SMAX 5                     /* longest string the buffers can take */
static guchar h_img[IMG];
static GITypelib h_typelib;
static char h_probe[SMAX + 1];     /* the probe string, right-aligned in its own object */
static char h_gbuf[16];

/* what the harness knows about the strings in the image */
static int h_n, h_len[NMAX], h_off[NMAX], h_perm[NMAX];
static uint32_t h_other;
static const char *h_quark;

void g_assert_fail_stub (void) { __llsym_fail (902); }
void g_free (gpointer p) { }
const gchar *g_quark_to_string (GQuark q) { return h_quark; }

/* the part of GString the prefix matcher uses: overwrite from pos 0 with len bytes */
GString *g_string_overwrite_len (GString *string, gsize pos, const gchar *val, gssize len)
{
  gssize i;
  if (pos != 0 || len < 0 || len >= (gssize) sizeof h_gbuf) __llsym_fail (920);
  string->str = h_gbuf;
  for (i = 0; i < len; i++) h_gbuf[i] = val[i];
  h_gbuf[len] = 0;
  string->len = (gsize) len;
  return string;
}

static int h_equal (const char *a, int la, const char *b, int lb)
{
  int i, eq = la == lb;
  for (i = 0; i < la && i < lb; i++)
    eq &= a[i] == b[i];
  return eq;
}

/* perfect-hash contract, nothing else */
cmph_uint32 cmph_search_packed (void *packed_mphf, const char *key, cmph_uint32 keylen)
{
  int i;
  for (i = 0; i < h_n; i++)
    if (h_equal (key, (int) keylen, (const char *) &h_img[h_off[i]], h_len[i]))
      return (cmph_uint32) h_perm[i];
  return h_other;
}

#include "sliced_gitypelib.inc"          /* the code under test */
#include "sliced_gthash.inc"

/* ------------------------------------------------------------------ image construction */

static int h_maxstr;

static void h_bytes (const char *name, int base, char *dst, int len)
{
  int i;
  for (i = 0; i < len; i++)
    {
      uint8_t c = __llsym_nondet_u8 (name, base + i);
      __llsym_assume (c != 0);
      dst[i] = (char) c;
    }
  dst[len] = 0;
}

static char *h_make_probe (void)
{
  int len = __llsym_pick ("plen", -1, h_maxstr + 1);
  char *p = &h_probe[SMAX - len];
  h_bytes ("p", 0, p, len);
  return p;
}

/* common part: header, directory of n entries, blobs; returns the first free offset.
 * string lengths must be known before (strings sit at the very end of the image). */
static int h_layout (int n, int nx, int *dir_out)
{
  Header *hd = (Header *) h_img;
  int dir = sizeof (Header) + 4 * __llsym_pick ("dirpad", -1, 2), i, all = n + nx;
  h_typelib.data = h_img;
  h_typelib.len = IMG;
  hd->directory = dir;
  hd->entry_blob_size = sizeof (DirEntry);
  hd->n_entries = all;                   /* nx entries for symbols of other namespaces follow */
  hd->n_local_entries = n;               /* the n local ones */
  for (i = 0; i < all; i++)
    {
      DirEntry *e = (DirEntry *) &h_img[dir + i * sizeof (DirEntry)];
      e->local = i < n;
      e->offset = i < n ? dir + all * sizeof (DirEntry) + i * 24 : 0;   /* non-local: namespace name */
    }
  *dir_out = dir;
  return dir + all * (int) sizeof (DirEntry) + n * 24;
}

static DirEntry *h_entry (int dir, int i) { return (DirEntry *) &h_img[dir + i * sizeof (DirEntry)]; }

/* ------------------------------------------------------------------ modes */

static void mode_by_name (void)
{
  int n = 1 + __llsym_pick ("n", -1, NMAX), secvar = __llsym_pick ("secvar", -1, 4);
  int nx = __llsym_pick ("n_nonlocal", -1, XMAX + 1);      /* directory entries of other namespaces */
  int i, j, dir, free_, total = 0, pos, plen, xlen[XMAX];
  char *probe;
  DirEntry *got, *want = NULL;
  Header *hd = (Header *) h_img;

  h_n = n;
  for (i = 0; i < n; i++)
    {
      h_len[i] = __llsym_pick ("len", i, h_maxstr + 1);
      total += h_len[i] + 1;
    }
  for (i = 0; i < nx; i++)
    {
      xlen[i] = __llsym_pick ("xlen", i, h_maxstr + 1);
      total += xlen[i] + 1;
    }
  free_ = h_layout (n, nx, &dir);
  pos = IMG - total;                       /* the strings end with the image */
  /* names of the non-local entries: any strings, also ones equal to a local name; the hash
   * is built over the local names only, to it they are keys like any other */
  for (i = 0; i < nx; i++)
    {
      h_bytes ("x", i * 8, (char *) &h_img[pos], xlen[i]);
      h_entry (dir, n + i)->name = pos;
      h_entry (dir, n + i)->blob_type = 0;
      pos += xlen[i] + 1;
    }
  for (i = 0; i < n; i++)
    {
      h_off[i] = pos;
      h_bytes ("s", i * 8, (char *) &h_img[pos], h_len[i]);
      h_entry (dir, i)->name = pos;
      h_entry (dir, i)->blob_type = BLOB_TYPE_FUNCTION;
      pos += h_len[i] + 1;
    }
  for (i = 0; i < n; i++)                  /* the compiler refuses duplicate names */
    for (j = 0; j < i; j++)
      __llsym_assume (!h_equal ((char *) &h_img[h_off[i]], h_len[i], (char *) &h_img[h_off[j]], h_len[j]));
  /* section table: none | [END] | [INDEX, END] | [unknown id, INDEX, END] */
  if (secvar == 0)
    hd->sections = 0;
  else
    {
      Section *s = (Section *) &h_img[free_];
      int hash = free_ + 3 * (int) sizeof (Section);          /* multiple of 4 */
      hd->sections = free_;
      if (secvar == 3) { s->id = 7; s->offset = 0; s++; }
      if (secvar >= 2) { s->id = GI_SECTION_DIRECTORY_INDEX; s->offset = hash; s++; }
      s->id = GI_SECTION_END;
      if (secvar >= 2)
        {
          guint16 *table = (guint16 *) &h_img[hash + 8];
          int used = 0;
          *(guint32 *) &h_img[hash] = 8;
          for (i = 0; i < n; i++)
            {
              h_perm[i] = __llsym_pick ("perm", i, n);
              __llsym_assume (!((used >> h_perm[i]) & 1));    /* injective */
              used |= 1 << h_perm[i];
              table[h_perm[i]] = (guint16) i;                 /* what the builder packs */
            }
          /* whatever follows the n-entry table in the image: arbitrary */
          table[n] = __llsym_nondet_u16 ("after_table", 0);
          table[n + 1] = __llsym_nondet_u16 ("after_table", 1);
          /* any u32 for keys outside the set: either one of the n in-range values, or some
           * value >= n (kept symbolic) */
          if (__llsym_pick ("h_other_in_range", -1, 2))
            h_other = (uint32_t) __llsym_pick ("h_other_small", -1, n);
          else
            {
              h_other = __llsym_nondet_u32 ("h_other", -1);
              __llsym_assume (h_other >= (uint32_t) n);
            }
        }
    }
  probe = h_make_probe ();
  plen = (int) (&h_probe[SMAX] - probe);

  got = g_typelib_get_dir_entry_by_name (&h_typelib, probe);

  for (i = 0; i < n; i++)
    want = h_equal (probe, plen, (char *) &h_img[h_off[i]], h_len[i]) ? h_entry (dir, i) : want;
  __llsym_output ("got", -1, got ? (int64_t) ((guchar *) got - h_img - dir) / (int) sizeof (DirEntry) + 1 : 0);
  __llsym_assert (got == want, 1);
}

/* modes 1 and 2: the i-th blob is looked at only if its type qualifies and the offset of its
 * string is not 0; the first such entry whose string equals the probe is the answer */
static void mode_by_blob_string (int by_domain)
{
  int n = 1 + __llsym_pick ("n", -1, NMAX);
  int i, dir, total = 0, pos, plen, has[NMAX], type[NMAX];
  char *probe;
  DirEntry *got, *want = NULL;

  for (i = 0; i < n; i++)
    {
      has[i] = __llsym_pick ("has", i, 2);
      h_len[i] = has[i] ? __llsym_pick ("len", i, h_maxstr + 1) : 0;
      total += has[i] ? h_len[i] + 1 : 0;
    }
  h_layout (n, 0, &dir);
  pos = IMG - total;
  for (i = 0; i < n; i++)
    {
      DirEntry *e = h_entry (dir, i);
      type[i] = __llsym_choice ("type", i, 12);          /* every GTypelibBlobType */
      e->blob_type = (guint16) type[i];
      e->name = 0;
      ((RegisteredTypeBlob *) &h_img[e->offset])->blob_type = (guint16) type[i];
      h_off[i] = has[i] ? pos : 0;
      if (has[i])
        {
          h_bytes ("s", i * 8, (char *) &h_img[pos], h_len[i]);
          pos += h_len[i] + 1;
        }
      if (by_domain)
        ((EnumBlob *) &h_img[e->offset])->error_domain = h_off[i];
      else
        ((RegisteredTypeBlob *) &h_img[e->offset])->gtype_name = h_off[i];
    }
  probe = h_make_probe ();
  plen = (int) (&h_probe[SMAX] - probe);
  h_quark = probe;

  got = by_domain ? g_typelib_get_dir_entry_by_error_domain (&h_typelib, 1)
                  : g_typelib_get_dir_entry_by_gtype_name (&h_typelib, probe);

  for (i = n - 1; i >= 0; i--)
    {
      int t = type[i];
      int qualifies = by_domain ? t == BLOB_TYPE_ENUM
        : (t == BLOB_TYPE_STRUCT) | (t == BLOB_TYPE_UNION) | (t == BLOB_TYPE_ENUM) | (t == BLOB_TYPE_FLAGS)
          | (t == BLOB_TYPE_OBJECT) | (t == BLOB_TYPE_INTERFACE);
      int hit = qualifies & has[i] & h_equal (probe, plen, (char *) &h_img[h_off[i]], h_len[i]);
      want = hit ? h_entry (dir, i) : want;
    }
  __llsym_output ("got", -1, got ? (int64_t) ((guchar *) got - h_img - dir) / (int) sizeof (DirEntry) + 1 : 0);
  __llsym_assert (got == want, 1);
}

static void mode_prefix (void)
{
  int clen = __llsym_pick ("clen", -1, SMAX + 1), nlen, s, e, i, ret, want = 0;
  char *c = (char *) &h_img[IMG - 1 - clen], *name;
  Header *hd = (Header *) h_img;

  h_typelib.data = h_img;
  h_typelib.len = IMG;
  h_bytes ("c", 0, c, clen);
  hd->c_prefix = IMG - 1 - clen;
  name = h_make_probe ();
  nlen = (int) (&h_probe[SMAX] - name);

  ret = g_typelib_matches_gtype_name_prefix (&h_typelib, name);

  /* oracle: some comma-separated piece c[s..e) is a prefix of name followed by a capital */
  for (s = 0; s <= clen; s++)
    for (e = s; e <= clen; e++)
      {
        int piece = ((s == 0) || (c[s - 1] == ',')) & ((e == clen) || (c[e] == ','));
        int len = e - s, m = len <= nlen;
        for (i = s; i < e; i++)
          {
            piece &= c[i] != ',';
            m &= name[i - s < nlen ? i - s : 0] == c[i];
          }
        m &= (name[len <= nlen ? len : 0] >= 'A') & (name[len <= nlen ? len : 0] <= 'Z');
        want |= piece & m;
      }
  want &= clen > 0;
  __llsym_output ("ret", -1, ret);
  __llsym_assert ((ret != 0) == want, 1);
}

static void mode_get_dir_entry (void)
{
  Header *hd = (Header *) h_img;
  uint32_t directory = __llsym_nondet_u32 ("directory", -1);
  uint16_t size = __llsym_nondet_u16 ("entry_blob_size", -1), index = __llsym_nondet_u16 ("index", -1);
  DirEntry *got;
  /* any header values whose entry offset is a 32-bit offset at all (no typelib is that large) */
  __llsym_assume (index >= 1 && (uint64_t) directory + (uint64_t) (index - 1) * size < ((uint64_t) 1 << 32));
  h_typelib.data = h_img;
  h_typelib.len = IMG;
  hd->directory = directory;
  hd->entry_blob_size = size;
  got = g_typelib_get_dir_entry (&h_typelib, index);
  __llsym_output ("off", -1, (int64_t) ((guchar *) got - h_img));
  __llsym_assert ((uint64_t) ((guchar *) got - h_img) == (uint64_t) directory + (uint64_t) (index - 1) * size, 1);
}

void llsym_main (void)
{
  int mode = __llsym_nondet_i32 ("mode", -1);
  int twin = __llsym_nondet_i32 ("cfg_twin", -1);
  h_maxstr = __llsym_nondet_i32 ("cfg_maxstr", -1);
  __llsym_assume (h_maxstr >= 1 && h_maxstr <= SMAX - 1);
  if (mode == 0) mode_by_name ();
  else if (mode == 1) mode_by_blob_string (0);
  else if (mode == 2) mode_by_blob_string (1);
  else if (mode == 3) mode_prefix ();
  else if (mode == 4) mode_get_dir_entry ();
  else __llsym_assume (0);
  if (twin)
    __llsym_assert (0, 99);
}
