"""Tool patches applied to CrossHair inside the worker process only (never to
the installed package, never to /repo).

1. `'...%s...' % args` — CrossHair 0.0.110 realises every argument of a percent
   format ("almost nobody uses percent formatting anymore"); giscanner uses it
   everywhere.  For format strings made only of literal text, `%s` and `%%`
   whose arguments are strings, percent formatting *is* concatenation, which
   CrossHair models symbolically; anything else falls back to the original
   (realising) behaviour.
"""


def apply():
    from crosshair import core
    from crosshair.libimpl import builtinslib
    from crosshair.libimpl.builtinslib import AnySymbolicStr
    from crosshair.core import deep_realize, realize
    from crosshair.tracers import NoTracing

    def original(self, other):
        # CrossHair's own behaviour: realise everything, then format natively
        fmt = realize(self)
        args = deep_realize(other)
        with NoTracing():
            return fmt % args

    def _sym_percent(self, other):
        if not isinstance(self, str):
            raise TypeError
        if isinstance(self, AnySymbolicStr):
            return original(self, other)
        fmt = self
        args = other if type(other) is tuple else (other,)
        parts = []
        lit = ''
        i = 0
        ai = 0
        n = len(fmt)
        ok = True
        while i < n:
            c = fmt[i]
            if c != '%':
                lit += c
                i += 1
                continue
            if i + 1 >= n:
                ok = False
                break
            nxt = fmt[i + 1]
            if nxt == '%':
                lit += '%'
            elif nxt == 's' and ai < len(args) and isinstance(args[ai], (str, AnySymbolicStr)):
                if lit:
                    parts.append(lit)
                    lit = ''
                parts.append(args[ai])
                ai += 1
            else:
                ok = False
                break
            i += 2
        if not ok or ai != len(args):
            return original(self, other)
        if lit:
            parts.append(lit)
        result = ''
        for p in parts:
            result = result + p
        return result

    core._PATCH_REGISTRATIONS[str.__mod__] = _sym_percent
