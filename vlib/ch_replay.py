"""Concrete replay of a CH harness under the repo's own interpreter (no CrossHair).
usage: ch_replay.py <module> <fn> <json kwargs>; prints @@RP@@{ok: bool, result: ...}"""
import json
import os
import sys
import traceback

VERIF = os.path.dirname(os.path.dirname(os.path.abspath(__file__)))
sys.path.insert(0, VERIF)
sys.path.insert(0, os.path.join(VERIF, 'harness', 'py'))


def main():
    module, fn, kwargs = sys.argv[1], sys.argv[2], json.loads(sys.argv[3])
    out = {}
    try:
        mod = __import__(module)
        r = getattr(mod, fn)(**kwargs)
        out['ok'] = (r is True)
        out['result'] = repr(r)[:2000]
    except Exception:
        out['ok'] = False
        out['result'] = 'raised: ' + traceback.format_exc()[-2000:]
    sys.stdout.write('\n@@RP@@' + json.dumps(out) + '\n')


if __name__ == '__main__':
    main()
