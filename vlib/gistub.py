"""Scanner stub environment shared by the CrossHair harnesses (DESIGN 2.5).

* a dummy ``giscanner._giscanner`` so that the pure-Python scanner modules of
  /repo import without the flex/bison extension;
* plain record classes standing for the C lexer's symbol/type objects, fed to
  the *real* ``SourceSymbol``/``SourceType`` wrappers;
* a recording GIR writer: the real ``GIRWriter`` with ``push_tag/pop_tag/
  write_tag`` capturing exactly the (tag, attribute list, text) it serialises;
* a diagnostics recorder in place of the ``MessageLogger`` singleton.

Nothing here re-implements scanner logic.
"""
import builtins
import os
import sys
import types

REPO = os.environ.get('GI_VERIF_REPO', '/repo')
os.environ['GI_SCANNER_DISABLE_CACHE'] = '1'
if REPO not in sys.path:
    sys.path.insert(0, REPO)

if 'giscanner._giscanner' not in sys.modules:
    _m = types.ModuleType('giscanner._giscanner')

    class _SourceScanner(object):
        pass
    _m.SourceScanner = _SourceScanner
    sys.modules['giscanner._giscanner'] = _m
    import giscanner
    giscanner._giscanner = _m
builtins.__dict__.setdefault('DATADIR', '/nonexistent')
builtins.__dict__.setdefault('GIR_DIR', '/nonexistent')

from giscanner import sourcescanner as ss  # noqa: E402
from giscanner import ast, message, transformer, girwriter  # noqa: E402
from giscanner import annotationparser as ap  # noqa: E402
from giscanner import maintransformer, introspectablepass  # noqa: E402


# --------------------------------------------------------------------------
# C declaration records

class CType(object):
    def __init__(self, type, name=None, base_type=None, type_qualifier=0,
                 child_list=(), is_bitfield=False, function_specifier=0):
        self.type = type
        self.name = name
        self.base_type = base_type
        self.type_qualifier = type_qualifier
        self.child_list = list(child_list)
        self.is_bitfield = is_bitfield
        self.function_specifier = function_specifier


class CSym(object):
    def __init__(self, type, ident, base_type=None, const_int=None,
                 const_double=None, const_string=None, const_boolean=None,
                 private=False, source_filename='foo.h', line=1):
        self.type = type
        self.ident = ident
        self.base_type = base_type
        self.const_int = const_int
        self.const_int_set = const_int is not None
        self.const_double = const_double
        self.const_string = const_string
        self.const_boolean = const_boolean
        self.const_boolean_set = const_boolean is not None
        self.private = private
        self.source_filename = source_filename
        self.line = line


CONST = ss.TYPE_QUALIFIER_CONST
VOLATILE = ss.TYPE_QUALIFIER_VOLATILE


def t_void(q=0):
    return CType(ss.CTYPE_VOID, name='void', type_qualifier=q)


def t_basic(name, q=0):
    return CType(ss.CTYPE_BASIC_TYPE, name=name, type_qualifier=q)


def t_typedef(name, q=0):
    return CType(ss.CTYPE_TYPEDEF, name=name, type_qualifier=q)


def t_ptr(base, q=0):
    return CType(ss.CTYPE_POINTER, base_type=base, type_qualifier=q)


def t_struct(name, children=(), q=0):
    return CType(ss.CTYPE_STRUCT, name=name, child_list=children, type_qualifier=q)


def t_union(name, children=(), q=0):
    return CType(ss.CTYPE_UNION, name=name, child_list=children, type_qualifier=q)


def t_enum(name, children=(), is_bitfield=False):
    return CType(ss.CTYPE_ENUM, name=name, child_list=children, is_bitfield=is_bitfield)


def t_array(base, size=None):
    ch = []
    if size is not None:
        ch = [CSym(ss.CSYMBOL_TYPE_CONST, None, const_int=size)]
    return CType(ss.CTYPE_ARRAY, base_type=base, child_list=ch)


def t_func(ret, params=(), inline=False):
    """Function type; ``ret`` carries the function specifier as in the lexer."""
    if inline:
        ret.function_specifier |= ss.FUNCTION_INLINE
    return CType(ss.CTYPE_FUNCTION, base_type=ret, child_list=params)


def s_param(name, ctype):
    return CSym(ss.CSYMBOL_TYPE_OBJECT, name, base_type=ctype)


def s_ellipsis():
    return CSym(ss.CSYMBOL_TYPE_ELLIPSIS, None)


def s_function(name, ret, params=(), filename='foo.h', line=1, inline=False):
    return CSym(ss.CSYMBOL_TYPE_FUNCTION, name, base_type=t_func(ret, params, inline),
                source_filename=filename, line=line)


def s_typedef(name, ctype, filename='foo.h', line=1):
    return CSym(ss.CSYMBOL_TYPE_TYPEDEF, name, base_type=ctype,
                source_filename=filename, line=line)


def s_struct(tag, members, filename='foo.h', line=1):
    return CSym(ss.CSYMBOL_TYPE_STRUCT, tag, base_type=t_struct(tag, members),
                source_filename=filename, line=line)


def s_union(tag, members, filename='foo.h', line=1):
    return CSym(ss.CSYMBOL_TYPE_UNION, tag, base_type=t_union(tag, members),
                source_filename=filename, line=line)


def s_member(name, ctype, bits=None, private=False):
    return CSym(ss.CSYMBOL_TYPE_MEMBER, name, base_type=ctype, const_int=bits,
                private=private)


def s_enum_member(name, value, private=False):
    return CSym(ss.CSYMBOL_TYPE_OBJECT, name, const_int=value, private=private)


def s_enum(name, members, is_bitfield=False, typedef=True, filename='foo.h', line=1):
    et = t_enum(name, members, is_bitfield)
    kind = ss.CSYMBOL_TYPE_TYPEDEF if typedef else ss.CSYMBOL_TYPE_ENUM
    return CSym(kind, name, base_type=et, source_filename=filename, line=line)


def s_const(name, base_type=None, const_int=None, const_string=None,
            const_boolean=None, const_double=None, filename='foo.h', line=1):
    return CSym(ss.CSYMBOL_TYPE_CONST, name, base_type=base_type, const_int=const_int,
                const_string=const_string, const_boolean=const_boolean,
                const_double=const_double, source_filename=filename, line=line)


def wrap(sym):
    return ss.SourceSymbol(None, sym)


# --------------------------------------------------------------------------
# diagnostics recorder

class LogRecorder(message.MessageLogger):
    """Records every diagnostic instead of printing it (formatting is not the
    subject).  FATAL still raises SystemExit as the real logger does."""

    def __init__(self, namespace=None):
        self._cwd = '/'
        self._output = None
        self._namespace = namespace
        self._enable_warnings = True
        self._enable_strict = False
        self._warning_count = 0
        self.records = []
        self.full = []

    def log(self, log_type, text, positions=None, prefix=None, marker_pos=None,
            marker_line=None):
        self._warning_count += 1
        self.records.append((log_type, text))
        self.full.append({'type': log_type, 'text': text, 'positions': positions, 'marker_pos': marker_pos,
                          'marker_line': marker_line})
        if log_type == message.FATAL:
            raise SystemExit(text)

    def texts(self, log_type=None):
        return [t for (k, t) in self.records if log_type is None or k == log_type]


def install_logger(namespace=None):
    rec = LogRecorder(namespace)
    message.MessageLogger._instance = rec
    return rec


# --------------------------------------------------------------------------
# recording writer

class El(object):
    __slots__ = ('tag', 'attrs', 'text', 'children')

    def __init__(self, tag, attrs, text=None):
        self.tag = tag
        self.attrs = [(k, v) for (k, v) in (attrs or []) if v is not None]
        self.text = text
        self.children = []

    def get(self, key, default=None):
        for k, v in self.attrs:
            if k == key:
                return v
        return default

    def find(self, tag):
        for c in self.children:
            if c.tag == tag:
                return c
        return None

    def findall(self, tag):
        return [c for c in self.children if c.tag == tag]

    def iter(self):
        yield self
        for c in self.children:
            for x in c.iter():
                yield x

    def key(self):
        return (self.tag, tuple(self.attrs), self.text,
                tuple(c.key() for c in self.children))

    def dump(self, indent=0):
        s = '%s<%s%s>%s\n' % ('  ' * indent, self.tag,
                              ''.join(' %s=%r' % kv for kv in self.attrs),
                              '' if self.text is None else repr(self.text))
        for c in self.children:
            s += c.dump(indent + 1)
        return s

    def __repr__(self):
        return '<El %s %r>' % (self.tag, self.attrs)


class RecGIRWriter(girwriter.GIRWriter):
    """The real GIRWriter; only the three serialisation primitives record
    their arguments instead of formatting them."""

    def __init__(self, namespace):
        self.root = El('#document', [])
        self._stack = [self.root]
        girwriter.GIRWriter.__init__(self, namespace)

    def write_comment(self, text):
        pass

    def write_tag(self, tag_name, attributes, data=None):
        self._stack[-1].children.append(El(tag_name, attributes, data))

    def push_tag(self, tag_name, attributes=None):
        el = El(tag_name, attributes)
        self._stack[-1].children.append(el)
        self._stack.append(el)

    def pop_tag(self):
        return self._stack.pop().tag


# --------------------------------------------------------------------------
# comment blocks built as objects (the comment parser has its own properties)

def mk_annotations(d):
    a = ap.GtkDocAnnotations()
    for k, v in d.items():
        a[k] = v
    return a


def mk_block(name, annotations=None, params=None, tags=None, description=None,
             filename='foo.c', line=1):
    b = ap.GtkDocCommentBlock(name, message.Position(filename, line))
    b.annotations = mk_annotations(annotations or {})
    b.description = description
    for pname, (pann, pdesc) in (params or {}).items():
        p = ap.GtkDocParameter(pname, message.Position(filename, line))
        p.annotations = mk_annotations(pann or {})
        p.description = pdesc
        b.params[pname] = p
    for tname, (tann, tvalue, tdesc) in (tags or {}).items():
        t = ap.GtkDocTag(tname, message.Position(filename, line))
        t.annotations = mk_annotations(tann or {})
        t.value = tvalue
        t.description = tdesc
        b.tags[tname] = t
    return b


def render_annotations(d):
    out = []
    for k, v in d.items():
        if isinstance(v, dict):
            opts = ' '.join(('%s=%s' % (ok, ov)) if ov is not None else ok
                            for ok, ov in v.items())
        else:
            opts = ' '.join(v)
        out.append('(%s%s)' % (k, (' ' + opts) if opts else ''))
    return ' '.join(out)


def render_block(name, annotations=None, params=None, tags=None, description=None):
    """Text of the same block, for replay through the real comment parser."""
    lines = ['/**']
    ann = render_annotations(annotations or {})
    lines.append(' * %s:%s' % (name, (' ' + ann) if ann else ''))
    for pname, (pann, pdesc) in (params or {}).items():
        a = render_annotations(pann or {})
        lines.append(' * @%s:%s%s' % (pname, (' ' + a + ':') if a else '',
                                       (' ' + pdesc) if pdesc else ''))
    if description:
        lines.append(' *')
        lines.append(' * ' + description)
    if tags:
        lines.append(' *')
    for tname, (tann, tvalue, tdesc) in (tags or {}).items():
        a = render_annotations(tann or {})
        tn = tname.capitalize()
        rest = ''
        if a:
            rest += ' ' + a + ':'
        if tvalue:
            rest += ' ' + tvalue + (':' if tdesc else '')
        if tdesc:
            rest += ' ' + tdesc
        lines.append(' * %s:%s' % (tn, rest))
    lines.append(' */')
    return '\n'.join(lines)


def parse_blocks_text(texts, filename='foo.c'):
    parser = ap.GtkDocCommentBlockParser()
    return parser.parse_comment_blocks([(t, filename, 1 + 20 * i)
                                        for i, t in enumerate(texts)])


# --------------------------------------------------------------------------
# dependency namespaces (what GIRParser would deliver for GLib/GObject/Gio)

def _cb(name, ctype, params):
    ps = [ast.Parameter(n, t) for n, t in params]
    cb = ast.Callback(name, ast.Return(ast.TYPE_NONE.clone()), ps, False, ctype=ctype)
    return cb


def dep_glib():
    ns = ast.Namespace('GLib', '2.0', identifier_prefixes=['G'], symbol_prefixes=['g', 'glib'])
    ns.append(_cb('DestroyNotify', 'GDestroyNotify',
                  [('data', ast.TYPE_ANY.clone())]))
    ns.append(ast.Record('Error', 'GError', gtype_name='GError', get_type='g_error_get_type',
                         c_symbol_prefix='error'))
    ns.append(ast.Record('List', 'GList'))
    ns.append(ast.Record('SList', 'GSList'))
    ns.append(ast.Record('HashTable', 'GHashTable', gtype_name='GHashTable',
                         get_type='g_hash_table_get_type', c_symbol_prefix='hash_table'))
    ns.append(ast.Record('Array', 'GArray', gtype_name='GArray',
                         get_type='g_array_get_type', c_symbol_prefix='array'))
    ns.append(ast.Record('PtrArray', 'GPtrArray', gtype_name='GPtrArray',
                         get_type='g_ptr_array_get_type', c_symbol_prefix='ptr_array'))
    ns.append(ast.Record('ByteArray', 'GByteArray', gtype_name='GByteArray',
                         get_type='g_byte_array_get_type', c_symbol_prefix='byte_array'))
    ns.append(ast.Record('Variant', 'GVariant'))
    ns.append(ast.Alias('Quark', ast.TYPE_UINT32.clone(), ctype='GQuark'))
    return ns


def dep_gobject():
    ns = ast.Namespace('GObject', '2.0', identifier_prefixes=['G'], symbol_prefixes=['g', 'gobject'])
    ns.includes.add(ast.Include('GLib', '2.0'))
    obj = ast.Class('Object', None, ctype='GObject', gtype_name='GObject',
                    get_type='g_object_get_type', c_symbol_prefix='object')
    ns.append(obj)
    iu = ast.Class('InitiallyUnowned', ast.Type(target_giname='GObject.Object'),
                   ctype='GInitiallyUnowned', gtype_name='GInitiallyUnowned',
                   get_type='g_initially_unowned_get_type', c_symbol_prefix='initially_unowned')
    ns.append(iu)
    ns.append(ast.Record('Closure', 'GClosure', gtype_name='GClosure',
                         get_type='g_closure_get_type', c_symbol_prefix='closure'))
    ns.append(ast.Record('Value', 'GValue', gtype_name='GValue',
                         get_type='g_value_get_type', c_symbol_prefix='value'))
    ns.append(ast.Record('ObjectClass', 'GObjectClass'))
    ns.append(ast.Record('TypeInterface', 'GTypeInterface'))
    ns.append(_cb('Callback', 'GCallback', []))
    return ns


def dep_gio():
    ns = ast.Namespace('Gio', '2.0', identifier_prefixes=['G'], symbol_prefixes=['g'])
    ns.includes.add(ast.Include('GObject', '2.0'))
    ns.append(ast.Interface('AsyncResult', None, ctype='GAsyncResult', gtype_name='GAsyncResult',
                            get_type='g_async_result_get_type', c_symbol_prefix='async_result'))
    ns.append(_cb('AsyncReadyCallback', 'GAsyncReadyCallback',
                  [('source_object', ast.Type(target_giname='GObject.Object', ctype='GObject*')),
                   ('res', ast.Type(target_giname='Gio.AsyncResult', ctype='GAsyncResult*')),
                   ('data', ast.TYPE_ANY.clone())]))
    ns.append(ast.Class('Cancellable', ast.Type(target_giname='GObject.Object'),
                        ctype='GCancellable', gtype_name='GCancellable',
                        get_type='g_cancellable_get_type', c_symbol_prefix='cancellable'))
    return ns


def dep_foobar():
    """An included namespace whose name and identifier prefix extend the scanned
    namespace's own (Foo / FooBar, like Gdk / GdkPixbuf)."""
    ns = ast.Namespace('FooBar', '1.0', identifier_prefixes=['FooBar'], symbol_prefixes=['foo_bar'])
    ns.append(ast.Record('Thing', 'FooBarThing'))
    return ns


# --------------------------------------------------------------------------
# pipeline

class Scan(object):
    """One run of the real pipeline over stub declarations."""

    def __init__(self, ns_name='Foo', version='1.0', identifier_prefixes=None,
                 symbol_prefixes=None, accept_unprefixed=False,
                 deps=('GLib', 'GObject', 'Gio', 'FooBar')):
        self.namespace = ast.Namespace(ns_name, version,
                                       identifier_prefixes=identifier_prefixes,
                                       symbol_prefixes=symbol_prefixes)
        self.log = install_logger(self.namespace)
        self.transformer = transformer.Transformer(self.namespace,
                                                   accept_unprefixed=accept_unprefixed)
        makers = {'GLib': dep_glib, 'GObject': dep_gobject, 'Gio': dep_gio, 'FooBar': dep_foobar}
        for d in deps:
            dn = makers[d]()
            self.transformer._parsed_includes[dn.name] = dn
            self.namespace.includes.add(ast.Include(dn.name, dn.version))
        self.blocks = {}
        self.fatal = None

    def parse(self, csyms):
        self.transformer.parse([wrap(s) for s in csyms])

    def add_block(self, block):
        self.blocks[block.name] = block

    def dump(self, tree_nodes):
        """Merge a fake runtime dump (list of FakeXml elements) with the real GDumpParser."""
        from giscanner import gdumpparser
        gp = gdumpparser.GDumpParser(self.transformer)
        gp.init_parse()
        root = FakeXml('dump', {}, tree_nodes)

        class _Tree(object):
            def getroot(self_inner):
                return root

            def findall(self_inner, path):
                return root.findall(path)
        gp._execute_binary_get_tree = lambda: _Tree()
        gp.parse()
        self.gdump = gp

    def transform(self):
        try:
            maintransformer.MainTransformer(self.transformer, self.blocks).transform()
            introspectablepass.IntrospectablePass(self.transformer, self.blocks).validate()
        except SystemExit as e:
            self.fatal = str(e)
            return False
        return True

    def write(self):
        w = RecGIRWriter(self.namespace)
        self.root = w.root
        return w.root

    def xml(self):
        return girwriter.GIRWriter(self.namespace).get_xml()


class FakeXml(object):
    """Minimal ElementTree-like node for GDumpParser input."""

    def __init__(self, tag, attrib=None, children=()):
        self.tag = tag
        self.attrib = dict(attrib or {})
        self.children = list(children)

    def findall(self, tag):
        return [c for c in self.children if c.tag == tag]

    def find(self, tag):
        for c in self.children:
            if c.tag == tag:
                return c
        return None

    def get(self, k, default=None):
        return self.attrib.get(k, default)

    def __iter__(self):
        return iter(self.children)

    def __len__(self):
        return len(self.children)


class IntStr(object):
    """Stand-in for ``str(int)``: decimal rendering of a Python int is trusted,
    so the rendered value is kept as the integer it denotes."""
    __slots__ = ('v',)

    def __init__(self, v):
        self.v = v

    def __eq__(self, other):
        return isinstance(other, IntStr) and self.v == other.v

    def __ne__(self, other):
        return not self.__eq__(other)

    def __hash__(self):
        return hash(self.v)

    def __repr__(self):
        return 'IntStr(%r)' % (self.v,)

    def __str__(self):
        return str(self.v)


def boxed_str(x=''):
    if isinstance(x, bool):
        return builtins.str(x)
    if isinstance(x, int):
        return IntStr(x)
    if isinstance(x, IntStr):
        return x
    return builtins.str(x)


def stub_str_of_int():
    """Shadow ``str`` in the modules that render integers (transformer,
    girwriter) so ``str(int)`` keeps the integer symbolic."""
    transformer.str = boxed_str
    girwriter.str = boxed_str
