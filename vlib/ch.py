"""CH engine: CrossHair on the real Python code (DESIGN 2.1).

A harness is a plain function in /verif/harness/py/<mod>.py returning True
when the property holds on the given inputs (anything else, or an exception,
is a violation).  This runner generates, per partition, a wrapper with a
PEP316 contract (`pre:` = stated bounds, `post: _ == True`) plus a vacuity
twin (`return False` after the call; must be refuted), runs each wrapper in
its own CrossHair process, replays counterexamples under /venv/bin/python
without CrossHair, and maps CrossHair's verdicts:
  Confirmed over all paths  -> confirmed (all values within the bounds)
  counterexample + replays  -> refuted
  counterexample, no replay -> error (exit 3)
  anything else             -> inconclusive
"""
import ast as pyast
import concurrent.futures
import json
import os
import subprocess
import sys
import time

from . import common
from .common import Item

HARNESS_DIR = os.path.join(common.VERIF, 'harness', 'py')


class Cond(object):
    """One CrossHair condition = harness function + fixed args + symbolic args."""

    def __init__(self, module, fn, sym, pre=(), fixed=None, timeout=60, name=None,
                 bounds='', path_timeout=None, functions=(), finding_classifier=None):
        self.module = module          # harness module name (file in harness/py)
        self.fn = fn
        self.sym = list(sym)          # [(argname, 'int'|'bool'|'str'), ...]
        self.pre = list(pre)
        self.fixed = dict(fixed or {})
        self.timeout = timeout
        self.path_timeout = path_timeout
        self.name = name or ('%s.%s[%s]' % (module, fn, ','.join(
            '%s=%r' % kv for kv in sorted(self.fixed.items()))))
        self.bounds = bounds or '; '.join(self.pre)
        self.functions = functions
        self.finding_classifier = finding_classifier


def _wrapper_source(cond, wname):
    params = ', '.join('%s: %s' % (a, t) for a, t in cond.sym)
    callargs = ', '.join(['%s=%r' % kv for kv in sorted(cond.fixed.items())] +
                         ['%s=%s' % (a, a) for a, _ in cond.sym])
    pre = ''.join('    pre: %s\n' % p for p in cond.pre)
    src = '''
def {w}({params}):
    """
{pre}    post: _ == True
    """
    return H.{fn}({callargs})


def {w}_twin({params}):
    """
{pre}    post: _ == True
    """
    H.{fn}({callargs})
    return False
'''.format(w=wname, params=params, pre=pre, fn=cond.fn, callargs=callargs)
    return src


def _gen_module(workdir, idx, cond):
    wname = 'w%d' % idx
    path = os.path.join(workdir, 'chw_%d.py' % idx)
    with open(path, 'w') as f:
        f.write('import sys\n')
        f.write('sys.path.insert(0, %r)\nsys.path.insert(0, %r)\n' % (common.VERIF, HARNESS_DIR))
        f.write('import %s as H\n' % cond.module)
        f.write(_wrapper_source(cond, wname))
    return path, wname


def _run_worker(path, wname, cond):
    res = {}
    for fn, to in ((wname, cond.timeout), (wname + '_twin', min(cond.timeout, 60))):
        cmd = [common.VENV_PY, os.path.join(common.VERIF, 'vlib', 'ch_worker.py'),
               path, fn, str(to)]
        if cond.path_timeout:
            cmd.append(str(cond.path_timeout))
        t0 = time.time()
        try:
            p = subprocess.run(cmd, capture_output=True, text=True, timeout=to * 3 + 120,
                               env=dict(os.environ, PYTHONHASHSEED='0'))
            out = p.stdout
            k = out.rfind('@@CH@@')
            if k < 0:
                r = {'status': 'error', 'messages': [{'state': 'WORKER', 'text': 'no output',
                                                      'tb': (p.stderr or '')[-2000:]}],
                     'paths': 0, 'seconds': time.time() - t0}
            else:
                r = json.loads(out[k + 6:].strip().splitlines()[0])
        except subprocess.TimeoutExpired:
            r = {'status': 'unknown', 'messages': [{'state': 'TIMEOUT', 'text': 'worker wall timeout'}],
                 'paths': 0, 'seconds': time.time() - t0}
        res[fn] = r
    return res


def parse_counterexample(text, wname):
    """'false when calling w3(v=299) (which returns ...)' -> {'v': 299}"""
    k = text.find('when calling ')
    if k < 0:
        return None
    s = text[k + len('when calling '):]
    # take the balanced call expression
    depth = 0
    end = None
    instr = None
    i = 0
    while i < len(s):
        c = s[i]
        if instr:
            if c == '\\':
                i += 1
            elif c == instr:
                instr = None
        elif c in '"\'':
            instr = c
        elif c == '(':
            depth += 1
        elif c == ')':
            depth -= 1
            if depth == 0:
                end = i + 1
                break
        i += 1
    if end is None:
        return None
    try:
        call = pyast.parse(s[:end], mode='eval').body
        out = {}
        for kw in call.keywords:
            out[kw.arg] = pyast.literal_eval(kw.value)
        if call.args:
            out['__pos__'] = [pyast.literal_eval(a) for a in call.args]
        return out
    except (SyntaxError, ValueError):
        return None


def replay(module, fn, kwargs):
    """Run the harness concretely under the repo's interpreter, no CrossHair."""
    cmd = [common.REPO_PY, os.path.join(common.VERIF, 'vlib', 'ch_replay.py'),
           module, fn, json.dumps(kwargs)]
    p = subprocess.run(cmd, capture_output=True, text=True, timeout=300,
                       env=dict(os.environ, PYTHONHASHSEED='0'))
    k = p.stdout.rfind('@@RP@@')
    if k < 0:
        return {'ok': None, 'error': 'replay produced no result: ' + (p.stderr or '')[-1500:]}
    return json.loads(p.stdout[k + 6:].strip().splitlines()[0])


def _judge(cond, wname, res, prop):
    main = res[wname]
    twin = res[wname + '_twin']
    paths = main.get('paths', 0) + twin.get('paths', 0)
    secs = main.get('seconds', 0) + twin.get('seconds', 0)
    base = dict(name=cond.name, engine='CH', bounds=cond.bounds, paths=paths,
                queries=paths, seconds=secs, functions=cond.functions)
    msgs = '; '.join('%s: %s' % (m['state'], m['text'][:300]) for m in main.get('messages', []))
    st = main['status']
    if st == 'error':
        tb = ' | '.join(m.get('tb', '') for m in main.get('messages', []))
        return Item(verdict=common.ERROR, detail='worker error: %s %s' % (msgs, tb), **base)
    if st == 'refuted':
        cex = None
        for m in main['messages']:
            if m['state'] in ('POST_FAIL', 'EXEC_ERR', 'POST_ERR'):
                cex = parse_counterexample(m['text'], wname)
                if cex is not None:
                    break
        if cex is None:
            return Item(verdict=common.ERROR, detail='unparsable counterexample: ' + msgs, **base)
        kwargs = dict(cond.fixed)
        if '__pos__' in cex:
            for (a, _), v in zip(cond.sym, cex.pop('__pos__')):
                kwargs[a] = v
        kwargs.update(cex)
        rp = replay(cond.module, cond.fn, kwargs)
        if rp.get('ok') is False and 'INCONCLUSIVE:' in str(rp.get('result', ''))[:20]:
            # the harness itself says its abstraction does not apply on this input
            return Item(verdict=common.INCONCLUSIVE,
                        detail='harness abstraction not applicable: %s %s' % (kwargs, rp.get('result')), **base)
        if rp.get('ok') is False:
            payload = {'property': prop, 'engine': 'CH', 'module': cond.module, 'fn': cond.fn,
                       'kwargs': kwargs, 'observed': rp, 'crosshair': msgs}
            path = common.write_replay(prop, cond.name, payload)
            key = None
            if cond.finding_classifier:
                key = cond.finding_classifier(kwargs, rp)
            return Item(verdict=common.REFUTED, detail='%s -> %s' % (kwargs, rp.get('result')),
                        sample={'counterexample': kwargs, 'observed': rp.get('result')},
                        replay=path, finding_key=key, **base)
        if rp.get('ok') is True:
            return Item(verdict=common.ERROR,
                        detail='counterexample did not replay (encoding/tool issue): %s ; %s'
                        % (kwargs, msgs), **base)
        return Item(verdict=common.ERROR, detail='replay failed: %s' % rp, **base)
    # main not refuted: vacuity twin must be refuted
    tst = twin['status']
    if st == 'confirmed':
        if tst == 'refuted':
            sample = None
            for m in twin['messages']:
                c = parse_counterexample(m['text'], wname + '_twin')
                if c is not None:
                    sample = {'reachability_witness': c}
                    break
            return Item(verdict=common.CONFIRMED,
                        detail='Confirmed over all paths (%d paths); twin refuted' % main.get('paths', 0),
                        sample=sample, **base)
        if tst == 'confirmed' or tst == 'pre_unsat':
            return Item(verdict=common.ERROR,
                        detail='vacuous: twin %s (harness never reaches its end)' % tst, **base)
        return Item(verdict=common.INCONCLUSIVE,
                    detail='main confirmed but twin %s' % tst, **base)
    if st == 'pre_unsat':
        return Item(verdict=common.INCONCLUSIVE, detail='Unable to meet precondition: ' + msgs, **base)
    return Item(verdict=common.INCONCLUSIVE,
                detail='not confirmed within %ss (%d paths explored, none violating): %s'
                % (cond.timeout, main.get('paths', 0), msgs), **base)


def run(prop, conds, report, jobs=None, seed=0):
    """Run all conditions in parallel; add one Item per condition to report."""
    jobs = jobs or min(16, os.cpu_count() or 4)
    workdir = os.path.join(common.WORK, 'ch', prop)
    os.makedirs(workdir, exist_ok=True)
    for f in os.listdir(workdir):
        if f.startswith('chw_'):
            try:
                os.unlink(os.path.join(workdir, f))
            except OSError:
                pass
    order = list(range(len(conds)))
    if seed:
        import random
        random.Random(seed).shuffle(order)
    gen = {}
    for i in order:
        gen[i] = _gen_module(workdir, i, conds[i])
    items = {}
    with concurrent.futures.ThreadPoolExecutor(max_workers=jobs) as ex:
        futs = {ex.submit(_run_worker, gen[i][0], gen[i][1], conds[i]): i for i in order}
        for fut in concurrent.futures.as_completed(futs):
            i = futs[fut]
            try:
                res = fut.result()
                items[i] = _judge(conds[i], gen[i][1], res, prop)
            except Exception as e:  # runner fault
                items[i] = Item(conds[i].name, 'CH', common.ERROR, detail='runner: %r' % (e,))
    for i in range(len(conds)):
        report.add(items[i])
    return [items[i] for i in range(len(conds))]


def ensure_venv():
    if os.path.exists(common.VENV_PY):
        try:
            subprocess.run([common.VENV_PY, '-c', 'import crosshair, z3'], check=True,
                           capture_output=True, timeout=120)
            return
        except (subprocess.SubprocessError, OSError):
            pass
    subprocess.run(['sh', os.path.join(common.VERIF, 'setup.sh')], check=True)
