"""SCHED engine: the real giscanner.cachestore code over a fake POSIX layer;
schedules, crash points and clock values are explored symbolically (DESIGN 2.4).

* The real `CacheStore.__init__/_check_cache_version/_clean/_cache_is_valid/
  _remove_filename/store/load` run unmodified, one operation per thread; threads
  are used as coroutines (strict hand-off), so a run is a deterministic function
  of its decision vector.
* Every visible file-system call is a scheduling point; the thread publishes the
  call's footprint (objects read / written) before it is executed, which drives a
  sleep-set partial-order reduction (two steps of different threads commute when
  neither writes what the other touches; every write also advances the clock and
  therefore conflicts with every other write).
* Time is symbolic: the k-th write event of a run happens at clock value t_k, a z3
  integer constrained only by t_1 <= t_2 <= ... (equal values = one timestamp
  granule) or t_1 < t_2 < ... in `fine` mode.  `st_mtime` values are proxies; each
  comparison the real code makes is answered by z3: when only one outcome is
  consistent with the constraints collected on the path it is taken, otherwise the
  exploration forks and the chosen outcome is added to the path condition.
* Decisions: which thread runs next, kill a writer at its current step, outcome of a
  clock comparison, whether temp and cache directory are on one device.
"""
import errno as _errno
import os as _real_os
import sys
import threading
import time as _time

import z3

CACHE_DIR = '/cache'
TMP_DIR = '/tmp'
SRC = '/usr/share/gir-1.0/Dep-1.0.gir'


class Killed(BaseException):
    """Raised inside an operation thread to unwind it (crash injection / abort)."""


class Abort(BaseException):
    pass


# ------------------------------------------------------------------------------
# fake file system

class Inode(object):
    _n = 0

    def __init__(self, fs):
        Inode._n += 1
        self.id = fs.next_inode()
        self.chunks = []
        self.mtime_event = 0
        self.text = None


class SymTime(object):
    """st_mtime proxy: clock value of write event `e`."""

    def __init__(self, engine, e):
        self.engine = engine
        self.e = e

    def __ge__(self, other):
        return self.engine.decide_ge(self.e, other.e)

    def __gt__(self, other):
        return not self.engine.decide_ge(other.e, self.e)

    def __le__(self, other):
        return self.engine.decide_ge(other.e, self.e)

    def __lt__(self, other):
        return not self.engine.decide_ge(self.e, other.e)

    def __eq__(self, other):
        return self.engine.decide_ge(self.e, other.e) and self.engine.decide_ge(other.e, self.e)

    def __ne__(self, other):
        return not self.__eq__(other)

    __hash__ = None

    def __str__(self):
        return 't%d' % self.e


class CoarseTime(object):
    """Result of int(st_mtime) (or any other truncation) in the code under test: the
    clock value of event `e` at a coarser granularity.  Order is preserved, distinct
    values may collapse: c_1 <= c_2 <= ... whatever the clock mode."""

    def __init__(self, engine, e):
        self.engine = engine
        self.e = e

    def __ge__(self, other):
        return self.engine.decide_ge(self.e, other.e, coarse=True)

    def __gt__(self, other):
        return not self.engine.decide_ge(other.e, self.e, coarse=True)

    def __le__(self, other):
        return self.engine.decide_ge(other.e, self.e, coarse=True)

    def __lt__(self, other):
        return not self.engine.decide_ge(self.e, other.e, coarse=True)

    def __eq__(self, other):
        return self.engine.decide_ge(self.e, other.e, coarse=True) and self.engine.decide_ge(other.e, self.e, coarse=True)

    def __ne__(self, other):
        return not self.__eq__(other)

    __hash__ = None


class StatResult(object):
    def __init__(self, engine, inode):
        self.st_mtime = SymTime(engine, inode.mtime_event)
        self.st_ino = inode.id


class FakeFile(object):
    def __init__(self, engine, inode, mode, path):
        self.engine = engine
        self.inode = inode
        self.mode = mode
        self.path = path
        self.closed = False
        self.pos = 0

    def __enter__(self):
        return self

    def __exit__(self, *a):
        self.close()
        return False

    def close(self):
        self.closed = True

    def fileno(self):
        return ('fd', self)

    def read(self):
        self.engine.step('read', reads=['inode:%d' % self.inode.id])
        if self.inode.text is not None:
            return self.inode.text
        return list(self.inode.chunks)

    def write(self, data):
        # text files (the version stamp) are written in one piece
        if getattr(self, 'private', False):
            self.inode.text = data
            self.engine.finish_private_write(self.inode)
            return
        self.engine.step('write', writes=['inode:%d' % self.inode.id], clock=True)
        self.inode.text = data
        self.inode.mtime_event = self.engine.clock_event

    def write_chunk(self, chunk, private):
        eng = self.engine
        if private:
            eng.local_write(self.inode, chunk)
        else:
            eng.step('write', writes=['inode:%d' % self.inode.id], clock=True)
            # each open file description has its own offset (chunks have equal size)
            ch = self.inode.chunks
            while len(ch) < self.pos:
                ch.append(('HOLE', None))
            if len(ch) == self.pos:
                ch.append(chunk)
            else:
                ch[self.pos] = chunk
            self.pos += 1
            self.inode.mtime_event = eng.clock_event


def _enoent(path):
    return FileNotFoundError(_errno.ENOENT, 'No such file or directory', path)


class FakeOS(object):
    """Stands for the `os` module inside giscanner.cachestore."""

    def __init__(self, engine):
        self._e = engine
        self.path = _real_os.path
        self.environ = {}

    def stat(self, path):
        eng = self._e
        ino = eng.names.get(path)
        foot = ['path:' + path] + (['inode:%d' % ino.id] if ino else [])
        eng.step('stat', reads=foot, arg=path)
        ino = eng.names.get(path)
        if ino is None:
            raise _enoent(path)
        return StatResult(eng, ino)

    def fstat(self, fd):
        eng = self._e
        f = fd[1] if isinstance(fd, tuple) else fd
        eng.step('fstat', reads=['inode:%d' % f.inode.id])
        return StatResult(eng, f.inode)

    def unlink(self, path):
        eng = self._e
        eng.step('unlink', writes=['path:' + path, 'dir:' + self.path.dirname(path)], arg=path,
                 private=path.startswith(TMP_DIR))
        if path not in eng.names:
            raise _enoent(path)
        del eng.names[path]

    def listdir(self, d):
        eng = self._e
        eng.step('listdir', reads=['dir:' + d])
        return sorted(p[len(d) + 1:] for p in eng.names if self.path.dirname(p) == d)

    def fdopen(self, fd, mode='r', **kw):
        return fd[1]

    def getenv(self, *a):
        return None


class FakeTempfile(object):
    def __init__(self, engine):
        self._e = engine

    def mkstemp(self, prefix='tmp', dir=None):
        eng = self._e
        d = dir or TMP_DIR
        eng.tmp_counter += 1
        path = '%s/%s%d' % (d, prefix, eng.tmp_counter)
        ino = Inode(eng)
        # creation stamps the clock like any write; the name is unique to this thread
        if d == TMP_DIR:
            eng.local_create(path, ino)
        else:
            eng.step('create', writes=['path:' + path, 'dir:' + d], clock=True, arg=path)
            ino.mtime_event = eng.clock_event
            eng.names[path] = ino
        f = FakeFile(eng, ino, 'wb', path)
        f.private = True
        return ('fd', f), path


class FakeShutil(object):
    def __init__(self, engine):
        self._e = engine

    def move(self, src, dst):
        eng = self._e
        same = eng.same_device or _real_os.path.dirname(src) == _real_os.path.dirname(dst)
        if same:
            eng.step('rename', writes=['path:' + src, 'path:' + dst, 'dir:' + _real_os.path.dirname(dst)],
                     arg=dst)
            if src not in eng.names:
                raise _enoent(src)
            eng.names[dst] = eng.names.pop(src)
            return
        # different devices: copy2 (open destination for writing = truncate in place, copy the
        # data in chunks, copy the timestamps) and unlink the source
        sino = eng.names.get(src)
        if sino is None:
            raise _enoent(src)
        eng.step('open-trunc', writes=['path:' + dst, 'dir:' + _real_os.path.dirname(dst)] +
                 (['inode:%d' % eng.names[dst].id] if dst in eng.names else []), clock=True, arg=dst)
        dino = eng.names.get(dst)
        if dino is None:
            dino = Inode(eng)
            eng.names[dst] = dino
        dino.chunks = []
        dino.text = None
        dino.mtime_event = eng.clock_event
        out = FakeFile(eng, dino, 'wb', dst)
        if sino.text is not None:
            out.write(sino.text)
        for ch in list(sino.chunks):
            out.write_chunk(ch, private=False)
        eng.step('copystat', writes=['inode:%d' % dino.id], arg=dst)
        dino.mtime_event = sino.mtime_event
        eng.names.pop(src, None)


class Parse(object):
    """Result of parsing version `version` of the dependency GIR (what GIRParser would build)."""

    def __init__(self, version, by, scanner='hash-A'):
        self.version = version
        self.by = by
        self.scanner = scanner      # version stamp of the scanner process that produced it

    def __repr__(self):
        return 'Parse(v%d)' % self.version


class FakePickle(object):
    def __init__(self, engine):
        self._e = engine

    def dump(self, data, f):
        # two chunks: a reader or a crash can fall between them
        private = getattr(f, 'private', False)
        f.write_chunk(('P1', data), private)
        f.write_chunk(('P2', data), private)
        if private:
            self._e.finish_private_write(f.inode)

    def load(self, f):
        chunks = f.read()
        if isinstance(chunks, str):
            raise self.UnpicklingError('not a pickle')
        if len(chunks) == 2 and chunks[0][0] == 'P1' and chunks[1][0] == 'P2':
            a, b = chunks[0][1], chunks[1][1]
            if a is b or (isinstance(a, Parse) and isinstance(b, Parse) and a.version == b.version):
                # halves of two pickles of the same parse are byte-identical
                return a
            # halves of two different pickles of equal size spliced together: the byte
            # stream can be well formed; what comes out is not the parse of any version
            return Torn(chunks[0][1], chunks[1][1])
        if len(chunks) < 2:
            raise EOFError('Ran out of input')
        raise self.UnpicklingError('invalid load key')

    class UnpicklingError(Exception):
        pass


class Torn(object):
    def __init__(self, a, b):
        self.parts = (a, b)

    def __repr__(self):
        return 'Torn(%r,%r)' % self.parts


# ------------------------------------------------------------------------------
# engine

class OpThread(object):
    def __init__(self, engine, idx, kind, fn, killable):
        self.engine = engine
        self.idx = idx
        self.kind = kind
        self.fn = fn
        self.killable = killable
        self.sem = threading.Semaphore(0)
        self.pending = None       # footprint of the step it is parked at
        self.done = False
        self.killed = False
        self.kill_flag = False
        self.exc = None
        self.result = None
        self.first_step = None
        self.last_step = None
        self.in_load = False
        self.thread = threading.Thread(target=self._main, daemon=True)

    def _main(self):
        eng = self.engine
        try:
            self.sem.acquire()
            if self.kill_flag:
                raise Killed()
            self.result = self.fn(self)
        except Killed:
            self.killed = True
        except Abort as e:
            eng.abort_reason = str(e)
            self.killed = True
        except BaseException as e:          # noqa: B902 - the oracle wants to see everything
            self.exc = e
        self.done = True
        self.pending = None
        eng.main_sem.release()


class Engine(object):
    """One run = one deterministic execution under a decision vector."""

    def __init__(self, scenario, guide, fine_clock=False, z3_seed=0):
        self.scenario = scenario
        self.guide = guide            # list of Frame (DFS stack); extended during the run
        self.depth = 0
        self.fine_clock = fine_clock
        self.names = {}
        self._inode = 0
        self.tmp_counter = 0
        self.clock_event = 0
        self.same_device = True
        self.trace = []
        self.step_no = 0
        self.violations = []
        self.blocked = False
        self.main_sem = threading.Semaphore(0)
        self.threads = []
        self.current = None
        self.solver = z3.Solver()
        self.solver.set('random_seed', z3_seed)
        self.tvars = {0: z3.Int('t0')}
        self.cvars = {}
        self.queries = 0
        self.solver_s = 0.0
        self.src_versions = []        # (version, first step at which it was current)
        self.purge_done_step = None
        self.entries_at_purge = set()
        self.kills_left = scenario.get('kills', 0)

    # -- fs helpers ---------------------------------------------------------------
    def next_inode(self):
        self._inode += 1
        return self._inode

    def t(self, e):
        while len(self.tvars) <= e:
            k = len(self.tvars)
            v = z3.Int('t%d' % k)
            self.tvars[k] = v
            self.solver.add(self.tvars[k - 1] < v if self.fine_clock else self.tvars[k - 1] <= v)
        return self.tvars[e]

    def tick(self):
        self.clock_event += 1
        self.t(self.clock_event)
        return self.clock_event

    def local_create(self, path, ino):
        """A private temp file: nobody else can name it; creation is folded into the
        thread's previous step (its timestamp is set by the final write)."""
        self.names[path] = ino

    def local_write(self, ino, chunk):
        ino.chunks.append(chunk)

    def finish_private_write(self, ino):
        # the last write of a private file is the one whose time other threads can observe
        self.step('write-tmp', writes=['inode:%d' % ino.id], clock=True)
        ino.mtime_event = self.clock_event

    # -- decisions ------------------------------------------------------------------
    def _decide(self, kind, options, labels=None):
        """Returns the chosen option for the next decision point, following the guide."""
        if self.depth < len(self.guide):
            fr = self.guide[self.depth]
            if fr.kind != kind or fr.options != options:
                raise Abort('non-deterministic replay at depth %d: %r vs %r' % (self.depth, (fr.kind, fr.options), (kind, options)))
            fr.labels = labels
        else:
            parent = self.guide[-1] if self.guide else None
            fr = Frame(kind, options, labels)
            if kind == 'sched':
                # sleep set inherited from the nearest scheduling ancestor
                sleep = set()
                anc = None
                for a in reversed(self.guide):
                    if a.kind == 'sched':
                        anc = a
                        break
                if anc is not None:
                    ta = anc.chosen
                    la = anc.labels.get(ta)
                    for s in (anc.sleep | anc.done):
                        if s == ta or s not in labels:
                            continue
                        if independent(anc.labels.get(s), la):
                            sleep.add(s)
                fr.sleep = sleep
                cand = [o for o in options if o not in fr.sleep]
                if not cand:
                    self.blocked = True
                    raise Abort('sleep-set blocked')
                fr.chosen = cand[0]
            else:
                fr.chosen = options[0]
            self.guide.append(fr)
        self.depth += 1
        return fr.chosen

    def c(self, e):
        """coarse (truncated) clock value of event e"""
        self.t(e)
        while len(self.cvars) <= e:
            k = len(self.cvars)
            v = z3.Int('c%d' % k)
            self.cvars[k] = v
            if k:
                self.solver.add(self.cvars[k - 1] <= v)
        return self.cvars[e]

    def decide_ge(self, a, b, coarse=False):
        """Is clock value of event a >= that of event b?  z3 decides feasibility."""
        if a == b:
            return True
        ta, tb = (self.c(a), self.c(b)) if coarse else (self.t(a), self.t(b))
        t0 = _time.time()
        can_ge = self.solver.check(ta >= tb) == z3.sat
        can_lt = self.solver.check(ta < tb) == z3.sat
        self.queries += 2
        self.solver_s += _time.time() - t0
        if can_ge and can_lt:
            out = self._decide('clock', [True, False], {'cmp': 't%d >= t%d' % (a, b)})
        elif can_ge:
            out = True
        elif can_lt:
            out = False
        else:
            raise Abort('inconsistent clock constraints')
        self.solver.add(ta >= tb if out else ta < tb)
        self.trace.append(('clock', self.current.idx if self.current else -1, 't%d>=t%d' % (a, b), out))
        return out

    # -- scheduling -------------------------------------------------------------------
    def step(self, name, reads=(), writes=(), clock=False, arg=None, private=False):
        """Called by an operation thread right before a visible file-system call."""
        th = self.current
        if private:
            return
        foot = {'name': name, 'r': set(reads), 'w': set(writes), 'arg': arg}
        if clock:
            foot['w'].add('clock')
        # the oracle relates the span of a load to the history of the source file and of
        # purges: those orders are observable, so the steps involved do not commute
        if th.in_load:
            foot['r'].update(('src-history', 'purge-history'))
        if th.kind in ('purge', 'vload') and not th.in_load:
            foot['w'].add('purge-history')
        th.pending = foot
        self.main_sem.release()
        th.sem.acquire()
        if th.kill_flag:
            raise Killed()
        # now executing the step
        th.pending = None
        self.step_no += 1
        if th.first_step is None:
            th.first_step = self.step_no
        th.last_step = self.step_no
        if clock:
            self.tick()
        self.trace.append(('step', th.idx, name, arg, self.step_no))

    def run(self):
        sc = self.scenario
        ns = install(self)
        try:
            self._setup(sc)
            if sc.get('cross_device_option'):
                self.same_device = self._decide('device', [True, False])
            for i, (kind, arg) in enumerate(sc['ops']):
                fn = OPS[kind](self, arg)
                th = OpThread(self, i, kind, fn, killable=kind in ('store', 'parse_include', 'purge', 'vload'))
                self.threads.append(th)
                th.thread.start()
            # bring every thread to its first scheduling point
            for th in self.threads:
                self.current = th
                th.sem.release()
                self.main_sem.acquire()
            while True:
                enabled = [th for th in self.threads if not th.done]
                if not enabled:
                    break
                options = [th.idx for th in enabled]
                labels = dict((th.idx, th.pending) for th in enabled)
                if self.kills_left > 0:
                    for th in enabled:
                        if th.killable and th.first_step is not None:
                            options.append(('kill', th.idx))
                            labels[('kill', th.idx)] = {'name': 'kill', 'r': set(), 'w': set(['thread:%d' % th.idx, 'kills']), 'arg': None}
                    for th in enabled:
                        labels[th.idx] = dict(labels[th.idx])
                        labels[th.idx]['w'] = set(labels[th.idx]['w']) | set(['thread:%d' % th.idx])
                choice = self._decide('sched', options, labels)
                if isinstance(choice, tuple):
                    th = self.threads[choice[1]]
                    self.kills_left -= 1
                    th.kill_flag = True
                    self.trace.append(('kill', th.idx, th.pending['name'] if th.pending else None))
                else:
                    th = self.threads[choice]
                self.current = th
                th.sem.release()
                self.main_sem.acquire()
            if getattr(self, 'abort_reason', None) is None:
                self._final_checks()
        except Abort as e:
            self.abort_reason = str(e)
        finally:
            self._unwind()
            uninstall(ns)
        return self

    def _unwind(self):
        for th in self.threads:
            if not th.done:
                th.kill_flag = True
                th.sem.release()
        for th in self.threads:
            th.thread.join(timeout=5)

    # -- scenario ---------------------------------------------------------------------------
    def _setup(self, sc):
        src = Inode(self)
        self.tick()
        src.mtime_event = self.clock_event
        src.text = 'v1'
        self.names[SRC] = src
        self.src_versions = [(1, 0)]
        vino = Inode(self)
        vino.text = 'hash-A'
        self.names[CACHE_DIR + '/.cache-version'] = vino
        init = sc.get('initial_entry')
        if init:
            ino = Inode(self)
            p = Parse(1, 'initial')
            ino.chunks = [('P1', p), ('P2', p)]
            if init == 'torn':
                ino.chunks = [('P1', p)]
            self.tick()
            ino.mtime_event = self.clock_event
            self.names[entry_path()] = ino
        self.initial_names = set(self.names)

    def current_version(self):
        return self.src_versions[-1][0]

    def _final_checks(self):
        for th in self.threads:
            if th.exc is not None:
                self.violations.append('operation %d (%s) raised %s: %s' % (th.idx, th.kind, type(th.exc).__name__, th.exc))
        for th in self.threads:
            if th.kind not in ('load', 'parse_include', 'vload') or th.killed or th.exc is not None:
                continue
            res = th.result
            got = res.get('loaded') if isinstance(res, dict) else None
            if got is None:
                continue
            if not isinstance(got, Parse):
                self.violations.append('operation %d: load returned torn data %r' % (th.idx, got))
                continue
            lo, hi = res['load_first'], res['load_last']
            ok = False
            for k, (v, since) in enumerate(self.src_versions):
                until = self.src_versions[k + 1][1] if k + 1 < len(self.src_versions) else 10 ** 9
                if v == got.version and since <= hi and until > lo:
                    ok = True
            if not ok:
                self.violations.append(
                    'operation %d: load (steps %d..%d) returned the parse of version %d, which was not current at any '
                    'moment of the load (versions: %r)' % (th.idx, lo, hi, got.version, self.src_versions))
            if res.get('after_purge') and got.by == 'initial':
                self.violations.append('operation %d: entry from before the version change was returned' % th.idx)
            if res.get('scanner') and got.scanner != res['scanner']:
                self.violations.append('operation %d: a scanner with version stamp %s was served an entry written by '
                                       'a scanner with stamp %s' % (th.idx, res['scanner'], got.scanner))


def entry_path():
    import hashlib
    return CACHE_DIR + '/' + hashlib.sha1(SRC.encode('utf-8')).hexdigest()


def independent(a, b):
    if a is None or b is None:
        return False
    if a['w'] & (b['w'] | b['r']):
        return False
    if b['w'] & a['r']:
        return False
    return True


class Frame(object):
    def __init__(self, kind, options, labels):
        self.kind = kind
        self.options = options
        self.labels = labels
        self.chosen = None
        self.done = set()
        self.sleep = set()


# ------------------------------------------------------------------------------
# operations (each returns the function run inside its thread)

def _store_obj(eng, version_hash):
    from giscanner import cachestore
    eng.version_of_thread[threading.get_ident()] = version_hash
    return cachestore.CacheStore.__new__(cachestore.CacheStore)


def op_load(eng, arg):
    def run(th):
        from giscanner import cachestore
        cs = cachestore.CacheStore.__new__(cachestore.CacheStore)
        cs._directory = CACHE_DIR
        first = eng.step_no + 1
        th.in_load = True
        data = cs.load(SRC)
        th.in_load = False
        return {'loaded': data, 'load_first': th.first_step or first, 'load_last': th.last_step or first,
                'after_purge': eng.purge_done_step is not None and (th.first_step or first) > eng.purge_done_step}
    return run


def op_store(eng, arg):
    def run(th):
        from giscanner import cachestore
        cs = cachestore.CacheStore.__new__(cachestore.CacheStore)
        cs._directory = CACHE_DIR
        # the caller parsed the source just before storing
        eng.step('read-src', reads=['path:' + SRC])
        p = Parse(eng.current_version(), th.idx)
        cs.store(SRC, p)
        return {}
    return run


def op_parse_include(eng, arg):
    """Call pattern of Transformer._parse_include: load; on a miss parse and store."""
    def run(th):
        from giscanner import cachestore
        cs = cachestore.CacheStore.__new__(cachestore.CacheStore)
        cs._directory = CACHE_DIR
        first = eng.step_no + 1
        th.in_load = True
        data = cs.load(SRC)
        th.in_load = False
        res = {'loaded': data, 'load_first': th.first_step or first, 'load_last': th.last_step or first,
               'after_purge': eng.purge_done_step is not None and (th.first_step or first) > eng.purge_done_step}
        if data is None:
            eng.step('read-src', reads=['path:' + SRC])
            p = Parse(eng.current_version(), th.idx)
            cs.store(SRC, p)
        return res
    return run


def op_modify(eng, arg):
    def run(th):
        eng.step('write-src', writes=['path:' + SRC, 'src-history'], clock=True)
        ino = eng.names[SRC]
        v = eng.current_version() + 1
        ino.text = 'v%d' % v
        ino.mtime_event = eng.clock_event
        eng.src_versions.append((v, eng.step_no))
        return {}
    return run


def op_purge(eng, arg):
    """A scanner of another version starts: CacheStore() -> _check_cache_version."""
    def run(th):
        from giscanner import cachestore
        eng.version_of_thread[threading.get_ident()] = 'hash-B'
        cs = cachestore.CacheStore.__new__(cachestore.CacheStore)
        cs._directory = CACHE_DIR
        cs._check_cache_version()
        eng.purge_done_step = eng.step_no
        return {}
    return run


def op_vload(eng, arg):
    """A scanner of the new version starts (CacheStore(): version check, purge) and loads."""
    def run(th):
        from giscanner import cachestore
        eng.version_of_thread[threading.get_ident()] = 'hash-B'
        cs = cachestore.CacheStore.__new__(cachestore.CacheStore)
        cs._directory = CACHE_DIR
        cs._check_cache_version()
        first = eng.step_no + 1
        th.in_load = True
        data = cs.load(SRC)
        th.in_load = False
        return {'loaded': data, 'load_first': first, 'load_last': th.last_step or first, 'scanner': 'hash-B'}
    return run


OPS = {'vload': op_vload, 'load': op_load, 'store': op_store, 'parse_include': op_parse_include, 'modify': op_modify,
       'purge': op_purge}


# ------------------------------------------------------------------------------
# installing the fake layer into giscanner.cachestore

_install_lock = threading.Lock()


def install(eng):
    from giscanner import cachestore
    _install_lock.acquire()
    eng.version_of_thread = {}
    saved = {}
    fake_os = FakeOS(eng)

    def fake_open(path, mode='r', **kw):
        if 'r' in mode:
            eng.step('open', reads=['path:' + path], arg=path)
            ino = eng.names.get(path)
            if ino is None:
                raise _enoent(path)
            return FakeFile(eng, ino, mode, path)
        raise NotImplementedError('open for writing by path')

    import builtins as _b

    def fake_int(x=0, *a):
        # int(st_mtime): truncation to a coarser granularity
        if isinstance(x, SymTime):
            return CoarseTime(eng, x.e)
        return _b.int(x, *a)

    def fake_round(x, *a):
        if isinstance(x, SymTime):
            return CoarseTime(eng, x.e)
        return _b.round(x, *a)

    repl = {'os': fake_os, 'open': fake_open, 'int': fake_int, 'round': fake_round, 'shutil': FakeShutil(eng), 'tempfile': FakeTempfile(eng),
            'pickle': FakePickle(eng),
            '_get_versionhash': lambda: eng.version_of_thread.get(threading.get_ident(), 'hash-A')}
    for k, v in repl.items():
        saved[k] = cachestore.__dict__.get(k, _MISSING)
        cachestore.__dict__[k] = v
    return saved


_MISSING = object()


def uninstall(saved):
    from giscanner import cachestore
    for k, v in saved.items():
        if v is _MISSING:
            cachestore.__dict__.pop(k, None)
        else:
            cachestore.__dict__[k] = v
    _install_lock.release()


# ------------------------------------------------------------------------------
# exploration

class Result(object):
    def __init__(self):
        self.runs = 0
        self.blocked = 0
        self.queries = 0
        self.solver_s = 0.0
        self.violations = []      # (text, decision vector, trace)
        self.max_depth = 0
        self.exhausted = False
        self.errors = []


def explore(scenario, fine_clock=False, max_runs=200000, time_limit=600, stop_at_first=False, seed=0,
            classify=None):
    """Depth-first exploration of every decision vector with sleep sets."""
    res = Result()
    guide = []
    t0 = _time.time()
    seen_keys = set()
    while True:
        if res.runs >= max_runs or _time.time() - t0 > time_limit:
            return res
        eng = Engine(scenario, guide, fine_clock=fine_clock, z3_seed=seed)
        eng.run()
        res.runs += 1
        res.queries += eng.queries
        res.solver_s += eng.solver_s
        res.max_depth = max(res.max_depth, len(guide))
        reason = getattr(eng, 'abort_reason', None)
        if eng.blocked:
            res.blocked += 1
        elif reason:
            res.errors.append(reason)
            return res
        for v in eng.violations:
            key = classify(v, eng) if classify else v
            if key not in seen_keys:
                seen_keys.add(key)
                res.violations.append((v, decision_vector(guide), list(eng.trace), key))
            if stop_at_first:
                return res
        # backtrack: deepest frame with an unexplored alternative
        while guide:
            fr = guide[-1]
            fr.done.add(fr.chosen) if fr.kind == 'sched' else fr.done.add(fr.chosen)
            if fr.kind == 'sched':
                cand = [o for o in fr.options if o not in fr.done and o not in fr.sleep]
            else:
                cand = [o for o in fr.options if o not in fr.done]
            if cand:
                fr.chosen = cand[0]
                break
            guide.pop()
        if not guide:
            res.exhausted = True
            return res


def decision_vector(guide):
    return [(fr.kind, fr.options.index(fr.chosen)) for fr in guide]


def replay_vector(scenario, vector, fine_clock=False):
    """Re-run one decision vector (used to show a violating history)."""
    guide = []
    eng = Engine(scenario, guide, fine_clock=fine_clock)
    # pre-seed the guide lazily: wrap _decide
    orig = eng._decide
    it = iter(vector)

    def forced(kind, options, labels=None):
        try:
            k, i = next(it)
        except StopIteration:
            return orig(kind, options, labels)
        fr = Frame(kind, options, labels)
        fr.chosen = options[i]
        eng.guide.append(fr)
        eng.depth += 1
        return fr.chosen
    eng._decide = forced
    eng.run()
    return eng
