"""Shared plumbing: results, evidence, known findings, exit codes."""
import hashlib
import json
import os
import sys
import time

VERIF = os.path.dirname(os.path.dirname(os.path.abspath(__file__)))
REPO = os.environ.get('GI_VERIF_REPO', '/repo')
WORK = os.path.join(VERIF, '.work')
EVIDENCE_DIR = os.path.join(VERIF, 'evidence')
REPLAY_DIR = os.path.join(VERIF, 'replays')
FINDINGS = os.path.join(VERIF, 'known_findings.txt')
VENV_PY = os.path.join(VERIF, '.venv', 'bin', 'python')
REPO_PY = '/venv/bin/python'

EXIT_OK, EXIT_VIOLATION, EXIT_HARNESS = 0, 1, 3

# verdict classes of one item (= one solver-decided obligation)
CONFIRMED = 'confirmed'        # solver: holds for every value within the item's bounds
REFUTED = 'refuted'            # solver counterexample that replayed on the real code
INCONCLUSIVE = 'inconclusive'  # timeout / unknown / unwinding bound hit: claims nothing
ERROR = 'error'                # harness or translator fault (exit 3)
KNOWN = 'known-finding'        # replayed counterexample listed in known_findings.txt


class Item(object):
    def __init__(self, name, engine, verdict, bounds='', paths=0, queries=0,
                 seconds=0.0, detail='', sample=None, replay=None, finding_key=None,
                 functions=()):
        self.name = name
        self.engine = engine
        self.verdict = verdict
        self.bounds = bounds
        self.paths = paths
        self.queries = queries
        self.seconds = seconds
        self.detail = detail
        self.sample = sample
        self.replay = replay
        self.finding_key = finding_key
        self.functions = list(functions)

    def as_dict(self):
        d = dict(self.__dict__)
        return d


def file_hash(path):
    try:
        with open(path, 'rb') as f:
            return hashlib.sha256(f.read()).hexdigest()[:16]
    except OSError:
        return None


def load_findings():
    """known_findings.txt: lines
       finding: property=<id> key=<key> <free text>
       fixed: property=<id> <commit> <free text>
    Only `finding:` lines suppress; `fixed:` lines suppress nothing."""
    out = {}
    if not os.path.exists(FINDINGS):
        return out
    for line in open(FINDINGS):
        line = line.strip()
        if not line.startswith('finding:'):
            continue
        parts = line[len('finding:'):].split()
        prop = key = None
        rest = []
        for p in parts:
            if p.startswith('property=') and prop is None:
                prop = p[len('property='):]
            elif p.startswith('key=') and key is None:
                key = p[len('key='):]
            else:
                rest.append(p)
        if prop and key:
            out.setdefault(prop, {})[key] = ' '.join(rest)
    return out


def write_replay(prop, name, payload):
    os.makedirs(REPLAY_DIR, exist_ok=True)
    safe = ''.join(c if c.isalnum() or c in '-_.' else '_' for c in name)[:80]
    path = os.path.join(REPLAY_DIR, '%s_%s.json' % (prop, safe))
    with open(path, 'w') as f:
        json.dump(payload, f, indent=1, default=str)
    return path


class Report(object):
    """Collects items of one check run, writes evidence, decides exit status."""

    def __init__(self, prop, tier, seed, level='model_checking'):
        self.prop = prop
        self.tier = tier
        self.seed = seed
        self.level = level
        self.items = []
        self.assumptions = []
        self.functions = []
        self.notes = []
        self.t0 = time.time()
        self.validation = {}
        self.extra = {}

    def add(self, item):
        self.items.append(item)

    def assume(self, *texts):
        for t in texts:
            if t not in self.assumptions:
                self.assumptions.append(t)

    def encode(self, relpath, *names):
        """Record functions of /repo executed symbolically (with file hash)."""
        h = file_hash(os.path.join(REPO, relpath))
        for n in names:
            self.functions.append('%s:%s@%s' % (relpath, n, h))

    def finish(self):
        known = load_findings().get(self.prop, {})
        violations = []
        known_hits = []
        errors = []
        for it in self.items:
            if it.verdict == REFUTED:
                if it.finding_key and it.finding_key in known:
                    it.verdict = KNOWN
                    known_hits.append(it)
                else:
                    violations.append(it)
            elif it.verdict == ERROR:
                errors.append(it)
        n_conf = sum(1 for i in self.items if i.verdict == CONFIRMED)
        n_inc = sum(1 for i in self.items if i.verdict == INCONCLUSIVE)
        paths = sum(i.paths for i in self.items)
        queries = sum(i.queries for i in self.items)
        solver_s = round(sum(i.seconds for i in self.items), 2)
        samples = []
        for it in self.items:
            if it.sample is not None and len(samples) < 12:
                samples.append({'item': it.name, 'verdict': it.verdict, 'sample': it.sample})
        if not samples:
            samples = [{'item': i.name, 'verdict': i.verdict, 'bounds': i.bounds}
                       for i in self.items[:5]] or ['no items ran']
        cov = {
            'states': max(paths, 1),
            'transitions': max(queries, 1),
            'traces_validated_against_impl': int(self.validation.get('concrete_agreements', 0)),
            'samples': samples,
            'evaluations': max(len(self.items), 1),
            'distinct_nontrivial': n_conf,
            'rule': 'one item = one solver-decided obligation (a CrossHair condition over a '
                    'partition of the symbolic inputs, a z3 regex/LIA query, an LLSYM assertion '
                    'over all explored paths, or a SCHED exploration); states = execution paths '
                    'explored symbolically, transitions = solver queries discharged; '
                    'distinct_nontrivial = items confirmed (vacuity twins refuted separately)',
            'exhaustive': bool(self.items) and n_inc == 0 and not errors and not violations,
            'items_total': len(self.items),
            'items_confirmed': n_conf,
            'items_inconclusive': n_inc,
            'items_known_finding': len(known_hits),
            'items_error': len(errors),
            'solver_seconds': solver_s,
            'functions_encoded': self.functions,
            'items': [{'name': i.name, 'engine': i.engine, 'verdict': i.verdict,
                       'bounds': i.bounds, 'paths': i.paths, 'queries': i.queries,
                       'seconds': i.seconds, 'detail': i.detail[:400]} for i in self.items],
            'translator_validation': self.validation,
            'notes': self.notes,
        }
        cov.update(self.extra)
        ev = {
            'property_id': self.prop,
            'tier': self.tier,
            'seed': self.seed,
            'level': self.level,
            'coverage': cov,
            'assumptions': self.assumptions,
            'wall_s': round(time.time() - self.t0, 2),
            'violations': len(violations),
        }
        os.makedirs(EVIDENCE_DIR, exist_ok=True)
        with open(os.path.join(EVIDENCE_DIR, '%s.json' % self.prop), 'w') as f:
            json.dump(ev, f, indent=1, default=str)
        seen = {}
        for it in known_hits:
            seen.setdefault(it.finding_key, []).append(it.name)
        for key, names in sorted(seen.items()):
            print('KNOWN-FINDING: property=%s %s %s (reproduced by %d item(s), e.g. %s)' % (
                self.prop, key, known[key], len(names), names[0]))
        print('%s tier=%s items=%d confirmed=%d inconclusive=%d known=%d violations=%d '
              'errors=%d paths=%d queries=%d solver_s=%.1f wall_s=%.1f' % (
                  self.prop, self.tier, len(self.items), n_conf, n_inc, len(known_hits),
                  len(violations), len(errors), paths, queries, solver_s, ev['wall_s']))
        for it in self.items:
            if it.verdict == INCONCLUSIVE:
                print('  inconclusive: %s (%s) %s' % (it.name, it.bounds, it.detail[:200]))
        if errors:
            for it in errors:
                print('HARNESS-ERROR property=%s item=%s %s' % (self.prop, it.name, it.detail[:1500]))
            sys.stdout.flush()
            return EXIT_HARNESS
        if violations:
            for it in violations:
                print('VIOLATION property=%s replay=%s' % (self.prop, it.replay))
                print('  item=%s key=%s %s' % (it.name, it.finding_key, it.detail[:600]))
            sys.stdout.flush()
            return EXIT_VIOLATION
        sys.stdout.flush()
        return EXIT_OK
