"""Helpers for harnesses that run both under CrossHair and concretely (replay).

`concrete(a, b, ...)`: under CrossHair, realise finite-choice inputs: the solver
picks a value consistent with the path condition, the choice becomes a branch of
the exploration tree, and the remaining values are explored on later paths until
the solver reports that none is left ("Confirmed over all paths").  Outside
CrossHair: identity.

`untraced()`: once every input the code depends on has been realised, the real
code is run without opcode interception (it is then an ordinary concrete run for
that path; ~100x faster).  Harnesses with unbounded symbolic inputs (integers,
strings) do not use it.
"""
import contextlib


def _tracing():
    try:
        from crosshair.tracers import is_tracing
        return is_tracing()
    except Exception:
        return False


def concrete(*vals):
    if not _tracing():
        return vals if len(vals) != 1 else vals[0]
    from crosshair.core import realize
    out = tuple(realize(v) for v in vals)
    return out if len(out) != 1 else out[0]


@contextlib.contextmanager
def untraced():
    if not _tracing():
        yield
        return
    from crosshair.tracers import NoTracing
    with NoTracing():
        yield


def pick(v, lo, hi):
    """Concrete value of the finite-choice input v, lo <= v <= hi (the caller's
    `pre:` states the same range).  Under CrossHair the value is found by binary
    search with ordinary comparisons: each comparison is a solver-decided fork of
    the exploration tree, so the tree has depth log2(hi-lo+1) per input instead of
    the linear != chain `realize` builds, and every value in range is a leaf."""
    if not _tracing():
        return v
    if isinstance(v, bool) or (lo == 0 and hi == 1 and type(v).__name__.endswith('Bool')):
        return True if v else False
    while lo < hi:
        mid = (lo + hi) // 2
        if v <= mid:
            hi = mid
        else:
            lo = mid + 1
    return lo


def flag(v):
    if not _tracing():
        return v
    return True if v else False
