"""./check <ID> [--tier quick|thorough] [--replay file]"""
import argparse
import importlib
import json
import os
import sys
import traceback

from . import common


def main():
    ap = argparse.ArgumentParser()
    ap.add_argument('prop')
    ap.add_argument('--tier', default=os.environ.get('VERIF_TIER', 'quick'),
                    choices=['quick', 'thorough'])
    ap.add_argument('--replay', default=None)
    ap.add_argument('--only', default=None, help='substring filter on item names (debugging)')
    args = ap.parse_args()
    prop = args.prop.upper()
    seed = int(os.environ.get('VERIF_SEED', '0') or 0)
    sys.path.insert(0, common.VERIF)
    try:
        mod = importlib.import_module('checks.%s' % prop.lower())
    except ImportError:
        print('no check for %s' % prop)
        traceback.print_exc()
        return common.EXIT_HARNESS
    if args.replay:
        payload = json.load(open(args.replay))
        return mod.replay(payload)
    report = common.Report(prop, args.tier, seed)
    try:
        mod.run(report, args.tier, seed, only=args.only)
    except Exception:
        report.add(common.Item('check-driver', 'driver', common.ERROR,
                               detail=traceback.format_exc()[-3000:]))
    return report.finish()


if __name__ == '__main__':
    sys.exit(main())
