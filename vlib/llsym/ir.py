"""Parser for the textual LLVM IR subset clang-14 -O1 emits for the LLSYM harnesses.

Module(text) gives:
  .types      name -> type (None while opaque)
  .globals    name -> Global(type, init constant, is_const, external, align)
  .functions  name -> Function (defined; body text kept, blocks parsed on first use)
  .declares   name -> Function (declared only, .blocks is None)
plus the layout helpers size_of / align_of / field_offset derived from the
module's datalayout (little endian, 64-bit pointers are required).

Types are tuples: ('int', bits) ('ptr', pointee) ('array', n, elem)
('struct', fields, packed) ('named', name) ('fp', 'float'|'double') ('void',)
('func', ret, params, vararg).
Operands are tuples: ('i', value) integer already reduced modulo 2**bits,
('v', name) SSA value, ('g', name) address of a global or function,
('u', bits) undef/poison, ('ce', op, ...) constant expression,
and for initialisers ('zero',) ('agg', [operands]) ('bytes', b'...').

Anything outside the subset raises IRError naming the construct; function
bodies are parsed lazily, so an unsupported instruction only matters if the
function is actually reached by the executor (which then fails the run).
"""
import re
import struct


class IRError(Exception):
    pass


VOID = ('void',)
I1, I8, I32, I64 = ('int', 1), ('int', 8), ('int', 32), ('int', 64)

_TOKEN = re.compile(r'''
    (?P<ws>\s+)
  | (?P<cstr>c"(?:[^"])*")
  | (?P<str>"(?:[^"])*")
  | (?P<gid>@(?:"[^"]*"|[-a-zA-Z$._0-9]+))
  | (?P<lid>%(?:"[^"]*"|[-a-zA-Z$._0-9]+))
  | (?P<meta>![-a-zA-Z$._0-9]*)
  | (?P<attr>\#\d+)
  | (?P<hex>0x[KLMHR]?[0-9A-Fa-f]+)
  | (?P<flt>-?\d+\.\d*(?:e[+-]?\d+)?)
  | (?P<int>-?\d+)
  | (?P<dots>\.\.\.)
  | (?P<word>[a-zA-Z_][a-zA-Z0-9_.]*)
  | (?P<p>[()\[\]{}<>,=*:])
''', re.X)


def tokenize(s):
    out = []
    pos = 0
    n = len(s)
    while pos < n:
        if s[pos] == ';':           # comment to end of line
            nl = s.find('\n', pos)
            pos = n if nl < 0 else nl
            continue
        m = _TOKEN.match(s, pos)
        if not m:
            raise IRError('cannot tokenize at %r' % s[pos:pos + 40])
        pos = m.end()
        k = m.lastgroup
        if k != 'ws':
            out.append((k, m.group()))
    return out


def _unq(name):
    """%"a b" -> a b ; %x -> x"""
    name = name[1:]
    if name.startswith('"'):
        name = name[1:-1]
    return name


def _cstring(tok):
    """c"ab\\00" -> bytes"""
    body = tok[2:-1]
    out = bytearray()
    i = 0
    while i < len(body):
        if body[i] == '\\':
            if body[i + 1] == '\\':
                out.append(0x5c)
                i += 2
            else:
                out.append(int(body[i + 1:i + 3], 16))
                i += 3
        else:
            out.append(ord(body[i]))
            i += 1
    return bytes(out)


# attribute words that may decorate parameters, return values and calls; skipped
_PARAM_ATTRS = {'noundef', 'nonnull', 'nocapture', 'readonly', 'writeonly', 'readnone', 'signext',
                'zeroext', 'inreg', 'noalias', 'nofree', 'returned', 'immarg', 'nest', 'swiftself',
                'nonlazybind'}
_PARAM_ATTRS_ARG = {'align', 'dereferenceable', 'dereferenceable_or_null', 'byval', 'sret',
                    'byref', 'preallocated', 'inalloca', 'elementtype'}
_LINKAGE = {'private', 'internal', 'external', 'common', 'weak', 'weak_odr', 'linkonce',
            'linkonce_odr', 'available_externally', 'appending', 'extern_weak', 'dso_local',
            'dso_preemptable', 'hidden', 'protected', 'default', 'unnamed_addr',
            'local_unnamed_addr', 'thread_local', 'externally_initialized'}
_CCONV = {'fastcc', 'ccc', 'coldcc', 'tailcc'}
_FN_ATTR_WORDS = {'nounwind', 'noreturn', 'readnone', 'readonly', 'cold', 'noinline', 'willreturn',
                  'nofree', 'nosync', 'mustprogress', 'argmemonly', 'norecurse', 'uwtable',
                  'inaccessiblememonly', 'speculatable', 'nobuiltin', 'builtin', 'allocsize',
                  'writeonly', 'nocallback', 'alwaysinline', 'optsize', 'minsize'}
_BINOPS = {'add', 'sub', 'mul', 'udiv', 'sdiv', 'urem', 'srem', 'and', 'or', 'xor', 'shl',
           'lshr', 'ashr'}
_CASTS = {'zext', 'sext', 'trunc', 'bitcast', 'ptrtoint', 'inttoptr'}
_FLAGS = {'nsw', 'nuw', 'exact', 'inbounds', 'volatile'}


class Global(object):
    def __init__(self, name, ty, init, is_const, external, align):
        self.name, self.ty, self.init = name, ty, init
        self.is_const, self.external, self.align = is_const, external, align


class Instr(object):
    """One instruction. op names the opcode; the other slots are per opcode:
       binop: ty,a,b,flags | icmp: pred,ty,a,b | cast: op,ty(from),a,ty2(to)
       load: ty,a(ptr) | store: ty,a(value),b(ptr) | alloca: ty,a(count)
       gep: ty(source elem),a(ptr),idx=[(ty,operand)] | phi: ty,inc=[(operand,label)]
       select: ty,a(cond),b,c | call: ty(ret),fn(operand),args=[(ty,operand)]
       br: a(label) | condbr: a(cond),b,c | switch: ty,a,b(default),cases=[(int,label)]
       ret: ty,a | unreachable | freeze: ty,a"""
    __slots__ = ('op', 'dest', 'ty', 'ty2', 'a', 'b', 'c', 'pred', 'flags', 'idx', 'inc', 'fn',
                 'args', 'cases', 'text')

    def __init__(self, op, text):
        self.op = op
        self.text = text
        self.dest = None
        self.flags = ()


class Block(object):
    def __init__(self, label):
        self.label = label
        self.phis = []
        self.instrs = []
        self.trivial_to = None   # label if the block is only `br label %X`


class Function(object):
    def __init__(self, module, name, ret, params, vararg, body_lines, noreturn=False):
        self.module, self.name, self.ret = module, name, ret
        self.params = params            # [(type, name)]
        self.vararg = vararg
        self._body = body_lines         # None for declarations
        self._blocks = None
        self.entry = None
        self.noreturn = noreturn

    @property
    def defined(self):
        return self._body is not None

    @property
    def blocks(self):
        if self._blocks is None and self._body is not None:
            self._blocks, self.entry = _FnParser(self.module, self).parse()
        return self._blocks


class _P(object):
    """Token cursor with the shared type / operand grammar."""

    def __init__(self, module, toks, where=''):
        self.m = module
        self.t = toks
        self.i = 0
        self.where = where

    def peek(self, k=0):
        j = self.i + k
        return self.t[j] if j < len(self.t) else ('eof', '')

    def next(self):
        tok = self.peek()
        self.i += 1
        return tok

    def at(self, text):
        return self.peek()[1] == text

    def accept(self, text):
        if self.peek()[1] == text:
            self.i += 1
            return True
        return False

    def expect(self, text):
        tok = self.next()
        if tok[1] != text:
            raise IRError('expected %r, got %r in %s' % (text, tok[1], self.where))

    def done(self):
        return self.i >= len(self.t)

    # ---- types
    def type(self):
        k, v = self.next()
        if k == 'word':
            if re.match(r'^i\d+$', v):
                t = ('int', int(v[1:]))
            elif v == 'void':
                t = VOID
            elif v in ('float', 'double'):
                t = ('fp', v)
            elif v in ('x86_fp80', 'half', 'fp128', 'bfloat', 'ppc_fp128'):
                t = ('fp', v)
            elif v == 'ptr':
                raise IRError('opaque pointers are not supported (clang-14 typed pointers expected)')
            elif v in ('label', 'metadata', 'token'):
                t = (v,)
            else:
                raise IRError('unknown type word %r in %s' % (v, self.where))
        elif k == 'lid':
            t = ('named', _unq(v))
        elif v == '[':
            n = int(self.next()[1])
            self.expect('x')
            e = self.type()
            self.expect(']')
            t = ('array', n, e)
        elif v == '{':
            t = ('struct', tuple(self._type_list('}')), False)
        elif v == '<':
            if self.at('{'):
                self.next()
                fields = tuple(self._type_list('}'))
                self.expect('>')
                t = ('struct', fields, True)
            else:
                raise IRError('vector types are not supported in %s' % self.where)
        else:
            raise IRError('bad type token %r in %s' % (v, self.where))
        # suffixes: pointers and function types
        while True:
            if self.at('*'):
                self.next()
                t = ('ptr', t)
            elif self.at('(') and self._looks_like_fnty():
                self.next()
                params, vararg = [], False
                while not self.at(')'):
                    if self.at('...'):
                        self.next()
                        vararg = True
                    else:
                        params.append(self.type())
                        self.skip_param_attrs()
                    self.accept(',')
                self.expect(')')
                t = ('func', t, tuple(params), vararg)
            elif self.peek()[1] == 'addrspace':
                raise IRError('address spaces are not supported')
            else:
                return t

    def _looks_like_fnty(self):
        """Does the '(' after a type start a function type?"""
        depth, j = 0, self.i
        while j < len(self.t):
            v = self.t[j][1]
            if v == '(':
                depth += 1
            elif v == ')':
                depth -= 1
                if depth == 0:     # `T (..)*` anywhere, or `call T (..) @callee(` for varargs callees
                    return j + 1 < len(self.t) and (self.t[j + 1][1] == '*' or
                                                    self.t[j + 1][0] in ('gid', 'lid'))
            j += 1
        return False

    def _type_list(self, close):
        out = []
        while not self.at(close):
            out.append(self.type())
            self.accept(',')
        self.expect(close)
        return out

    def skip_param_attrs(self):
        while True:
            k, v = self.peek()
            if k == 'word' and v in _PARAM_ATTRS:
                self.next()
            elif k == 'word' and v in _PARAM_ATTRS_ARG:
                self.next()
                if self.at('('):
                    self._skip_parens()
                elif self.peek()[0] == 'int':
                    self.next()
            else:
                return

    def _skip_parens(self):
        depth = 0
        while True:
            v = self.next()[1]
            if v == '(':
                depth += 1
            elif v == ')':
                depth -= 1
                if depth == 0:
                    return
            elif v == '':
                raise IRError('unbalanced parentheses in %s' % self.where)

    # ---- operands / constants
    def operand(self, ty):
        """A value of the given (already parsed) type."""
        k, v = self.next()
        if k == 'lid':
            return ('v', _unq(v))
        if k == 'gid':
            return ('g', _unq(v))
        if k == 'int':
            if ty[0] != 'int':
                raise IRError('integer literal for type %r in %s' % (ty, self.where))
            return ('i', int(v) & ((1 << ty[1]) - 1))
        if k == 'word':
            if v == 'null':
                return ('i', 0)
            if v == 'true':
                return ('i', 1)
            if v == 'false':
                return ('i', 0)
            if v in ('undef', 'poison'):
                return ('u', self.m.size_of(ty) * 8 if ty[0] != 'int' else ty[1])
            if v == 'zeroinitializer':
                return ('zero',)
            if v in ('getelementptr', 'bitcast', 'ptrtoint', 'inttoptr', 'add', 'sub', 'trunc',
                     'zext', 'sext'):
                return self._constexpr(v)
            raise IRError('unsupported constant %r in %s' % (v, self.where))
        if k == 'cstr':
            return ('bytes', _cstring(v))
        if k in ('flt', 'hex'):
            return ('i', _float_bits(ty, v))
        if v == '[':
            return ('agg', self._agg(']'))
        if v == '{':
            return ('agg', self._agg('}'))
        if v == '<' and self.at('{'):
            self.next()
            a = self._agg('}')
            self.expect('>')
            return ('agg', a)
        raise IRError('unsupported operand %r in %s' % (v, self.where))

    def _agg(self, close):
        out = []
        while not self.at(close):
            t = self.type()
            out.append((t, self.operand(t)))
            self.accept(',')
        self.expect(close)
        return out

    def typed(self):
        t = self.type()
        self.skip_param_attrs()
        return t, self.operand(t)

    def _constexpr(self, op):
        if op == 'getelementptr':
            self.accept('inbounds')
            self.expect('(')
            sty = self.type()
            self.expect(',')
            pty, base = self.typed()
            idx = []
            while self.accept(','):
                self.accept('inrange')
                idx.append(self.typed())
            self.expect(')')
            return ('ce', 'gep', sty, base, tuple(idx))
        self.expect('(')
        if op in ('add', 'sub'):
            while self.peek()[1] in _FLAGS:
                self.next()
            t, a = self.typed()
            self.expect(',')
            _, b = self.typed()
            self.expect(')')
            return ('ce', op, t, a, b)
        t, a = self.typed()
        self.expect('to')
        t2 = self.type()
        self.expect(')')
        return ('ce', 'cast', op, t, a, t2)


def _float_bits(ty, text):
    if ty[0] != 'fp' or ty[1] not in ('float', 'double'):
        raise IRError('unsupported floating constant of type %r' % (ty,))
    if text.startswith('0x'):
        if not re.match(r'^0x[0-9A-Fa-f]+$', text):
            raise IRError('unsupported floating literal %s' % text)
        bits = int(text, 16)           # always the double encoding
        d = struct.unpack('<d', struct.pack('<Q', bits))[0]
    else:
        d = float(text)
    if ty[1] == 'double':
        return struct.unpack('<Q', struct.pack('<d', d))[0]
    return struct.unpack('<I', struct.pack('<f', d))[0]


class _FnParser(object):
    def __init__(self, module, fn):
        self.m = module
        self.fn = fn

    def parse(self):
        fn = self.fn
        lines = fn._body
        unnamed = sum(1 for _, n in fn.params if n.isdigit())
        entry = str(unnamed)
        blocks = {}
        cur = None
        i = 0
        while i < len(lines):
            line = lines[i]
            i += 1
            s = line.strip()
            if not s or s.startswith(';'):
                continue
            m = re.match(r'^("[^"]*"|[-a-zA-Z$._0-9]+):', line)
            if m:
                label = m.group(1).strip('"')
                cur = Block(label)
                blocks[label] = cur
                continue
            if cur is None:
                cur = Block(entry)
                blocks[entry] = cur
            if s.startswith('switch') and s.endswith('['):
                while not lines[i - 1].strip().endswith(']'):
                    s += ' ' + lines[i].strip()
                    i += 1
            ins = self.instr(s)
            if ins.op == 'phi':
                cur.phis.append(ins)
            else:
                cur.instrs.append(ins)
        for b in blocks.values():
            if not b.instrs:
                raise IRError('empty block %s in %s' % (b.label, fn.name))
            if not b.phis and len(b.instrs) == 1 and b.instrs[0].op == 'br':
                b.trivial_to = b.instrs[0].a
        first = lines and next((l for l in lines if l.strip() and not l.strip().startswith(';')), '')
        m = re.match(r'^("[^"]*"|[-a-zA-Z$._0-9]+):', first or '')
        if m:
            entry = m.group(1).strip('"')
        return blocks, entry

    def instr(self, text):
        cut = text.find(', !')
        core = text if cut < 0 else text[:cut]
        p = _P(self.m, tokenize(core), '%s: %s' % (self.fn.name, text))
        dest = None
        if p.peek()[0] == 'lid' and p.peek(1)[1] == '=':
            dest = _unq(p.next()[1])
            p.next()
        k, op = p.next()
        if op in ('tail', 'musttail', 'notail'):
            k, op = p.next()
        ins = Instr(op, text)
        ins.dest = dest
        if op in _BINOPS:
            flags = []
            while p.peek()[1] in _FLAGS:
                flags.append(p.next()[1])
            ins.op = 'binop'
            ins.pred = op
            ins.flags = tuple(flags)
            ins.ty = p.type()
            if ins.ty[0] != 'int':
                raise IRError('unsupported %s on %r in %s' % (op, ins.ty, p.where))
            ins.a = p.operand(ins.ty)
            p.expect(',')
            ins.b = p.operand(ins.ty)
        elif op == 'icmp':
            ins.pred = p.next()[1]
            ins.ty = p.type()
            ins.a = p.operand(ins.ty)
            p.expect(',')
            ins.b = p.operand(ins.ty)
        elif op in _CASTS:
            ins.op = 'cast'
            ins.pred = op
            ins.ty, ins.a = p.typed()
            p.expect('to')
            ins.ty2 = p.type()
            for t in (ins.ty, ins.ty2):
                if t[0] not in ('int', 'ptr'):
                    raise IRError('unsupported cast %s involving %r in %s' % (op, t, p.where))
        elif op == 'load':
            while p.peek()[1] in ('volatile', 'atomic'):
                if p.next()[1] == 'atomic':
                    raise IRError('atomic load not supported: %s' % text)
            ins.ty = p.type()
            p.expect(',')
            _, ins.a = p.typed()
        elif op == 'store':
            while p.peek()[1] in ('volatile', 'atomic'):
                if p.next()[1] == 'atomic':
                    raise IRError('atomic store not supported: %s' % text)
            ins.ty, ins.a = p.typed()
            p.expect(',')
            _, ins.b = p.typed()
        elif op == 'alloca':
            ins.ty = p.type()
            ins.a = ('i', 1)
            if p.accept(',') and not p.at('align'):
                _, ins.a = p.typed()
        elif op == 'getelementptr':
            ins.op = 'gep'
            p.accept('inbounds')
            ins.ty = p.type()
            p.expect(',')
            _, ins.a = p.typed()
            ins.idx = []
            while p.accept(','):
                ins.idx.append(p.typed())
        elif op == 'phi':
            ins.ty = p.type()
            ins.inc = []
            while True:
                p.expect('[')
                v = p.operand(ins.ty)
                p.expect(',')
                lab = _unq(p.next()[1])
                p.expect(']')
                ins.inc.append((v, lab))
                if not p.accept(','):
                    break
        elif op == 'select':
            _, ins.a = p.typed()
            p.expect(',')
            ins.ty, ins.b = p.typed()
            p.expect(',')
            _, ins.c = p.typed()
        elif op == 'call':
            while p.peek()[1] in _CCONV or p.peek()[1] in _PARAM_ATTRS or p.peek()[1] in _PARAM_ATTRS_ARG:
                if p.peek()[1] in _CCONV:
                    p.next()
                else:
                    p.skip_param_attrs()
            ins.ty = p.type()          # return type, or full function type for varargs callees
            if p.peek()[0] not in ('gid', 'lid'):
                raise IRError('unsupported callee (inline asm / constant expression) in %s' % p.where)
            k2, v2 = p.next()
            ins.fn = ('g', _unq(v2)) if k2 == 'gid' else ('v', _unq(v2))
            if ins.ty[0] == 'func':
                ins.ty = ins.ty[1]
            p.expect('(')
            ins.args = []
            while not p.at(')'):
                ins.args.append(p.typed())
                p.accept(',')
            p.expect(')')
        elif op == 'br':
            if p.accept('label'):
                ins.a = _unq(p.next()[1])
            else:
                ins.op = 'condbr'
                _, ins.a = p.typed()
                p.expect(',')
                p.expect('label')
                ins.b = _unq(p.next()[1])
                p.expect(',')
                p.expect('label')
                ins.c = _unq(p.next()[1])
        elif op == 'switch':
            ins.ty, ins.a = p.typed()
            p.expect(',')
            p.expect('label')
            ins.b = _unq(p.next()[1])
            p.expect('[')
            ins.cases = []
            while not p.at(']'):
                _, c = p.typed()
                p.expect(',')
                p.expect('label')
                ins.cases.append((c[1], _unq(p.next()[1])))
            p.expect(']')
        elif op == 'ret':
            ins.ty = p.type()
            ins.a = None if ins.ty == VOID else p.operand(ins.ty)
        elif op == 'unreachable':
            pass
        elif op == 'freeze':
            ins.ty, ins.a = p.typed()
        else:
            raise IRError('unsupported instruction %r in %s' % (op, p.where))
        return ins


class Module(object):
    def __init__(self, text):
        self.types = {}
        self.globals = {}
        self.global_order = []
        self.functions = {}
        self.declares = {}
        self.datalayout = ''
        self.triple = ''
        self._sizes = {}
        self._noreturn_groups = set()
        self._parse(text)

    # ---- top level
    def _parse(self, text):
        lines = text.split('\n')
        for l in lines:      # attribute groups first: noreturn matters for declarations
            m = re.match(r'^attributes (#\d+) = \{(.*)\}', l)
            if m and re.search(r'\bnoreturn\b', m.group(2)):
                self._noreturn_groups.add(m.group(1))
        pending_globals = []
        i = 0
        while i < len(lines):
            line = lines[i]
            i += 1
            if not line or line[0] in ';!' or line.startswith(('source_filename', 'attributes ')):
                continue
            if line.startswith('target datalayout'):
                self.datalayout = line.split('"')[1]
                continue
            if line.startswith('target triple'):
                self.triple = line.split('"')[1]
                continue
            if line[0] == '%':
                m = re.match(r'^(%(?:"[^"]*"|[-a-zA-Z$._0-9]+)) = type (.*)$', line)
                if not m:
                    raise IRError('bad type definition: ' + line)
                name = _unq(m.group(1))
                if m.group(2).strip() == 'opaque':
                    self.types[name] = None
                else:
                    self.types[name] = _P(self, tokenize(m.group(2)), line).type()
                continue
            if line[0] == '@':
                pending_globals.append(line)
                continue
            if line.startswith('declare'):
                self._fn_header(line, None)
                continue
            if line.startswith('define'):
                body = []
                while lines[i] != '}':
                    body.append(lines[i])
                    i += 1
                i += 1
                self._fn_header(line, body)
                continue
            if line.strip() == '':
                continue
            raise IRError('unsupported top-level construct: ' + line[:120])
        self._check_layout()
        for line in pending_globals:
            self._global(line)

    def _check_layout(self):
        parts = self.datalayout.split('-')
        if 'e' not in parts:
            raise IRError('little-endian datalayout required, got %r' % self.datalayout)
        for p in parts:
            if p.startswith('p:') and not p.startswith('p:64'):
                raise IRError('64-bit pointers required, got %r' % self.datalayout)

    def _global(self, line):
        p = _P(self, tokenize(line), line[:100])
        name = _unq(p.next()[1])
        p.expect('=')
        external = False
        while p.peek()[0] == 'word' and p.peek()[1] in _LINKAGE:
            if p.next()[1] in ('external', 'extern_weak'):
                external = True
        if p.peek()[1] in ('alias', 'ifunc'):
            raise IRError('aliases are not supported: ' + line[:100])
        kind = p.next()[1]
        if kind not in ('global', 'constant'):
            raise IRError('bad global definition: ' + line[:100])
        ty = p.type()
        init = None
        if not external:
            init = p.operand(ty)
        align = None
        while p.accept(','):
            if p.accept('align'):
                align = int(p.next()[1])
            else:            # section, comdat, metadata...: irrelevant to the semantics we model
                break
        self.globals[name] = Global(name, ty, init, kind == 'constant', external, align)
        self.global_order.append(name)

    def _fn_header(self, line, body):
        toks = tokenize(line)
        noreturn = any(k == 'attr' and v in self._noreturn_groups for k, v in toks) or \
            any(k == 'word' and v == 'noreturn' for k, v in toks)
        p = _P(self, toks, line[:100])
        p.next()  # define / declare
        while True:
            k, v = p.peek()
            if k == 'word' and (v in _LINKAGE or v in _CCONV):
                p.next()
            elif k == 'word' and (v in _PARAM_ATTRS or v in _PARAM_ATTRS_ARG):
                p.skip_param_attrs()
            else:
                break
        ret = p.type()
        name = _unq(p.next()[1])
        p.expect('(')
        params, vararg, n = [], False, 0
        while not p.at(')'):
            if p.at('...'):
                p.next()
                vararg = True
            else:
                t = p.type()
                p.skip_param_attrs()
                if p.peek()[0] == 'lid':
                    pname = _unq(p.next()[1])
                else:
                    pname = str(n)
                if pname.isdigit():
                    n += 1
                params.append((t, pname))
            p.accept(',')
        fn = Function(self, name, ret, params, vararg, body, noreturn)
        (self.functions if body is not None else self.declares)[name] = fn

    # ---- layout (x86-64 SysV as described by the datalayout clang prints)
    def resolve(self, t):
        while t[0] == 'named':
            r = self.types.get(t[1])
            if r is None:
                raise IRError('opaque or unknown type %%%s has no layout' % t[1])
            t = r
        return t

    def size_of(self, t):
        return self._layout(t)[0]

    def align_of(self, t):
        return self._layout(t)[1]

    def _layout(self, t):
        r = self._sizes.get(t)
        if r is not None:
            return r
        k = t[0]
        if k == 'int':
            if t[1] > 64:
                raise IRError('integers wider than 64 bits are not supported')
            b = (t[1] + 7) // 8
            a = 1
            while a < b:
                a *= 2
            r = (a, a)          # alloc size and ABI alignment of iN, N <= 64
        elif k == 'ptr':
            r = (8, 8)
        elif k == 'fp':
            r = {'float': (4, 4), 'double': (8, 8), 'x86_fp80': (16, 16)}.get(t[1])
            if r is None:
                raise IRError('unsupported floating type %s' % t[1])
        elif k == 'array':
            s, a = self._layout(t[2])
            r = (s * t[1], a)
        elif k == 'struct':
            r = self._struct(t)[:2]
        elif k == 'named':
            r = self._layout(self.resolve(t))
        else:
            raise IRError('type %r has no size' % (t,))
        self._sizes[t] = r
        return r

    def _struct(self, t):
        key = ('S', t)
        r = self._sizes.get(key)
        if r is None:
            off, al, offs = 0, 1, []
            for f in t[1]:
                s, a = self._layout(f)
                if t[2]:
                    a = 1
                off = (off + a - 1) // a * a
                offs.append(off)
                off += s
                al = max(al, a)
            off = (off + al - 1) // al * al
            r = (off, al, tuple(offs))
            self._sizes[key] = r
        return r

    def field_offset(self, t, i):
        return self._struct(self.resolve(t))[2][i]
