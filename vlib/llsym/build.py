"""Build an LLSYM harness: textual LLVM IR for the executor and a native twin for replay.

Everything is regenerated on every call from the repository's *current working
tree* (REPO = $GI_VERIF_REPO or /repo, as in vlib.common) into
/verif/.work/llsym/<name>/; nothing is ever written into the repository.

    b = build('h_c08', ffi=True)
    b.ll       path of the .ll (clang -O1 -std=gnu99 [-fno-inline], -DLLSYM_IR)
    b.native   path of the gcc -O0 executable (llsym_native.c supplies the __llsym_* functions)
    b.run_native({'k': 2, ...}) -> (status, outputs dict, events list)

The harness `#include`s the real girepository/<file>.c, found through -I REPO/girepository.
"""
import os
import re
import shutil
import subprocess

from .. import common

SHIM = os.path.join(common.VERIF, 'shim')
HARNESS_C = os.path.join(common.VERIF, 'harness', 'c')
FFI_INC = '/usr/include/x86_64-linux-gnu'
FFI_TYPES = ['void', 'uint8', 'sint8', 'uint16', 'sint16', 'uint32', 'sint32', 'uint64', 'sint64',
             'float', 'double', 'pointer']


class BuildError(Exception):
    pass


def _run(cmd, cwd=None):
    p = subprocess.run(cmd, cwd=cwd, stdout=subprocess.PIPE, stderr=subprocess.STDOUT, text=True)
    if p.returncode != 0:
        raise BuildError('%s\n%s' % (' '.join(cmd), p.stdout[-3000:]))
    return p.stdout


def repo():
    return os.environ.get('GI_VERIF_REPO', common.REPO)


def probe_ffi(work):
    """libffi's own size/alignment/type of every ffi_type_* the kernels use, read by a tiny C
    program linked against the real library: {name: (size, alignment, type)}."""
    src = os.path.join(work, 'ffiprobe.c')
    with open(src, 'w') as f:
        f.write('#include <stdio.h>\n#include <ffi.h>\nint main(void){\n')
        for t in FFI_TYPES:
            f.write('  printf("%s %%lu %%u %%u\\n", (unsigned long)ffi_type_%s.size, '
                    '(unsigned)ffi_type_%s.alignment, (unsigned)ffi_type_%s.type);\n' % (t, t, t, t))
        f.write('  return 0; }\n')
    exe = os.path.join(work, 'ffiprobe')
    _run(['gcc', '-O0', '-I', FFI_INC, src, '-o', exe, '-lffi'])
    out = {}
    for line in _run([exe]).split('\n'):
        if line.strip():
            n, s, a, t = line.split()
            out[n] = (int(s), int(a), int(t))
    return out


def write_ffi_header(work, ffi):
    """ffi_consts.h: definitions of the ffi_type_* globals with libffi's values, for the IR build
    (the native build links libffi itself)."""
    with open(os.path.join(work, 'ffi_consts.h'), 'w') as f:
        f.write('/* generated from libffi at check time; do not edit */\n')
        for n, (s, a, t) in sorted(ffi.items()):
            f.write('ffi_type ffi_type_%s = { %d, %d, %d, NULL };\n' % (n, s, a, t))


def write_giversion(work):
    src = os.path.join(repo(), 'girepository', 'giversion.h.in')
    ver = ['1', '0', '0']
    try:
        m = re.search(r"version\s*:\s*'(\d+)\.(\d+)\.(\d+)", open(os.path.join(repo(), 'meson.build')).read())
        if m:
            ver = list(m.groups())
    except OSError:
        pass
    text = open(src).read()
    for k, v in zip(('MAJOR', 'MINOR', 'MICRO'), ver):
        text = text.replace('@GI_%s_VERSION@' % k, v)
    with open(os.path.join(work, 'giversion.h'), 'w') as f:
        f.write(text)


class Built(object):
    def __init__(self, name, work, ll, native, ffi, sources):
        self.name, self.work, self.ll, self.native, self.ffi, self.sources = \
            name, work, ll, native, ffi, sources
        self._n = 0

    def run_native(self, inputs, tag=None, keep_going=False):
        """Run the native harness on {name: int}. -> (status, {output name: int}, [event lines])
        status: 'done' | 'exit' | 'assert:<id>' (the first one) | 'fail:<id>' | 'assume' |
        'missing:<name>' | 'memory' (ASan report / SIGSEGV) | 'crash:<rc>'.
        keep_going: do not stop at a failing assertion."""
        self._n += 1
        path = os.path.join(self.work, 'in_%s_%d.txt' % (tag or os.getpid(), self._n))
        with open(path, 'w') as f:
            for k, v in inputs.items():
                f.write('%s %d\n' % (k, int(v) & 0xffffffffffffffff))
        env = dict(os.environ)
        env.pop('LLSYM_KEEP_GOING', None)
        env['ASAN_OPTIONS'] = 'detect_leaks=0'
        if keep_going:
            env['LLSYM_KEEP_GOING'] = '1'
        p = subprocess.run([self.native, path], stdout=subprocess.PIPE, stderr=subprocess.STDOUT,
                           text=True, timeout=60, env=env)
        os.unlink(path)
        outs, events, status = {}, [], None
        for line in p.stdout.split('\n'):
            w = line.split()
            if not w:
                continue
            if w[0] == 'OUT':
                outs[w[1]] = int(w[2])
            else:
                events.append(line)
                if status is not None and status.startswith('assert:'):
                    continue          # keep_going: the first failed assertion names the outcome
                if w[0] == 'ASSERT':
                    status = 'assert:' + w[1]
                elif w[0] == 'FAIL':
                    status = 'fail:' + w[1]
                elif w[0] == 'ASSUME':
                    status = 'assume'
                elif w[0] == 'MISSING':
                    status = 'missing:' + w[1]
                elif w[0] == 'EXIT':
                    status = 'exit'
                elif w[0] == 'DONE':
                    status = 'done'
        if 'AddressSanitizer' in p.stdout or p.returncode == -11:
            status = 'memory'          # out-of-bounds access (ASan report or SIGSEGV)
        elif status is None or (p.returncode not in (0, 10, 11, 12, 13)):
            status = 'crash:%d' % p.returncode
        return status, outs, events


def build(name, ffi=False, no_inline=True, opt='-O1', extra_defs=(), src=None, prepare=None,
          ir_cflags=(), asan=False):
    """Compile /verif/harness/c/<name>.c (or src) both ways; raises BuildError with the compiler
    output.  prepare(work_dir), if given, runs before the compilers (generated includes such as
    the function slices of slice.py go there; the work dir is on the include path).
    asan: build the native twin with AddressSanitizer, so that an out-of-bounds access found by
    the executor can be replayed (run_native status 'memory')."""
    work = os.path.join(common.WORK, 'llsym', name)
    shutil.rmtree(work, ignore_errors=True)
    os.makedirs(work)
    r = repo()
    src = src or os.path.join(HARNESS_C, name + '.c')
    if not os.path.isdir(os.path.join(r, 'girepository')):
        raise BuildError('no girepository/ under %s' % r)
    write_giversion(work)
    if prepare is not None:
        prepare(work)
    ffi_vals = None
    if ffi:
        ffi_vals = probe_ffi(work)
        write_ffi_header(work, ffi_vals)
    inc = ['-I', SHIM, '-I', work, '-I', HARNESS_C, '-I', os.path.join(r, 'girepository'),
           '-I', r, '-I', FFI_INC, '-DGI_COMPILATION', '-DGI_VERIF'] + list(extra_defs)
    ll = os.path.join(work, name + '.ll')
    cmd = ['clang', opt, '-S', '-emit-llvm', '-std=gnu99', '-w', '-DLLSYM_IR'] + list(ir_cflags) + \
        (['-fno-inline'] if no_inline else []) + inc + [src, '-o', ll]
    _run(cmd)
    native = os.path.join(work, name + '.native')
    obj = os.path.join(work, name + '.o')
    san = ['-fsanitize=address', '-fno-omit-frame-pointer'] if asan else []
    _run(['gcc', '-O0', '-g', '-std=gnu99', '-w', '-c'] + san + inc + [src, '-o', obj])
    link = ['gcc'] + san + [obj, os.path.join(HARNESS_C, 'llsym_native.c'), '-I', HARNESS_C, '-o', native]
    libs = ['-lffi'] if ffi else []
    p = subprocess.run(link + libs, stdout=subprocess.PIPE, stderr=subprocess.STDOUT, text=True)
    if p.returncode != 0:
        # Whole-file includes drag in functions the harness never calls (GObject / libffi call
        # glue); their undefined callees get aborting stubs so that reaching one is loud.
        missing = sorted(set(re.findall(r"undefined reference to `([A-Za-z_0-9]+)'", p.stdout)))
        if not missing:
            raise BuildError('%s\n%s' % (' '.join(link), p.stdout[-3000:]))
        stubs = os.path.join(work, 'undefined_stubs.c')
        with open(stubs, 'w') as f:
            f.write('#include <stdio.h>\n#include <stdlib.h>\n')
            for sym in missing:
                f.write('void %s(void) { printf("FAIL 999 undefined %s\\n"); exit(11); }\n' % (sym, sym))
        _run(link + [stubs] + libs)
    return Built(name, work, ll, native, ffi_vals, [src])
