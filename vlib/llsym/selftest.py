"""Self-test of the LLSYM translator: small C programs, LLSYM against the native build.

    /verif/.venv/bin/python -m vlib.llsym.selftest

Each program is compiled by build.build() both ways.  Concrete mode must reproduce the native
outputs on random inputs (every arithmetic operator, casts, aggregates, initialised globals,
memcpy/memset, indirect calls through a constant table); symbolic mode must find the planted
assertion failures and only those, report the unwinding bound, and take the flat-array path for
symbolic stores.  Exit status 0 = all good.
"""
import os
import random
import sys

from .. import common
from . import build, exec as lx

ARITH = r'''
#include "llsym.h"
#include <string.h>
struct pt { char tag; short s; int v[3]; long w; const char *name; };
static const struct pt table[3] = { {'a', -2, {1, 2, 3}, 1L << 40, "one"}, {'b', 7, {4, 5, 6}, -9, "two"},
                                    {'c', 0, {7, 8, 9}, 3, "three"} };
static int twice (int x) { return 2 * x; }
static int neg (int x) { return -x; }
static int (*const ops[2]) (int) = { twice, neg };
static unsigned char buf[16];
void llsym_main (void)
{
  int32_t a = __llsym_nondet_i32 ("a", -1), b = __llsym_nondet_i32 ("b", -1);
  uint32_t ua = (uint32_t) a, ub = (uint32_t) b;
  int64_t l = __llsym_nondet_i64 ("l", -1);
  uint8_t c = __llsym_nondet_u8 ("c", -1);
  int sel = __llsym_choice ("sel", -1, 3);
  __llsym_assume (b != 0 && !(a == (-2147483647 - 1) && b == -1));
  __llsym_output ("add", -1, a + b);   __llsym_output ("sub", -1, a - b);
  __llsym_output ("mul", -1, (int32_t) (ua * ub));
  __llsym_output ("sdiv", -1, a / b);  __llsym_output ("srem", -1, a % b);
  __llsym_output ("udiv", -1, ua / ub); __llsym_output ("urem", -1, ua % ub);
  __llsym_output ("and", -1, a & b);   __llsym_output ("or", -1, a | b);  __llsym_output ("xor", -1, a ^ b);
  __llsym_output ("shl", -1, (int32_t) (ua << (c & 31)));
  __llsym_output ("lshr", -1, ua >> (c & 31));
  __llsym_output ("ashr", -1, a >> (c & 31));
  __llsym_output ("sext", -1, (int64_t) a + l);
  __llsym_output ("trunc", -1, (int16_t) l);
  __llsym_output ("cmp", -1, (a < b) + 2 * (ua < ub) + 4 * (a == b) + 8 * (l > a));
  __llsym_output ("tab", -1, table[sel].v[(c & 1) + 1] + table[sel].s + table[sel].tag);
  __llsym_output ("tabw", -1, table[sel].w);
  __llsym_output ("name", -1, table[sel].name[1]);
  __llsym_output ("call", -1, ops[c & 1] (a));
  memset (buf, c, sizeof buf);
  memcpy (buf + 4, &l, sizeof l);
  __llsym_output ("mem", -1, buf[3] + 256 * buf[5] + 65536 * buf[12]);
}
'''

SYMBOLIC = r'''
#include "llsym.h"
static const int sizes[5] = { 1, 2, 4, 8, 16 };
static int scratch[8];
static int clamp (int x) { return x < 0 ? 0 : x > 7 ? 7 : x; }
void llsym_main (void)
{
  int mode = __llsym_nondet_i32 ("mode", -1);
  int x = __llsym_nondet_i32 ("x", -1), i;
  if (mode == 0)              /* plain symbolic index into a constant table: must hold */
    {
      __llsym_assume (x >= 0 && x < 5);
      __llsym_assert (sizes[x] == 1 << x, 1);
    }
  else if (mode == 1)         /* planted bug: off by one at x == 100 */
    {
      int y = x > 100 ? x - 1 : x + 1;
      __llsym_assert (y != 101 || x == 102, 2);
    }
  else if (mode == 2)         /* symbolic store (flat array path), then reads */
    {
      scratch[clamp (x)] = 5;
      scratch[3] += 1;
      __llsym_assert (scratch[3] == (clamp (x) == 3 ? 6 : 1), 3);
      __llsym_assert (scratch[2] == 0, 4);            /* fails for clamp(x) == 2 */
    }
  else if (mode == 3)         /* unbounded loop on a symbolic bound: unwinding assertion */
    {
      int s = 0;
      for (i = 0; i < x; i++) s += scratch[i & 7] ^ i;
      __llsym_assert (s >= 0 || x > 65536, 5);
    }
  else if (mode == 4)         /* wrap-around is C semantics for unsigned, must be found */
    {
      uint32_t u = (uint32_t) x + 1u;
      __llsym_assert (u > (uint32_t) x, 6);
    }
  else
    __llsym_fail (7);
}
'''


def _build(name, text):
    d = os.path.join(common.WORK, 'llsym', 'selftest_src')
    os.makedirs(d, exist_ok=True)
    src = os.path.join(d, name + '.c')
    with open(src, 'w') as f:
        f.write(text)
    return build.build(name, src=src)


def main():
    bad = []
    rnd = random.Random(7)
    b = _build('selftest_arith', ARITH)
    mod = lx.load_module(b.ll)
    for n in range(40):
        big = n % 3 == 0
        inp = {'a': rnd.choice([0, 1, -1, 2 ** 31 - 1, -2 ** 31]) if big else rnd.randint(-2 ** 31, 2 ** 31 - 1),
               'b': rnd.choice([1, -1, 2, -7, 2 ** 31 - 1, -2 ** 31]) if n % 4 == 0 else rnd.randint(-50000, 50000),
               'l': rnd.randint(-2 ** 63, 2 ** 63 - 1), 'c': rnd.randint(0, 255), 'sel': rnd.randint(0, 2)}
        st, nat, _ = b.run_native(inp)
        if st == 'assume':
            continue
        res = lx.Executor(mod, fixed=inp).run()
        if st != 'done' or res.paths != 1 or res.queries or res.outputs[0] != nat:
            diff = sorted(k for k in set(nat) | set(res.outputs[0] or {}) if (res.outputs[0] or {}).get(k) != nat.get(k))
            bad.append('arith %r: native %s, differing outputs %s' % (inp, st, diff))
    # the same program with everything symbolic: one path per table row, no failures
    res = lx.Executor(mod).run()
    if res.failures or res.inconclusive or res.paths < 1:
        bad.append('arith symbolic: %d failures, %s' % (len(res.failures), res.inconclusive))
    b = _build('selftest_sym', SYMBOLIC)
    mod = lx.load_module(b.ll)
    expect = {0: set(), 1: {2}, 2: {4}, 3: None, 4: {6}, 5: {7}}
    for mode, want in sorted(expect.items()):
        res = lx.Executor(mod, fixed={'mode': mode}, stop_on_failure=False, max_visits=20).run()
        got = set(f.id for f in res.failures)
        if want is None:
            if not any('unwinding bound' in w for w in res.inconclusive):
                bad.append('mode 3: unwinding bound not reported (%s)' % res.inconclusive)
            continue
        if got != want or res.inconclusive:
            bad.append('mode %d: failures %s (expected %s) %s' % (mode, sorted(got), sorted(want), res.inconclusive))
        for f in res.failures:       # every counterexample must replay natively
            st, _o, _e = b.run_native(f.inputs)
            if st not in ('assert:%d' % f.id, 'fail:%d' % f.id):
                bad.append('mode %d: counterexample %r does not replay (%s)' % (mode, f.inputs, st))
    for line in bad:
        print('SELFTEST FAIL', line)
    print('llsym selftest: %s' % ('ok' if not bad else '%d problem(s)' % len(bad)))
    return 1 if bad else 0


if __name__ == '__main__':
    sys.exit(main())
