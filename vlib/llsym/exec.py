"""Symbolic executor for ir.Module on z3 (see the package docstring for the model).

    ex = Executor(module, fixed={'k': 3}, max_visits=64)
    res = ex.run('llsym_main')

Values are Python ints (concrete, reduced modulo 2**width) or z3 terms:
BitVec of the IR width, Bool for a symbolic i1.  All arithmetic has a concrete
fast path, so a run whose nondet inputs are all `fixed` never touches the solver
(concrete mode, used for translator validation).
"""
import bisect
import time

import z3
from z3 import z3core

from . import ir

GLOBAL_BASE = 0x10000000
FUNC_BASE = 0x01000000
STACK_BASE = 0x7f0000000000
CASES_LIMIT = 64          # a case-split value with more alternatives becomes an ordinary term
OBJ_EXPAND_LIMIT = 4096   # symbolic access into an object up to this size is expanded to an ITE
_EMPTY = frozenset()
MEMORY_FAILURE = 998      # failure id of an out-of-bounds access (memory_failures=True)
_DISTRIBUTE = ('mul', 'shl', 'lshr', 'ashr', 'udiv', 'sdiv', 'urem', 'srem')


class ExecError(Exception):
    """Harness / translator problem: unsupported construct, bad memory access, ..."""


class _PathEnd(Exception):
    def __init__(self, kind):
        self.kind = kind


class Failure(object):
    def __init__(self, fid, kind, inputs, outputs, where):
        self.id, self.kind, self.inputs, self.outputs, self.where = fid, kind, inputs, outputs, where

    def as_dict(self):
        return {'id': self.id, 'kind': self.kind, 'inputs': self.inputs, 'outputs': self.outputs,
                'where': self.where}


class Result(object):
    def __init__(self):
        self.paths = 0            # paths run to completion (return from entry / __llsym_exit)
        self.pruned = 0           # paths ended by an unsatisfiable __llsym_assume
        self.failed_paths = 0     # paths ended by __llsym_fail / a failed assertion with stop
        self.queries = 0          # solver calls actually made
        self.cache_hits = 0       # queries answered from the slice cache
        self.solver_seconds = 0.0
        self.steps = 0
        self.failures = []
        self.inconclusive = []    # reasons; non-empty => the run proves nothing
        self.outputs = []         # per completed path: {name: int} (only when all concrete)
        self.functions = set()    # defined functions entered
        self.wall = 0.0

    def as_dict(self):
        d = dict(self.__dict__)
        d['failures'] = [f.as_dict() for f in self.failures]
        d['functions'] = sorted(self.functions)
        return d


class Frame(object):
    __slots__ = ('fn', 'block', 'ip', 'env', 'dest', 'mark', 'visits')

    def __init__(self, fn, env, dest, mark):
        self.fn, self.env, self.dest, self.mark = fn, env, dest, mark
        self.block = None
        self.ip = 0
        self.visits = {}

    def copy(self):
        f = Frame(self.fn, dict(self.env), self.dest, self.mark)
        f.block, f.ip, f.visits = self.block, self.ip, dict(self.visits)
        return f


class State(object):
    def __init__(self):
        self.frames = []
        self.mem = {}          # addr -> (value, byte index, value size in bytes)
        self.flat = None       # z3 Array below the overlay once a symbolic store went flat
        self.sp = STACK_BASE
        self.inputs = {}       # name -> (z3 var, bits)
        self.outputs = {}
        self.steps = 0

    def copy(self):
        s = State()
        s.frames = [f.copy() for f in self.frames]
        s.mem = dict(self.mem)
        s.flat, s.sp, s.steps = self.flat, self.sp, self.steps
        s.inputs = dict(self.inputs)
        s.outputs = dict(self.outputs)
        return s


class Cases(object):
    """A value known to be one of a few constants: items = [(guard, constant)], the guards
    pairwise exclusive and jointly exhaustive under the path condition.  Kept as a Python
    object so that arithmetic with constants, comparisons, table look-ups and pointer
    dereferences are done case by case without any solver call; .term() is the z3 form."""
    __slots__ = ('items', 'w', '_term')

    def __init__(self, items, w):
        self.items, self.w, self._term = items, w, None

    def term(self):
        t = self._term
        if t is None:
            t = z3.BitVecVal(self.items[-1][1], self.w)
            for g, v in reversed(self.items[:-1]):
                t = z3.If(g, z3.BitVecVal(v, self.w), t)
            self._term = t
        return t


def _mask(w):
    return (1 << w) - 1


def _signed(x, w):
    return x - (1 << w) if x >> (w - 1) else x


class Executor(object):
    def __init__(self, module, fixed=None, max_visits=64, max_steps=2000000, timeout=None,
                 query_timeout_ms=60000, seed=0, stop_on_failure=True, fork_on_select=False,
                 max_failures=8, memory_failures=False):
        self.m = module
        self.fixed = dict(fixed or {})
        self.max_visits, self.max_steps = max_visits, max_steps
        self.timeout = timeout
        self.stop_on_failure = stop_on_failure
        self.fork_on_select = fork_on_select
        self.max_failures = max_failures
        self.memory_failures = memory_failures   # invalid access = counterexample 998, not ExecError
        self.seed = seed
        self.pc = []               # path condition: [(constraint, frozenset of variable ids)]
        self.scopes = []           # len(self.pc) at each fork on the current path
        self.qcache = {}           # (ids of the relevant constraints, id of the query) -> result
        self._vmemo = {}           # ast id -> variables below it
        self._keep = []            # every term whose id is used as a key stays alive
        self.query_timeout_ms = query_timeout_ms
        self._tactic = z3.Then('simplify', 'propagate-values', 'solve-eqs', 'simplify', 'bit-blast', 'sat')
        self.res = Result()
        self._fresh = 0
        self._strings = {}
        self._const_memo = {}
        self._layout_globals()
        self.ops = {'binop': self.i_binop, 'icmp': self.i_icmp, 'cast': self.i_cast,
                    'load': self.i_load, 'store': self.i_store, 'alloca': self.i_alloca,
                    'gep': self.i_gep, 'select': self.i_select, 'call': self.i_call,
                    'br': self.i_br, 'condbr': self.i_condbr, 'switch': self.i_switch,
                    'ret': self.i_ret, 'unreachable': self.i_unreachable, 'freeze': self.i_freeze}

    # ------------------------------------------------------------------ globals
    def _layout_globals(self):
        m = self.m
        cached = getattr(m, '_llsym_layout', None)     # immutable: shared by all runs of a module
        if cached is not None:
            (self.gaddr, self.objects, self.init, self.faddr, self.fname, self._obj_bases) = cached
            return
        self.gaddr = {}
        self.objects = []          # sorted (base, size, name, writable)
        self.init = {}             # addr -> byte of every initialised global
        self.faddr, self.fname = {}, {}
        for i, name in enumerate(list(m.functions) + list(m.declares)):
            self.faddr[name] = FUNC_BASE + 16 * i
            self.fname[FUNC_BASE + 16 * i] = name
        a = GLOBAL_BASE
        for name in m.global_order:
            g = m.globals[name]
            al = max(g.align or 1, 16)
            a = (a + al - 1) // al * al
            self.gaddr[name] = a
            size = m.size_of(g.ty)
            self.objects.append((a, size, name, not g.is_const))
            a += size + 32
        self._obj_bases = [o[0] for o in self.objects]
        for name in m.global_order:
            g = m.globals[name]
            if g.external:
                continue           # no bytes: any access is an error (the harness must define it)
            self._init_const(self.gaddr[name], g.ty, g.init)
        m._llsym_layout = (self.gaddr, self.objects, self.init, self.faddr, self.fname, self._obj_bases)

    def _init_const(self, addr, ty, c):
        m = self.m
        ty = m.resolve(ty)
        k = c[0]
        size = m.size_of(ty)
        if k == 'zero' or k == 'u':
            for i in range(size):
                self.init[addr + i] = 0
        elif k == 'bytes':
            for i, b in enumerate(c[1]):
                self.init[addr + i] = b
        elif k == 'agg':
            for i in range(size):
                self.init[addr + i] = 0      # padding
            if ty[0] == 'array':
                es = m.size_of(ty[2])
                for i, (et, ec) in enumerate(c[1]):
                    self._init_const(addr + i * es, et, ec)
            else:
                for i, (et, ec) in enumerate(c[1]):
                    self._init_const(addr + m.field_offset(ty, i), et, ec)
        else:
            v = self.const(c)
            for i in range(size):
                self.init[addr + i] = (v >> (8 * i)) & 0xff

    def const(self, c):
        """Concrete value of a constant operand (integers, addresses, constant expressions)."""
        k = c[0]
        if k == 'i':
            return c[1]
        if k == 'g':
            if c[1] in self.gaddr:
                return self.gaddr[c[1]]
            if c[1] in self.faddr:
                return self.faddr[c[1]]
            raise ExecError('unknown global @%s' % c[1])
        if k == 'ce':
            if c[1] == 'gep':
                return self._gep(c[2], self.const(c[3]), [(t, self.const(o)) for t, o in c[4]])
            if c[1] in ('add', 'sub'):
                a, b = self.const(c[3]), self.const(c[4])
                return (a + b if c[1] == 'add' else a - b) & _mask(c[2][1])
            if c[1] == 'cast':
                v = self.const(c[4])
                t2 = c[5]
                w2 = 64 if t2[0] == 'ptr' else t2[1]
                if c[2] == 'sext':
                    v = _signed(v, c[3][1])
                return v & _mask(w2)
        raise ExecError('unsupported constant %r' % (c,))

    def cstring(self, addr):
        s = self._strings.get(addr)
        if s is None:
            if not isinstance(addr, int):
                raise ExecError('name argument of an __llsym intrinsic must be a string constant')
            out = bytearray()
            a = addr
            while True:
                b = self.init.get(a)
                if b is None:
                    raise ExecError('name argument does not point into a constant string')
                if b == 0:
                    break
                out.append(b)
                a += 1
            s = self._strings[addr] = out.decode()
        return s

    # ------------------------------------------------------------------ values
    def fresh(self, prefix, w):
        self._fresh += 1
        return z3.BitVec('%s!%d' % (prefix, self._fresh), w)

    def ev(self, op, env):
        k = op[0]
        if k == 'v':
            try:
                return env[op[1]]
            except KeyError:
                raise ExecError('use of undefined value %%%s' % op[1])
        if k == 'i':
            return op[1]
        if k == 'u':
            return self.fresh('undef', op[1]) if op[1] > 1 else z3.Bool('undef!%d' % id(op))
        r = self._const_memo.get(id(op))
        if r is None:
            r = self._const_memo[id(op)] = (self.const(op), op)
        return r[0]

    @staticmethod
    def bv(x, w):
        if isinstance(x, int):
            return z3.BitVecVal(x, w)
        if isinstance(x, Cases):
            return x.term()
        if z3.is_bool(x):
            return z3.If(x, z3.BitVecVal(1, w), z3.BitVecVal(0, w))
        return x

    @staticmethod
    def boolean(x):
        if isinstance(x, int):
            return z3.BoolVal(bool(x))
        if z3.is_bool(x):
            return x
        return x == z3.BitVecVal(1, 1)

    @staticmethod
    def cases(pairs, w):
        """Cases from (guard, constant) pairs, equal constants merged; a plain int if only one."""
        d = {}
        for g, v in pairs:
            d.setdefault(v, []).append(g)
        if len(d) == 1:
            return next(iter(d))
        return Cases([(gs[0] if len(gs) == 1 else z3.Or(*gs), v) for v, gs in d.items()], w)

    def cmap(self, c, f, w):
        """f (int -> int) applied case by case."""
        return self.cases([(g, f(v)) for g, v in c.items], w)

    def cjoin(self, c, f, w):
        """f (int -> any value) applied case by case (loads through a case-split pointer)."""
        rs = [(g, f(v)) for g, v in c.items]
        if all(isinstance(r, (int, Cases)) for _, r in rs):
            flat = []
            for g, r in rs:
                if isinstance(r, int):
                    flat.append((g, r))
                else:
                    flat.extend((z3.And(g, g2), v2) for g2, v2 in r.items)
            if len(flat) <= CASES_LIMIT:
                return self.cases(flat, w)
        t = self.bv(rs[-1][1], w)
        for g, r in reversed(rs[:-1]):
            t = z3.If(g, self.bv(r, w), t)
        return t

    @staticmethod
    def ctrue(c, pred):
        """Bool: the case-split value satisfies pred (int -> bool); 0/1 when decided."""
        yes = [g for g, v in c.items if pred(v)]
        if not yes:
            return 0
        if len(yes) == len(c.items):
            return 1
        if len(yes) * 2 > len(c.items):
            no = [g for g, v in c.items if not pred(v)]
            return z3.Not(no[0] if len(no) == 1 else z3.Or(*no))
        return yes[0] if len(yes) == 1 else z3.Or(*yes)

    def ite(self, c, a, b, w):
        """if c then a else b; w = 0 for Bool operands."""
        if isinstance(a, int) and isinstance(b, int):
            if a == b:
                return a
            if w == 0:
                return c if a else z3.Not(c)
        if w == 0:
            return z3.If(c, self.boolean(a), self.boolean(b))
        if isinstance(a, (int, Cases)) and isinstance(b, (int, Cases)):
            flat = []
            for x, cond in ((a, c), (b, z3.Not(c))):
                if isinstance(x, int):
                    flat.append((cond, x))
                else:
                    flat.extend((z3.And(cond, g), v) for g, v in x.items)
            if len(flat) <= CASES_LIMIT:
                return self.cases(flat, w)
        return z3.If(c, self.bv(a, w), self.bv(b, w))

    def binop(self, op, a, b, w):
        ca, cb = isinstance(a, int), isinstance(b, int)
        if ca and cb:
            return self._binop_int(op, a, b, w)
        if w == 1:
            a, b = self.boolean(a), self.boolean(b)
            if op == 'and':
                return z3.And(a, b)
            if op == 'or':
                return z3.Or(a, b)
            if op in ('xor', 'add', 'sub'):
                return z3.Xor(a, b)
            raise ExecError('unsupported i1 operation %s' % op)
        ka, kb = isinstance(a, Cases), isinstance(b, Cases)
        if cb and ka:
            return self.cmap(a, lambda x: self._binop_int(op, x, b, w), w)
        if ca and kb:
            return self.cmap(b, lambda x: self._binop_int(op, a, x, w), w)
        if op in _DISTRIBUTE:        # sym * {1,2,4,8}: one constant-operand term per case
            if kb and not ca and not ka and len(b.items) <= 16:
                return self.cjoin(b, lambda x: self.binop(op, a, x, w), w)
            if ka and not cb and not kb and len(a.items) <= 16:
                return self.cjoin(a, lambda x: self.binop(op, x, b, w), w)
        return self._binop_terms(op, a, b, w)

    def _binop_terms(self, op, a, b, w):
        a, b = self.bv(a, w), self.bv(b, w)
        if op == 'add':
            return a + b
        if op == 'sub':
            return a - b
        if op == 'mul':
            return a * b
        if op == 'and':
            return a & b
        if op == 'or':
            return a | b
        if op == 'xor':
            return a ^ b
        if op == 'shl':
            return a << b
        if op == 'lshr':
            return z3.LShR(a, b)
        if op == 'ashr':
            return a >> b
        if op == 'udiv':
            return z3.UDiv(a, b)
        if op == 'sdiv':
            return a / b
        if op == 'urem':
            return z3.URem(a, b)
        if op == 'srem':
            return z3.SRem(a, b)
        raise ExecError('unsupported binary operation %s' % op)

    @staticmethod
    def _binop_int(op, a, b, w):
        mk = (1 << w) - 1
        if op == 'add':
            return (a + b) & mk
        if op == 'sub':
            return (a - b) & mk
        if op == 'mul':
            return (a * b) & mk
        if op == 'and':
            return a & b
        if op == 'or':
            return a | b
        if op == 'xor':
            return a ^ b
        if op == 'shl':
            return (a << b) & mk if b < w else 0
        if op == 'lshr':
            return a >> b if b < w else 0
        if op == 'ashr':
            return (_signed(a, w) >> min(b, w - 1)) & mk
        if op in ('udiv', 'urem', 'sdiv', 'srem'):
            if b == 0:
                raise ExecError('division by zero')
            if op == 'udiv':
                return a // b
            if op == 'urem':
                return a % b
            sa, sb = _signed(a, w), _signed(b, w)
            q = abs(sa) // abs(sb)
            if (sa < 0) != (sb < 0):
                q = -q
            return (q if op == 'sdiv' else sa - q * sb) & mk
        raise ExecError('unsupported binary operation %s' % op)

    @staticmethod
    def _cmp_int(pred, a, b, w):
        if pred[0] == 's':
            a, b = _signed(a, w), _signed(b, w)
            pred = pred[1:]
        elif pred[0] == 'u':
            pred = pred[1:]
        return int({'eq': a == b, 'ne': a != b, 'lt': a < b, 'le': a <= b,
                    'gt': a > b, 'ge': a >= b}[pred])

    def icmp(self, pred, a, b, w):
        ca, cb = isinstance(a, int), isinstance(b, int)
        if ca and cb:
            return self._cmp_int(pred, a, b, w)
        if w == 1:
            a, b = self.boolean(a), self.boolean(b)
            if pred == 'eq':
                return a == b
            if pred == 'ne':
                return z3.Xor(a, b)
            raise ExecError('unsupported icmp %s on i1' % pred)
        if cb and isinstance(a, Cases):
            return self.ctrue(a, lambda x: self._cmp_int(pred, x, b, w))
        if ca and isinstance(b, Cases):
            return self.ctrue(b, lambda x: self._cmp_int(pred, a, x, w))
        a, b = self.bv(a, w), self.bv(b, w)
        if pred == 'eq':
            return a == b
        if pred == 'ne':
            return a != b
        if pred == 'ult':
            return z3.ULT(a, b)
        if pred == 'ule':
            return z3.ULE(a, b)
        if pred == 'ugt':
            return z3.UGT(a, b)
        if pred == 'uge':
            return z3.UGE(a, b)
        if pred == 'slt':
            return a < b
        if pred == 'sle':
            return a <= b
        if pred == 'sgt':
            return a > b
        if pred == 'sge':
            return a >= b
        raise ExecError('unsupported icmp predicate %s' % pred)

    def cast(self, op, v, w1, w2):
        if op in ('bitcast', 'ptrtoint', 'inttoptr'):
            op = 'zext' if w2 >= w1 else 'trunc'
            if w1 == w2:
                return v
        if isinstance(v, int):
            if op == 'sext':
                return _signed(v, w1) & _mask(w2)
            return v & _mask(w2)
        if isinstance(v, Cases):
            if w2 == 1:
                return self.ctrue(v, lambda x: x & 1)
            if op == 'sext':
                return self.cmap(v, lambda x: _signed(x, w1) & _mask(w2), w2)
            return self.cmap(v, lambda x: x & _mask(w2), w2)
        if op == 'trunc':
            if w2 == 1:
                return z3.Extract(0, 0, v) == z3.BitVecVal(1, 1)
            return z3.Extract(w2 - 1, 0, v)
        if z3.is_bool(v):
            return self.ite(v, _mask(w2) if op == 'sext' else 1, 0, w2)
        return z3.SignExt(w2 - w1, v) if op == 'sext' else z3.ZeroExt(w2 - w1, v)

    def width(self, ty):
        ty = self.m.resolve(ty) if ty[0] == 'named' else ty
        if ty[0] == 'int':
            return ty[1]
        if ty[0] == 'ptr':
            return 64
        raise ExecError('value of unsupported type %r' % (ty,))

    # ------------------------------------------------------------------ solver
    def add(self, c):
        """Conjoin c to the path condition (current scope)."""
        self._keep.append(c)
        self.pc.append((c, self.vars_of(c)))

    def vars_of(self, e):
        """ids of the uninterpreted constants of e; memoised over shared subterms (raw C API:
        the Python wrappers are far too slow to walk the large assertion formulas)."""
        memo = self._vmemo
        ctx = e.ctx.ref()
        root = e.as_ast()
        rid = z3core.Z3_get_ast_id(ctx, root)
        if rid in memo:
            return memo[rid]
        stack = [(root, rid, None)]
        while stack:
            a, i, kids = stack.pop()
            if kids is None:
                if i in memo:
                    continue
                if z3core.Z3_get_ast_kind(ctx, a) != z3.Z3_APP_AST:
                    memo[i] = _EMPTY
                    continue
                app = z3core.Z3_to_app(ctx, a)
                n = z3core.Z3_get_app_num_args(ctx, app)
                if n == 0:
                    d = z3core.Z3_get_app_decl(ctx, app)
                    memo[i] = frozenset((i,)) if z3core.Z3_get_decl_kind(ctx, d) == \
                        z3.Z3_OP_UNINTERPRETED else _EMPTY
                    continue
                kids = []
                for j in range(n):
                    k = z3core.Z3_get_app_arg(ctx, app, j)
                    kids.append((k, z3core.Z3_get_ast_id(ctx, k)))
                stack.append((a, i, kids))
                for k, ki in kids:
                    if ki not in memo:
                        stack.append((k, ki, None))
            else:
                sets = [memo[ki] for _, ki in kids if memo[ki]]
                memo[i] = _EMPTY if not sets else sets[0] if len(sets) == 1 else \
                    frozenset().union(*sets)
        return memo[rid]

    def check(self, extra=None, want_model=False, full=False):
        """Is path condition /\\ extra satisfiable?  Only the constraints that share variables
        (transitively) with `extra` are sent to the solver - the rest of the path condition is
        satisfiable by construction - and results are cached on that slice, so a lemma about the
        first members of a record is decided once, not once per path below it.
        -> z3.sat / unsat / unknown, or (result, model) with want_model."""
        t0 = time.time()
        if extra is not None:
            self._keep.append(extra)
        if full or extra is None:
            rel = [c for c, _ in self.pc]
        else:
            vs = set(self.vars_of(extra))
            rest = [(c, v) for c, v in self.pc if v]
            rel = []
            grown = True
            while grown and rest:
                grown, keep = False, []
                for c, v in rest:
                    if not vs.isdisjoint(v):
                        rel.append(c)
                        vs |= v
                        grown = True
                    else:
                        keep.append((c, v))
                rest = keep
        key = (frozenset(c.get_id() for c in rel), extra.get_id() if extra is not None else -1)
        hit = None if want_model else self.qcache.get(key)
        if hit is not None:
            self.res.cache_hits += 1
            return hit
        s = self._tactic.solver()
        s.set('timeout', self.query_timeout_ms)
        s.set('random_seed', self.seed)
        s.add(*rel)
        if extra is not None:
            s.add(extra)
        r = s.check()
        if r == z3.unknown and 'timeout' not in s.reason_unknown() and 'canceled' not in s.reason_unknown():
            s = z3.Solver()            # outside pure bit-vectors (the flat array): general solver
            s.set('timeout', self.query_timeout_ms)
            s.add(*rel)
            if extra is not None:
                s.add(extra)
            r = s.check()
        self.res.queries += 1
        self.res.solver_seconds += time.time() - t0
        if r == z3.unknown:
            why = 'solver returned unknown (%s)' % s.reason_unknown()
            if why not in self.res.inconclusive:
                self.res.inconclusive.append(why)
        else:
            self.qcache[key] = r
        if want_model:
            return r, (s.model() if r == z3.sat else None)
        return r

    def decide(self, c):
        """c (Bool term or int) under the path condition: True / False when decided, else None
        (both outcomes feasible, or the solver could not tell)."""
        if isinstance(c, int):
            return bool(c)
        c = z3.simplify(c)
        if z3.is_true(c):
            return True
        if z3.is_false(c):
            return False
        if self.check(c) == z3.unsat:
            return False
        if self.check(z3.Not(c)) == z3.unsat:
            return True
        return None

    # ------------------------------------------------------------------ memory
    def bad_access(self, st, text, cond=None):
        """An access outside every object (when `cond` holds, None = always on this path)."""
        if not self.memory_failures:
            raise ExecError(text)
        self.failure(st, st.frames[-1], MEMORY_FAILURE, 'memory', cond)
        if self.res.failures and self.res.failures[-1].kind == 'memory':
            self.res.failures[-1].where = text + ' in ' + self.res.failures[-1].where
        raise _PathEnd('failed')

    def _object_at(self, st, a, n):
        """(base, size, writable) of the object holding [a, a+n), or None."""
        if a >= STACK_BASE:
            return (STACK_BASE, st.sp - STACK_BASE, True) if a + n <= st.sp else None
        i = bisect.bisect_right(self._obj_bases, a) - 1
        if i >= 0:
            base, size, name, wr = self.objects[i]
            if a + n <= base + size:
                if self.m.globals[name].external:
                    raise ExecError('access to external global @%s (the harness must define it)' % name)
                return (base, size, wr)
        return None

    def _byte(self, st, a):
        e = st.mem.get(a)
        if e is not None:
            v, i, n = e
            if isinstance(v, int):
                return (v >> (8 * i)) & 0xff
            if isinstance(v, Cases):
                return self.cmap(v, lambda x: (x >> (8 * i)) & 0xff, 8)
            if z3.is_bool(v):
                v = self.bv(v, 8)
            return v if n == 1 else z3.Extract(8 * i + 7, 8 * i, v)
        if st.flat is not None:
            b = z3.simplify(z3.Select(st.flat, z3.BitVecVal(a, 64)))
            return b.as_long() if z3.is_bv_value(b) else b
        b = self.init.get(a)
        if b is not None:
            return b
        u = self.fresh('uninit', 8)       # allocated but never written
        st.mem[a] = (u, 0, 1)
        return u

    def load(self, st, addr, n):
        if not isinstance(addr, int):
            return self._load_sym(st, addr, n)
        if self._object_at(st, addr, n) is None:
            self.bad_access(st, 'load of %d bytes outside any object at 0x%x' % (n, addr))
        e = st.mem.get(addr)
        if e is not None and e[2] >= n:      # all n bytes are consecutive bytes of one stored value?
            v, j = e[0], e[1]
            for i in range(1, n):
                e2 = st.mem.get(addr + i)
                if e2 is None or e2[0] is not v or e2[1] != j + i:
                    break
            else:
                if e[2] == n:
                    return v
                if isinstance(v, int):
                    return (v >> (8 * j)) & _mask(8 * n)
                if isinstance(v, Cases):
                    return self.cmap(v, lambda x: (x >> (8 * j)) & _mask(8 * n), 8 * n)
                if z3.is_bv(v):
                    return z3.Extract(8 * (j + n) - 1, 8 * j, v)
        bs = [self._byte(st, addr + i) for i in range(n)]
        if all(isinstance(b, int) for b in bs):
            return sum(b << (8 * i) for i, b in enumerate(bs))
        if n == 1:
            return bs[0]
        return z3.simplify(z3.Concat(*[self.bv(b, 8) for b in reversed(bs)]))

    def store(self, st, addr, n, v):
        if not isinstance(addr, int):
            return self._store_sym(st, addr, n, v)
        o = self._object_at(st, addr, n)
        if o is None or not o[2]:
            self.bad_access(st, 'store of %d bytes %s at 0x%x' % (
                n, 'outside any object' if o is None else 'into a constant', addr))
        mem = st.mem
        for i in range(n):
            mem[addr + i] = (v, i, n)

    def _load_sym(self, st, addr, n):
        if isinstance(addr, Cases):
            live = self._live_targets(st, addr, n, False)
            if isinstance(live, int):
                return self.load(st, live, n)
            return self.cjoin(live, lambda a: self.load(st, a, n), n * 8)
        only = self.unique(addr)
        if only is not None:
            return self.load(st, only, n)
        objs = self._resolve(st, addr, n)
        if objs is None:
            return self._load_flat(st, addr, n)
        aligned = n > 1 and z3.is_bv_value(z3.simplify(z3.Extract(n.bit_length() - 2, 0, addr)))
        val = None
        for base, size in objs:
            step = n if aligned and base % n == 0 else 1
            for a in range(base + (size - n) // step * step, base - 1, -step):
                x = self.load(st, a, n)
                val = x if val is None else self.ite(addr == z3.BitVecVal(a, 64), x, val, n * 8)
        return val

    def unique(self, term):
        """The value of a symbolic term if the path condition leaves it only one, else None."""
        r, mdl = self.check(term == term, want_model=True)
        if r != z3.sat:
            return None
        v = mdl.eval(term, model_completion=True)
        if self.check(term != v) != z3.unsat:
            return None
        return v.as_long()

    def _live_targets(self, st, addr, n, writing):
        """The feasible targets of a case-split pointer (e.g. without the NULL of an
        `if (p == NULL) return` already passed); a feasible target outside every object is an
        error.  -> int or Cases"""
        keep = []
        for g, a in addr.items:          # solver calls only for the alternatives that are invalid
            o = self._object_at(st, a, n)
            if o is None or (writing and not o[2]):
                if self.check(g) != z3.unsat:
                    self.bad_access(st, '%s of %d bytes through a pointer that may be 0x%x (outside any %sobject)'
                                    % ('store' if writing else 'load', n, a, 'writable ' if writing else ''), g)
            else:
                keep.append((g, a))
        if not keep:
            raise ExecError('access through a pointer with no valid target')
        addr = keep[0][1] if len(keep) == 1 else Cases(keep, 64)
        return addr

    def _resolve(self, st, addr, n):
        """Objects a symbolic address can point into under the path condition: [(base, size)].
        None: too many / too large (caller goes to the flat array).  An address that may lie
        outside every object is a harness error."""
        objs, excl = [], []
        while True:
            q = z3.And(addr == addr, *excl)      # mentions addr so that its constraints are kept
            r, mdl = self.check(q, want_model=True)
            if r != z3.sat:
                break
            a = mdl.eval(addr, model_completion=True).as_long()
            o = self._object_at(st, a, n)
            if o is None:
                self.bad_access(st, 'access of %d bytes through a symbolic pointer may fall outside '
                                'every object (e.g. 0x%x)' % (n, a), addr == z3.BitVecVal(a, 64))
            if o[1] > OBJ_EXPAND_LIMIT or len(objs) >= 8:
                return None
            objs.append((o[0], o[1]))
            excl.append(z3.Not(z3.And(z3.ULE(z3.BitVecVal(o[0], 64), addr),
                                      z3.ULE(addr, z3.BitVecVal(o[0] + o[1] - n, 64)))))
        if not objs:
            raise ExecError('symbolic access on an infeasible path')
        return objs

    def _flatten(self, st):
        """The whole memory as one Array(BV64 -> BV8): initial image, then the overlay."""
        arr = st.flat
        if arr is None:
            arr = z3.K(z3.BitVecSort(64), z3.BitVecVal(0, 8))
            for a, b in self.init.items():
                if b:
                    arr = z3.Store(arr, z3.BitVecVal(a, 64), z3.BitVecVal(b, 8))
        for a in list(st.mem):
            arr = z3.Store(arr, z3.BitVecVal(a, 64), self.bv(self._byte(st, a), 8))
        return arr

    def _in_some_object(self, st, addr, n, writable):
        conds = []
        objs = [o for o in self.objects if not self.m.globals[o[2]].external and (o[3] or not writable)]
        objs = [(o[0], o[1]) for o in objs] + [(STACK_BASE, st.sp - STACK_BASE)]
        for base, size in objs:
            if size >= n:
                conds.append(z3.And(z3.ULE(z3.BitVecVal(base, 64), addr),
                                    z3.ULE(addr, z3.BitVecVal(base + size - n, 64))))
        if self.check(z3.Not(z3.Or(*conds))) != z3.unsat:
            self.bad_access(st, 'access of %d bytes through a symbolic pointer may fall outside every '
                            '%sobject' % (n, 'writable ' if writable else ''), z3.Not(z3.Or(*conds)))

    def _load_flat(self, st, addr, n):
        self._in_some_object(st, addr, n, False)
        arr = self._flatten(st)
        bs = [z3.Select(arr, addr + z3.BitVecVal(i, 64)) for i in range(n)]
        return bs[0] if n == 1 else z3.Concat(*reversed(bs))

    def _store_sym(self, st, addr, n, v):
        if isinstance(addr, Cases):
            live = self._live_targets(st, addr, n, True)
            if isinstance(live, int):
                return self.store(st, live, n, v)
            for g, a in live.items:
                self.store(st, a, n, self.ite(g, v, self.load(st, a, n), n * 8))
            return
        only = self.unique(addr)
        if only is not None:
            return self.store(st, only, n, v)
        self._in_some_object(st, addr, n, True)
        arr = self._flatten(st)
        v = self.bv(v, n * 8)
        for i in range(n):
            arr = z3.Store(arr, addr + z3.BitVecVal(i, 64), z3.Extract(8 * i + 7, 8 * i, v))
        st.flat = arr
        st.mem.clear()

    def _gep(self, sty, base, idx):
        """base + indexing; idx = [(type, value)], values int or z3 (sign-extended to 64)."""
        m = self.m
        off = 0          # concrete part
        sym = None       # symbolic part
        ty = sty
        for n, (ity, v) in enumerate(idx):
            if n == 0:
                scale = m.size_of(ty)
            else:
                ty = m.resolve(ty)
                if ty[0] == 'struct':
                    if not isinstance(v, int):
                        raise ExecError('symbolic struct field index')
                    off += m.field_offset(ty, v)
                    ty = ty[1][v]
                    continue
                if ty[0] != 'array':
                    raise ExecError('getelementptr into non-aggregate %r' % (ty,))
                ty = ty[2]
                scale = m.size_of(ty)
            w = ity[1]
            if isinstance(v, int):
                off += _signed(v, w) * scale
            else:
                v = self.cast('sext', v, w, 64) if w < 64 else v
                t = self.binop('mul', v, scale, 64)
                sym = t if sym is None else self.binop('add', sym, t, 64)
        if sym is None:
            return self.binop('add', base, off & _mask(64), 64) if off else base
        r = self.binop('add', base, sym, 64)
        return self.binop('add', r, off & _mask(64), 64) if off else r

    # ------------------------------------------------------------------ instructions
    def i_binop(self, st, f, ins):
        w = ins.ty[1]
        f.env[ins.dest] = self.binop(ins.pred, self.ev(ins.a, f.env), self.ev(ins.b, f.env), w)

    def i_icmp(self, st, f, ins):
        f.env[ins.dest] = self.icmp(ins.pred, self.ev(ins.a, f.env), self.ev(ins.b, f.env),
                                    self.width(ins.ty))

    def i_cast(self, st, f, ins):
        f.env[ins.dest] = self.cast(ins.pred, self.ev(ins.a, f.env), self.width(ins.ty),
                                    self.width(ins.ty2))

    def i_freeze(self, st, f, ins):
        f.env[ins.dest] = self.ev(ins.a, f.env)

    def i_load(self, st, f, ins):
        w = self.width(ins.ty)
        v = self.load(st, self.ev(ins.a, f.env), self.m.size_of(ins.ty))
        if w == 1:
            v = self.cast('trunc', v, 8, 1)
        f.env[ins.dest] = v

    def i_store(self, st, f, ins):
        w = self.width(ins.ty)
        v = self.ev(ins.a, f.env)
        if w == 1:
            v = self.cast('zext', v, 1, 8)
        self.store(st, self.ev(ins.b, f.env), self.m.size_of(ins.ty), v)

    def i_alloca(self, st, f, ins):
        n = self.ev(ins.a, f.env)
        if not isinstance(n, int):
            raise ExecError('alloca with a symbolic element count')
        al = max(self.m.align_of(ins.ty), 8)
        base = (st.sp + al - 1) // al * al
        st.sp = base + max(self.m.size_of(ins.ty) * n, 1) + 8       # 8 bytes of red zone
        f.env[ins.dest] = base

    def i_gep(self, st, f, ins):
        env = f.env
        f.env[ins.dest] = self._gep(ins.ty, self.ev(ins.a, env),
                                    [(t, self.ev(o, env)) for t, o in ins.idx])

    def i_select(self, st, f, ins):
        c = self.ev(ins.a, f.env)
        a, b = self.ev(ins.b, f.env), self.ev(ins.c, f.env)
        if isinstance(c, int):
            f.env[ins.dest] = a if c else b
            return
        w = self.width(ins.ty)
        if self.fork_on_select:
            d = self.decide(c)
            if d is None:
                alt = st.copy()
                alt.frames[-1].env[ins.dest] = b
                self._fork(alt, z3.Not(c))
                self._commit(c)
                d = True
            f.env[ins.dest] = a if d else b
            return
        f.env[ins.dest] = self.ite(self.boolean(c), a, b, 0 if w == 1 else w)

    def i_unreachable(self, st, f, ins):
        raise ExecError('reached `unreachable` in %s (undefined behaviour or a noreturn stub '
                        'that returned)' % f.fn.name)

    def i_ret(self, st, f, ins):
        v = None if ins.a is None else self.ev(ins.a, f.env)
        st.frames.pop()
        if st.sp - f.mark > 1024:        # drop the dead frame's bytes from the overlay
            dead = [a for a in st.mem if f.mark <= a < st.sp]
        else:
            dead = [a for a in range(f.mark, st.sp) if a in st.mem]
        for a in dead:
            del st.mem[a]
        st.sp = f.mark
        if not st.frames:
            raise _PathEnd('complete')
        if f.dest is not None:
            st.frames[-1].env[f.dest] = v

    # control flow ---------------------------------------------------------------
    def enter(self, st, f, label, edges=None, pred=None):
        """Move to block `label`. edges = [(cond, predecessor label)] when several guarded
        edges were merged (if-conversion of empty diamonds), else pred is the predecessor."""
        blk = f.fn.blocks.get(label)
        if blk is None:
            raise ExecError('branch to unknown block %%%s in %s' % (label, f.fn.name))
        n = f.visits.get(label, 0) + 1
        f.visits[label] = n
        if n > self.max_visits:
            self.res.inconclusive.append('unwinding bound: block %%%s of %s entered more than %d '
                                         'times on a feasible path' % (label, f.fn.name, self.max_visits))
            raise _PathEnd('bound')
        if blk.phis:
            env = f.env
            new = []
            for phi in blk.phis:
                w = self.width(phi.ty)
                inc = dict((l, v) for v, l in phi.inc)
                if edges is None:
                    if pred not in inc:
                        raise ExecError('phi %%%s in %s has no entry for predecessor %%%s' % (
                            phi.dest, f.fn.name, pred))
                    new.append((phi.dest, self.ev(inc[pred], env)))
                else:
                    vals = []
                    for c, p in edges:
                        if p not in inc:
                            raise ExecError('phi %%%s in %s has no entry for predecessor %%%s' % (
                                phi.dest, f.fn.name, p))
                        vals.append((c, self.ev(inc[p], env)))
                    if w > 1 and all(isinstance(x, int) for _, x in vals):
                        val = self.cases(vals, w)      # the edge conditions are exclusive
                    else:
                        val = vals[-1][1]
                        for c, x in reversed(vals[:-1]):
                            val = self.ite(c, x, val, 0 if w == 1 else w)
                    new.append((phi.dest, val))
            for d, v in new:
                env[d] = v
        f.block = blk
        f.ip = 0

    def _fork(self, alt_state, constraint):
        self.work.append((alt_state, constraint, len(self.scopes)))

    def _commit(self, constraint):
        self.scopes.append(len(self.pc))
        self.add(constraint)

    def branch(self, st, f, edges):
        """edges = [(cond Bool term or None for 'otherwise', target label)] leaving f.block.
        Empty targets that only jump on to a common block are merged into one guarded edge
        list; the remaining groups are forked when more than one is feasible."""
        here = f.block.label
        blocks = f.fn.blocks
        groups = {}          # destination label -> [(cond, phi predecessor)]
        order = []
        for c, t in edges:
            tb = blocks.get(t)
            if tb is None:
                raise ExecError('branch to unknown block %%%s in %s' % (t, f.fn.name))
            dest, pred = (tb.trivial_to, t) if tb.trivial_to is not None else (t, here)
            if dest not in groups:
                groups[dest] = []
                order.append(dest)
            groups[dest].append((c, pred))
        cands = []
        for dest in order:
            g = groups[dest]
            c = z3.simplify(z3.Or(*[e[0] for e in g])) if len(g) > 1 else z3.simplify(g[0][0])
            if z3.is_false(c):
                continue
            cands.append((dest, g, c))
        if len(cands) > 1:
            feas = []
            for i, (dest, g, c) in enumerate(cands):
                if i == len(cands) - 1 and not feas:
                    feas.append((dest, g, c))      # path condition is satisfiable: last one must be
                elif self.check(c) != z3.unsat:
                    feas.append((dest, g, c))
            cands = feas
        if not cands:
            raise ExecError('no feasible successor in %s:%%%s' % (f.fn.name, here))
        for dest, g, c in cands[1:]:
            alt = st.copy()
            af = alt.frames[-1]
            self._goto(alt, af, dest, g)
            self._fork(alt, c)
        dest, g, c = cands[0]
        if len(cands) > 1:
            self._commit(c)
        self._goto(st, f, dest, g)

    def _goto(self, st, f, dest, g):
        # the visit of an empty intermediate block is not counted; it has no effect
        if len(g) == 1:
            self.enter(st, f, dest, pred=g[0][1])
        else:
            self.enter(st, f, dest, edges=g)

    def i_br(self, st, f, ins):
        self.enter(st, f, ins.a, pred=f.block.label)

    def i_condbr(self, st, f, ins):
        c = self.ev(ins.a, f.env)
        if isinstance(c, int):
            self.enter(st, f, ins.b if c else ins.c, pred=f.block.label)
            return
        c = self.boolean(c)
        self.branch(st, f, [(c, ins.b), (z3.Not(c), ins.c)])

    def i_switch(self, st, f, ins):
        v = self.ev(ins.a, f.env)
        if isinstance(v, int):
            for c, lab in ins.cases:
                if c == v:
                    self.enter(st, f, lab, pred=f.block.label)
                    return
            self.enter(st, f, ins.b, pred=f.block.label)
            return
        w = self.width(ins.ty)
        if isinstance(v, Cases):      # one pass over the alternatives instead of one per case
            table = dict(ins.cases)
            by_label, order = {}, []
            for g, x in v.items:
                lab = table.get(x, ins.b)
                if lab not in by_label:
                    by_label[lab] = []
                    order.append(lab)
                by_label[lab].append(g)
            self.branch(st, f, [(gs[0] if len(gs) == 1 else z3.Or(*gs), lab)
                                for lab, gs in ((l, by_label[l]) for l in order)])
            return
        edges, conds = [], []
        for c, lab in ins.cases:
            e = self.boolean(self.icmp('eq', v, c, w))
            conds.append(e)
            edges.append((e, lab))
        edges.append((z3.Not(z3.Or(*conds)), ins.b))
        self.branch(st, f, edges)

    # calls ------------------------------------------------------------------------
    def i_call(self, st, f, ins):
        env = f.env
        if ins.fn[0] == 'g':
            name = ins.fn[1]
        else:
            p = self.ev(ins.fn, env)
            if isinstance(p, Cases):         # one of a few constant targets: fork per feasible one
                feas = [(g, a) for g, a in p.items if self.check(g) != z3.unsat]
                for g, a in feas[1:]:
                    alt = st.copy()
                    alt.frames[-1].ip -= 1   # the alternative re-executes this call
                    alt.frames[-1].env[ins.fn[1]] = a
                    self._fork(alt, g)
                if len(feas) > 1:
                    self._commit(feas[0][0])
                p = feas[0][1] if feas else None
            if not isinstance(p, int) or p not in self.fname:
                raise ExecError('indirect call through a non-constant function pointer')
            name = self.fname[p]
        args = [self.ev(o, env) for _, o in ins.args]
        fn = self.m.functions.get(name)
        if fn is not None:
            if len(args) < len(fn.params):
                raise ExecError('call of %s with too few arguments' % name)
            nf = Frame(fn, dict((p[1], a) for p, a in zip(fn.params, args)), ins.dest, st.sp)
            if len(st.frames) > 200:
                raise ExecError('call depth exceeds 200 (runaway recursion?) at %s' % name)
            st.frames.append(nf)
            self.res.functions.add(name)
            fn.blocks
            self.enter(st, nf, fn.entry, pred=None)
            return
        r = self.external(st, f, name, ins, args)
        if ins.dest is not None:
            if r is None:
                raise ExecError('external %s gave no value' % name)
            env[ins.dest] = r

    def external(self, st, f, name, ins, args):
        if name.startswith('llvm.'):
            return self.intrinsic(st, name, ins, args)
        if name.startswith('__llsym_nondet_'):
            w = int(name[len('__llsym_nondet_') + 1:])
            return self.nondet(st, self.cstring(args[0]), args[1], w, None)
        if name == '__llsym_choice':
            n = args[2]
            if not isinstance(n, int) or not 0 < n <= 256:
                raise ExecError('__llsym_choice needs a constant bound in 1..256')
            return self.nondet(st, self.cstring(args[0]), args[1], 32, n)
        if name == '__llsym_pick':          # like choice, but one path per value: concrete result
            n = args[2]
            if not isinstance(n, int) or not 0 < n <= 256:
                raise ExecError('__llsym_pick needs a constant bound in 1..256')
            v = self.nondet(st, self.cstring(args[0]), args[1], 32, n)
            if isinstance(v, int):
                return v
            for g, x in v.items[1:]:
                alt = st.copy()
                alt.frames[-1].env[ins.dest] = x
                self._fork(alt, g)
            self._commit(v.items[0][0])
            return v.items[0][1]
        if name == '__llsym_assume':
            return self.assume(st, args[0])
        if name == '__llsym_assert':
            return self.assertion(st, f, args[0], args[1])
        if name == '__llsym_fail':
            self.failure(st, f, args[0], 'fail', None)
            raise _PathEnd('failed')
        if name == '__llsym_exit':
            raise _PathEnd('complete')
        if name == '__llsym_output':
            key = self.cstring(args[0])
            i = args[1]
            if not isinstance(i, int):
                raise ExecError('__llsym_output index must be concrete')
            i = _signed(i, 32)
            v = args[2]              # int64_t: reported signed
            st.outputs[key if i < 0 else '%s[%d]' % (key, i)] = _signed(v, 64) if isinstance(v, int) else v
            return None
        raise ExecError('call to undefined function @%s (needs a C model in the harness)' % name)

    def intrinsic(self, st, name, ins, args):
        base = name.split('.')[1]
        if base in ('lifetime', 'dbg', 'experimental', 'assume', 'donothing'):
            return None       # llvm.assume only licenses optimisations; ignoring it is sound
        if base in ('memcpy', 'memmove', 'memset'):
            dst, src, n = args[0], args[1], args[2]
            if not isinstance(n, int) or not isinstance(dst, int):
                raise ExecError('%s with symbolic length or destination' % name)
            if base == 'memset':
                for i in range(n):
                    self.store(st, dst + i, 1, src)
            else:
                if not isinstance(src, int):
                    raise ExecError('%s with symbolic source' % name)
                bs = [self.load(st, src + i, 1) for i in range(n)]
                for i, b in enumerate(bs):
                    self.store(st, dst + i, 1, b)
            return None
        w = self.width(ins.ty) if ins.ty != ir.VOID else 0
        if base in ('smax', 'smin', 'umax', 'umin'):
            pred = {'smax': 'sgt', 'smin': 'slt', 'umax': 'ugt', 'umin': 'ult'}[base]
            c = self.icmp(pred, args[0], args[1], w)
            if isinstance(c, int):
                return args[0] if c else args[1]
            return self.ite(c, args[0], args[1], w)
        if base == 'abs':
            c = self.icmp('slt', args[0], 0, w)
            neg = self.binop('sub', 0, args[0], w)
            if isinstance(c, int):
                return neg if c else args[0]
            return self.ite(c, neg, args[0], w)
        raise ExecError('unsupported intrinsic @%s' % name)

    # harness intrinsics ---------------------------------------------------------------
    def nondet(self, st, name, idx, w, choice):
        if not isinstance(idx, int):
            raise ExecError('index argument of nondet %s must be concrete' % name)
        idx = _signed(idx, 32)
        key = name if idx < 0 else '%s[%d]' % (name, idx)
        if key in self.fixed:
            v = self.fixed[key] & _mask(w)
            if choice is not None and v >= choice:
                raise _PathEnd('infeasible')
            return v
        if key in st.inputs:
            raise ExecError('nondet input %s requested twice on one path' % key)
        var = z3.BitVec(key, w)
        st.inputs[key] = (var, w)
        if choice is None:
            return var
        self.add(z3.ULT(var, z3.BitVecVal(choice, w)))
        return self.cases([(var == z3.BitVecVal(c, w), c) for c in range(choice)], w)

    def truth(self, c):
        """C truth value of an i32: int 0/1 or a Bool term."""
        if isinstance(c, int):
            return int(c != 0)
        if isinstance(c, Cases):
            c = self.ctrue(c, lambda x: x != 0)
            return c if isinstance(c, int) else z3.simplify(c)
        return z3.simplify(c != z3.BitVecVal(0, c.size()))

    def assume(self, st, c):
        c = self.truth(c)
        if isinstance(c, int):
            if not c:
                raise _PathEnd('infeasible')
            return None
        if z3.is_true(c):
            return None
        if z3.is_false(c) or self.check(c) == z3.unsat:
            raise _PathEnd('infeasible')
        self.add(c)
        return None

    def model_values(self, st, mdl):
        ins = dict((k, mdl.eval(v, model_completion=True).as_long()) for k, (v, w) in st.inputs.items())
        outs = {}
        for k, v in st.outputs.items():
            if not isinstance(v, int):
                v = _signed(mdl.eval(self.bv(v, 64), model_completion=True).as_long(), 64)
            outs[k] = v
        return ins, outs

    def failure(self, st, f, fid, kind, neg):
        """Record a counterexample; neg is the violated condition's negation (None: the mere
        reachability of this point is the failure)."""
        r, mdl = self.check(neg, want_model=True, full=True)
        if r != z3.sat:
            self.res.inconclusive.append('no model for a reachable failure (%s)' % r)
            return
        ins, outs = self.model_values(st, mdl)
        for k, v in self.fixed.items():
            ins.setdefault(k, v)
        where = ' <- '.join(fr.fn.name for fr in reversed(st.frames))
        self.res.failures.append(Failure(fid if isinstance(fid, int) else -1, kind, ins, outs, where))
        if self.stop_on_failure or len(self.res.failures) >= self.max_failures:
            self.stop = True

    def assertion(self, st, f, c, fid):
        ok = self.truth(c)
        if isinstance(ok, int) or z3.is_false(ok):
            if isinstance(ok, int) and ok:
                return None
            self.failure(st, f, fid, 'assert', None)
            raise _PathEnd('failed')
        if z3.is_true(ok):
            return None
        r = self.check(z3.Not(ok))
        if r == z3.sat:
            self.failure(st, f, fid, 'assert', z3.Not(ok))
            if self.stop:
                raise _PathEnd('failed')
            # go on as if the assertion had been an assumption
            if self.check(ok) == z3.unsat:
                raise _PathEnd('failed')
        # proven (or assumed from here on): available as a lemma to the later assertions
        self.add(ok)
        return None

    # ------------------------------------------------------------------ driver
    def run(self, entry='llsym_main'):
        t0 = time.time()
        res = self.res
        fn = self.m.functions.get(entry)
        if fn is None:
            raise ExecError('entry function @%s is not defined' % entry)
        st = State()
        fr = Frame(fn, {}, None, st.sp)
        st.frames.append(fr)
        res.functions.add(entry)
        fn.blocks
        self.enter(st, fr, fn.entry)
        self.work = [(st, None, 0)]
        self.stop = False
        ops = self.ops
        while self.work and not self.stop:
            st, constraint, level = self.work.pop()
            while len(self.scopes) > level:
                del self.pc[self.scopes.pop():]
            if constraint is not None:
                self._commit(constraint)
            try:
                while True:
                    f = st.frames[-1]
                    ins = f.block.instrs[f.ip]
                    f.ip += 1
                    st.steps += 1
                    if st.steps > self.max_steps:
                        res.inconclusive.append('step bound %d reached on a feasible path' % self.max_steps)
                        raise _PathEnd('bound')
                    ops[ins.op](st, f, ins)
            except _PathEnd as e:
                res.steps += st.steps
                if e.kind == 'complete':
                    res.paths += 1
                    if all(isinstance(v, int) for v in st.outputs.values()):
                        res.outputs.append(dict(st.outputs))
                    else:
                        res.outputs.append(None)
                        if len(res.outputs) > 64:
                            res.outputs = res.outputs[-8:]
                elif e.kind == 'infeasible':
                    res.pruned += 1
                elif e.kind == 'failed':
                    res.failed_paths += 1
            except z3.Z3Exception as e:
                raise ExecError('z3 error: %s (at %s)' % (e, ins.text))
            if self.timeout is not None and time.time() - t0 > self.timeout and self.work:
                res.inconclusive.append('wall-clock budget of %ds exhausted with %d pending branch(es)'
                                        % (self.timeout, len(self.work)))
                break
        if self.stop and self.work and not res.failures:
            res.inconclusive.append('stopped early')
        res.wall = time.time() - t0
        return res


_MODULES = {}


def load_module(ll_path):
    m = _MODULES.get(ll_path)
    if m is None:
        with open(ll_path) as fh:
            m = _MODULES[ll_path] = ir.Module(fh.read())
    return m


def run_file(ll_path, entry='llsym_main', fixed=None, **opts):
    """Worker entry point (picklable arguments, dict result): one executor run over a .ll file.
    Exceptions become {'error': text} so that a pool never loses a partition silently."""
    import traceback
    try:
        ex = Executor(load_module(ll_path), fixed=fixed, **opts)
        return ex.run(entry).as_dict()
    except (ExecError, ir.IRError) as e:
        return {'error': '%s: %s' % (type(e).__name__, e)}
    except Exception:
        return {'error': traceback.format_exc()[-2000:]}
