"""Shared driver for LLSYM checks (C17, C14, C09): translator validation, the pool of symbolic
partitions with a wall-clock budget, vacuity twins, native replay of counterexamples.

A check supplies Part objects (item name, fixed inputs, bounds text); parts with the same item
name are aggregated into one common.Item.  Contract (DESIGN.md 3):
  * every counterexample is replayed on the native twin (real libc, gcc -O0) and must hit the
    same assertion there, else the item is an ERROR, not a violation;
  * every item has a twin run with cfg_twin=1 whose final `assert(0)` (id 99) must be refuted
    and replay natively, else ERROR (vacuous harness);
  * executor exceptions, unknown/timeouts, unwinding bounds, unfinished parts => ERROR /
    INCONCLUSIVE, never CONFIRMED.
"""
import concurrent.futures
import os
import random
import time

from .. import common
from ..common import CONFIRMED, ERROR, INCONCLUSIVE, REFUTED, Item

ENGINE = 'LLSYM'


class Part(object):
    def __init__(self, item, fixed, bounds, key=None):
        self.item, self.fixed, self.bounds, self.key = item, fixed, bounds, key


def _run_part(args):
    from . import exec as lx
    ll, fixed, opts = args
    return lx.run_file(ll, fixed=fixed, **opts)


def validate_concrete(built, cases, expect=None, memory_failures=False):
    """cases: [(name, inputs)].  Native twin == LLSYM concrete mode (status, failing assertion,
    every output).  expect: optional {name: {output: value}} written by hand, checked against
    the native run.  -> (number agreeing, [translator problems], [cases on which the code under test
    itself misbehaves: failing assertion or unexpected value - a violation seen on a fixed input,
    which the symbolic stage has to find as well, not a harness fault])"""
    from . import exec as lx
    mod = lx.load_module(built.ll)
    problems, agree, violated = [], 0, []
    for name, inp in cases:
        st, nat, _ev = built.run_native(inp, 'val')
        try:
            res = lx.Executor(mod, fixed=inp, memory_failures=memory_failures).run()
        except (lx.ExecError, lx.ir.IRError) as e:
            problems.append('%s: LLSYM concrete mode failed: %s' % (name, e))
            continue
        if st.startswith('assert:') or st.startswith('fail:'):
            same = len(res.failures) == 1 and res.failures[0].id == int(st.split(':')[1]) and \
                res.failures[0].outputs == nat and res.queries <= 1
            sym = res.failures[0].outputs if res.failures else {}
        elif st == 'memory':       # out-of-bounds access: both sides must see it (outputs up to there differ in timing only)
            same = len(res.failures) == 1 and res.failures[0].kind == 'memory'
            sym = nat
        elif st in ('done', 'exit'):
            same = res.paths == 1 and not res.failures and not res.queries and res.outputs[0] == nat
            sym = (res.outputs[0] if res.paths == 1 else None) or {}
        else:
            problems.append('%s: native harness ended with %s' % (name, st))
            continue
        if not same or res.inconclusive:
            diff = sorted(k for k in set(sym) | set(nat) if sym.get(k) != nat.get(k))
            problems.append('%s: LLSYM concrete mode != native (native %s; LLSYM paths=%d failures=%s '
                            'queries=%d %s; differing outputs: %s)' % (
                                name, st, res.paths, [f.id for f in res.failures], res.queries,
                                res.inconclusive[:1], ', '.join('%s %s vs %s' % (k, sym.get(k), nat.get(k))
                                                                for k in diff[:4])))
            continue
        want = (expect or {}).get(name, {})
        bad = ['%s=%s (expected %s)' % (k, nat.get(k), v) for k, v in sorted(want.items()) if nat.get(k) != v]
        if st not in ('done', 'exit') or bad:
            violated.append('%s: %s %s' % (name, st, '; '.join(bad)))
        else:
            agree += 1
    return agree, problems, violated


def default_confirm(built, failure):
    """Replay on the native twin: it must hit the same assertion / fail point."""
    st, outs, _ev = built.run_native(failure['inputs'], 'cex%d' % os.getpid(), keep_going=True)
    want = 'memory' if failure['kind'] == 'memory' else \
        ('fail:%d' if failure['kind'] == 'fail' else 'assert:%d') % failure['id']
    payload = {'engine': ENGINE, 'harness': built.name, 'inputs': failure['inputs'],
               'assertion_id': failure['id'], 'kind': failure['kind'], 'native_status': st, 'native_outputs': outs,
               'where': failure.get('where')}
    if st != want:
        return False, 'counterexample does not replay: native harness ended with %s, expected %s' % (st, want), payload
    if failure['kind'] == 'memory':
        return True, 'out-of-bounds access reproduced natively (AddressSanitizer / SIGSEGV); %s' % failure.get('where', ''), payload
    return True, 'assertion %d fails natively; outputs %s' % (failure['id'], outs), payload


def run_parts(report, prop, built, parts, tier, seed, budget, describe=None, confirm=None,
              per_task=None, query_timeout_ms=None, finding_key=None, max_visits=64, memory_failures=False):
    """Run all parts on up to 16 processes within `budget` seconds and add one Item per item
    name.  describe(inputs) -> short text of a counterexample; confirm as default_confirm;
    finding_key(part, payload) -> key of a REFUTED item."""
    confirm = confirm or default_confirm
    per_task = per_task or (110 if tier == 'quick' else 1100)
    opts = dict(seed=seed, timeout=per_task, max_visits=max_visits, memory_failures=memory_failures,
                query_timeout_ms=query_timeout_ms or (60000 if tier == 'quick' else 300000))
    items = []
    for p in parts:
        if p.item not in items:
            items.append(p.item)
    order = list(range(len(parts)))
    if seed:
        random.Random(seed).shuffle(order)
    results, twin_res = {}, {}
    deadline = time.time() + budget
    with concurrent.futures.ProcessPoolExecutor(max_workers=min(16, os.cpu_count() or 1)) as pool:
        futs, twins = {}, {}
        for name in items:
            p = next(p for p in parts if p.item == name)
            twins[pool.submit(_run_part, (built.ll, dict(p.fixed, cfg_twin=1), dict(opts, timeout=60)))] = name
        for i in order:
            futs[pool.submit(_run_part, (built.ll, parts[i].fixed, opts))] = i
        pending = set(futs) | set(twins)
        while pending:
            done, pending = concurrent.futures.wait(pending, timeout=max(0.1, deadline - time.time()),
                                                    return_when=concurrent.futures.FIRST_COMPLETED)
            for fu in done:
                try:
                    r = fu.result()
                except Exception as e:
                    r = {'error': 'worker died: %r' % (e,)}
                if fu in futs:
                    results[futs[fu]] = r
                else:
                    twin_res[twins[fu]] = r
            if time.time() >= deadline and pending:
                for fu in pending:
                    fu.cancel()
                for proc in list(getattr(pool, '_processes', {}).values()):
                    proc.terminate()
                break
    for name in items:
        idx = [i for i, p in enumerate(parts) if p.item == name]
        report.add(_item(prop, built, name, [parts[i] for i in idx], [results.get(i) for i in idx],
                         twin_res.get(name), describe, confirm, finding_key))


def _item(prop, built, name, ps, rs, twin, describe, confirm, finding_key):
    bounds = ps[0].bounds + ' [%d sub-partition(s)]' % len(ps)
    done = [r for r in rs if r is not None and 'error' not in r]
    paths = sum(r['paths'] + r['failed_paths'] for r in done)
    base = dict(bounds=bounds, paths=paths, queries=sum(r['queries'] for r in done),
                seconds=round(sum(r['solver_seconds'] for r in done), 2),
                functions=sorted(set(f for r in done for f in r['functions'])))
    errs = [r['error'] for r in rs if r is not None and 'error' in r]
    if errs:
        return Item(name, ENGINE, ERROR, detail='executor: ' + errs[0][:1200], **base)
    fails = [(p, f) for p, r in zip(ps, rs) if r is not None and 'error' not in r
             for f in r['failures'] if f['id'] != 99]
    if fails:
        p, f = fails[0]
        ok, detail, payload = confirm(built, f)
        payload['item'] = name
        text = describe(f['inputs']) if describe else ''
        if not ok:
            return Item(name, ENGINE, ERROR, detail=(text + ' ' + detail).strip(), sample=f['inputs'], **base)
        path = common.write_replay(prop, name, payload)
        key = finding_key(p, payload) if finding_key else 'assertion-%d' % f['id']
        return Item(name, ENGINE, REFUTED, detail='%s: %s (%d counterexample(s))' % (text, detail, len(fails)),
                    sample={'inputs': f['inputs'], 'outputs': f['outputs']}, replay=path, finding_key=key, **base)
    missing = sum(1 for r in rs if r is None)
    inc = sorted(set(w for r in done for w in r['inconclusive']))
    if missing or inc:
        why = (['%d of %d sub-partitions did not finish inside the tier budget' % (missing, len(rs))]
               if missing else []) + inc[:3]
        return Item(name, ENGINE, INCONCLUSIVE, detail='; '.join(why)[:600], **base)
    if twin is None:
        return Item(name, ENGINE, INCONCLUSIVE, detail='vacuity twin did not finish inside the tier budget', **base)
    if 'error' in twin:
        return Item(name, ENGINE, ERROR, detail='vacuity twin did not run: %s' % twin['error'][:800], **base)
    tf = [f for f in twin['failures'] if f['id'] == 99]
    if not tf:
        return Item(name, ENGINE, ERROR, detail='vacuous: the twin (final assertion false) was not refuted '
                    '(failures %s)' % [f['id'] for f in twin['failures']], **base)
    st, _o, _e = built.run_native(tf[0]['inputs'], 'twin%d' % os.getpid())
    if st != 'assert:99':
        return Item(name, ENGINE, ERROR, detail='twin counterexample does not replay natively (%s)' % st, **base)
    return Item(name, ENGINE, CONFIRMED,
                detail='all %d paths end with every assertion proved (%d more pruned by assumptions, %d cached '
                       'solver answers); twin refuted and replayed' % (
                           paths, sum(r['pruned'] for r in done), sum(r['cache_hits'] for r in done)),
                sample={'reachability_witness': tf[0]['inputs']}, **base)


def replay_payload(built, payload):
    """--replay: re-run the native side of a saved counterexample; 1 if it reproduces."""
    ok, detail, p2 = default_confirm(built, {'inputs': payload['inputs'], 'id': payload['assertion_id'],
                                             'kind': payload.get('kind', 'assert'), 'where': payload.get('where')})
    print('native harness: %s' % p2['native_status'])
    print('outputs: %s' % p2['native_outputs'])
    print('reproduced' if ok else 'NOT reproduced: ' + detail)
    return 1 if ok else 0
