"""LLSYM - a small symbolic executor for LLVM IR that clang emits from real C files of the
repository (DESIGN.md 2.3).  Used for C kernels: arithmetic and table code whose inputs a
harness can build in fixed-shape static storage.

Pieces
  build.py   harness C file (which #includes the real girepository/<file>.c) -> textual IR
             (clang-14 -O1 -std=gnu99 -fno-inline, shim GLib headers from /verif/shim) and a
             native gcc -O0 twin whose nondet functions read an input file; everything is rebuilt
             from $GI_VERIF_REPO (default /repo) on every run, nothing is written there.
  ir.py      parser for the IR subset (below); function bodies are parsed when first called.
  exec.py    the executor on z3.
  slice.py   function slicer for files that do not compile whole against the shim: named
             functions / structs / typedefs / macros / variables copied verbatim (with #line)
             out of the current file into a generated .inc; missing item => SliceError.
  runner.py  shared check driver (translator validation, partition pool with a wall-clock
             budget, vacuity twins, native replay) used by C17, C14, C09.
  selftest.py  `python -m vlib.llsym.selftest`: LLSYM against native runs of small programs.
  harness/c/llsym.h, llsym_native.c   the harness interface and its native implementation.

Model
  * Values: integers/pointers are bit-vectors of the IR width (i32 arithmetic wraps as in C;
    nsw/nuw/exact/inbounds are parsed and ignored, so signed overflow is never used to prune).
    A symbolic i1 is a z3 Bool.  Concrete values are Python ints and never reach the solver.
  * Case-split values (exec.Cases): a value known to be one of <= 64 constants, each under a
    guard - what __llsym_choice returns, what a load through such an index or pointer yields,
    what a phi/select of constants yields.  Arithmetic with constants, comparisons, casts,
    switch, loads and stores through them are done case by case in Python, no solver call.
  * Memory: one flat little-endian byte space, Array(BitVec 64 -> BitVec 8) semantically.
    Globals (initialisers laid out with the module's datalayout, relocations resolved),
    functions and allocas live at disjoint concrete bases.  Bytes at concrete addresses are
    kept in a Python overlay (store-to-load forwarding of whole values).  A load through a
    symbolic address first asks the solver which objects it can point into (an address that
    may fall outside every object is an error) and becomes an if-then-else over the bytes of
    those objects; objects over 4 KiB, more than 8 candidate objects, and every symbolic store
    go to the literal z3 Array (overlay flushed into it; decided by the general SMT solver).
    Reading allocated but never written stack bytes gives a fresh unconstrained byte.
  * Control: depth-first exploration, forking at br / switch (cases grouped by target) only
    between successors feasible under the path condition; `select` is an if-then-else term
    (fork_on_select=True forks instead).  A branch all of whose targets are empty blocks
    falling into one common block is if-converted: the block's phis become guarded values and
    no fork happens.  Calls to defined functions are interpreted inline (call stack; varargs
    extras ignored, va_start unsupported); indirect calls need a constant or case-split target.
  * Bounds: a block entered more than max_visits times in one frame, or more than max_steps
    instructions on one path, is an unwinding-assertion failure: the run is INCONCLUSIVE.
    Solver `unknown`/timeouts and the wall-clock budget do the same.
  * Queries: path condition = list of constraints; a query is sent with only the constraints
    that (transitively) share variables with it, to a fresh bit-blasting solver
    (simplify, propagate-values, solve-eqs, bit-blast, sat), and answers are cached on that
    slice.  Proven assertions are added to the path condition as lemmas.
  * A symbolic address that the path condition pins to a single value is used concretely
    (two solver calls).  With Executor(memory_failures=True) an access outside every object
    is a counterexample (id 998, kind 'memory') instead of an ExecError; build(asan=True)
    makes the native twin replay it under AddressSanitizer (run_native status 'memory').
  * libc: harness/c/llsym_libc.h has C models of strlen strcmp strncmp strchr strrchr strstr
    memcmp strtol bsearch, used only in the IR build; the native twin calls glibc, so each
    translator-validation case also compares the models with the real functions.
  * Harness intrinsics (llsym.h): __llsym_nondet_{i32,i64,u8,u16,u32,u64}(name, idx),
    __llsym_choice(name, idx, n), __llsym_pick(name, idx, n) (same input, but one path per
    value and a concrete result: for lengths and shapes that drive loops), __llsym_assume, __llsym_assert(cond, id) (sat => counter-
    example = model of every nondet input of the path + the outputs so far), __llsym_fail(id)
    (g_error / g_assert stubs), __llsym_exit, __llsym_output(name, idx, value).
    Executor(fixed={name: value}) pins inputs; with all inputs pinned the run is concrete.

IR subset
  datalayout (little endian, 64-bit pointers), named/literal/packed struct types, arrays,
  typed pointers, function types; globals with initialisers (integers, null, undef,
  zeroinitializer, c"..", arrays, structs, float/double bit patterns, addresses of globals and
  functions, getelementptr/bitcast/ptrtoint/inttoptr/add/sub/trunc/zext/sext constant
  expressions); define/declare (noreturn noted).  Instructions: alloca, load, store,
  getelementptr (struct and array indexing, constant and symbolic indices), br, switch, phi,
  select, icmp, add sub mul udiv sdiv urem srem and or xor shl lshr ashr, zext sext trunc
  bitcast ptrtoint inttoptr, freeze, call (direct / through constant function pointers), ret,
  unreachable (reaching it is an error); intrinsics llvm.memset/memcpy/memmove (concrete
  length), lifetime.*, dbg.*, assume (ignored), smax smin umax umin abs.

Not supported (raises IRError / ExecError, which a check must report as ERROR, never as a
pass): floating-point arithmetic, vectors, extractvalue/insertvalue and aggregate SSA values,
opaque pointers, atomics, inline asm, invoke/exceptions, va_arg, aliases, address spaces,
integers wider than 64 bits, symbolic alloca sizes / memcpy lengths, calls to functions that
are neither defined in the module nor harness intrinsics.  Division by a symbolic zero and
shifts by >= width follow z3's total semantics (no UB detection); out-of-bounds is detected
per object for globals, for the stack only against the whole live stack region.
"""
