"""Function slicer: copy named top-level items out of a C file of the repository, verbatim.

Used where a whole file does not compile against the shim headers (girepository.c,
gitypelib.c: GObject boilerplate).  The text of each requested item is taken from the
*current* file - signature to matching closing brace - and written, in source order and with
#line directives, into a generated .inc in the work directory; bodies are never re-typed.

    write_slice('/repo/girepository/girepository.c',
                ['parse_version', 'struct:NamespaceVersionCandidadate', 'var:default_repository'],
                '/verif/.work/llsym/h_c17/sliced_girepository.inc')

Items: 'fn:NAME' function definition | 'struct:NAME' struct NAME { .. }; | 'typedef:NAME'
typedef .. NAME; (incl. typedef struct { .. } NAME;) | 'macro:NAME' #define with continuation
lines | 'var:NAME' file-scope variable definition.  Without a prefix the kinds are tried in that
order.  An item that cannot be found raises SliceError (the check reports a harness ERROR).
What the requested items use from the same file and nothing else declares - static functions,
macros, struct/typedef definitions, static variables - is added transitively.
"""
import os
import re


class SliceError(Exception):
    pass


def _code_mask(text):
    """Same-length string where comments, string and character literals are blanked."""
    out = list(text)
    i, n = 0, len(text)
    while i < n:
        c = text[i]
        if c == '/' and text[i + 1:i + 2] == '*':
            j = text.find('*/', i + 2)
            j = n if j < 0 else j + 2
        elif c == '/' and text[i + 1:i + 2] == '/':
            j = text.find('\n', i)
            j = n if j < 0 else j
        elif c in '"\'':
            j = i + 1
            while j < n and text[j] != c:
                j += 2 if text[j] == '\\' else 1
            j += 1
        else:
            i += 1
            continue
        for k in range(i, min(j, n)):
            if out[k] != '\n':
                out[k] = ' '
        i = j
    return ''.join(out)


def _match(mask, pos, open_c, close_c):
    """Index just after the bracket matching mask[pos] == open_c."""
    depth = 0
    for i in range(pos, len(mask)):
        if mask[i] == open_c:
            depth += 1
        elif mask[i] == close_c:
            depth -= 1
            if depth == 0:
                return i + 1
    raise SliceError('unbalanced %s' % open_c)


def _line_start(text, pos):
    return text.rfind('\n', 0, pos) + 1


def _line_end(text, pos):
    j = text.find('\n', pos)
    return len(text) if j < 0 else j + 1


def _find_fn(text, mask, name):
    for m in re.finditer(r'(?m)^(?:[A-Za-z_][\w \t\*]*[ \t\*])?%s[ \t]*\(' % re.escape(name), mask):
        close = _match(mask, m.end() - 1, '(', ')')
        rest = mask[close:].lstrip()
        if not rest.startswith('{'):
            continue                      # a prototype or a call, not the definition
        body = mask.index('{', close)
        end = _line_end(text, _match(mask, body, '{', '}') - 1)
        start = _line_start(text, m.start())
        while start > 0:                  # return type / storage class lines above the name
            prev = _line_start(text, start - 1)
            line = mask[prev:start].strip()
            if not line or line[-1] in ';}' or line.startswith('#'):
                break
            start = prev
        return start, end
    return None


def _find_struct(text, mask, name):
    m = re.search(r'(?m)^(?:typedef[ \t]+)?(?:struct|union|enum)[ \t]+%s\s*\{' % re.escape(name), mask)
    if not m:
        return None
    end = _match(mask, mask.index('{', m.start()), '{', '}')
    semi = mask.index(';', end - 1)
    return _line_start(text, m.start()), _line_end(text, semi)


def _find_typedef(text, mask, name):
    m = re.search(r'(?m)^typedef\b[^;{]*\b%s[ \t]*;' % re.escape(name), mask)
    if m:
        return _line_start(text, m.start()), _line_end(text, m.end() - 1)
    for m in re.finditer(r'\}[ \t\n]*%s[ \t]*;' % re.escape(name), mask):
        depth = 0                         # walk back to the brace that this one closes
        for i in range(m.start(), -1, -1):
            if mask[i] == '}':
                depth += 1
            elif mask[i] == '{':
                depth -= 1
                if depth == 0:
                    start = _line_start(text, i)
                    while start > 0 and not mask[start:].lstrip().startswith('typedef'):
                        start = _line_start(text, start - 1)
                    if 'typedef' in mask[start:i]:
                        return start, _line_end(text, m.end() - 1)
                    break
    return None


def _find_macro(text, mask, name):
    m = re.search(r'(?m)^#[ \t]*define[ \t]+%s\b' % re.escape(name), text)
    if not m:
        return None
    end = _line_end(text, m.start())
    while text[:end].rstrip('\n').endswith('\\'):
        end = _line_end(text, end)
    return m.start(), end


def _find_var(text, mask, name):
    m = re.search(r'(?m)^(?:static|const|extern)?[^;{}()#\n]*\b%s\b[^;{}()]*;' % re.escape(name), mask)
    if not m:
        return None
    return _line_start(text, m.start()), _line_end(text, m.end() - 1)


_FINDERS = [('fn', _find_fn), ('struct', _find_struct), ('typedef', _find_typedef),
            ('macro', _find_macro), ('var', _find_var)]


_C_WORDS = set('auto break case char const continue default do double else enum extern float for goto if '
               'inline int long register restrict return short signed sizeof static struct switch typedef '
               'union unsigned void volatile while NULL TRUE FALSE'.split())


def _closure(text, mask, spans, stubs):
    """Everything of the same file the sliced items depend on and nothing else declares:
    static functions they call or mention, macros, struct/union/enum definitions, typedefs
    and static variables defined in the file.  A refactoring that adds a call to a static
    helper therefore does not break the harness.  `stubs`: names the harness defines itself."""
    done = set(name for _, _, _, name in spans)
    done.update(stubs)
    work = list(spans)
    while work:
        start, end, _kind, _name = work.pop()
        body = mask[start:end]
        tagged = set(re.findall(r'\b(?:struct|union|enum)\s+(\w+)', body))
        for ident in sorted(set(re.findall(r'\b[A-Za-z_]\w*\b', body)) - _C_WORDS):
            if ident in done:
                continue
            found = None
            fn = _find_fn(text, mask, ident)
            if fn and re.search(r'\bstatic\b', mask[fn[0]:mask.index(ident, fn[0])]):
                found = (fn[0], fn[1], 'fn', ident)
            if not found and ident in tagged:
                sp = _find_struct(text, mask, ident)
                if sp:
                    found = (sp[0], sp[1], 'struct', ident)
            if not found:
                sp = _find_macro(text, mask, ident)
                if sp:
                    found = (sp[0], sp[1], 'macro', ident)
            if not found:
                sp = _find_typedef(text, mask, ident)
                if sp:
                    found = (sp[0], sp[1], 'typedef', ident)
            if not found:
                m = re.search(r'(?m)^static\b[^;{}()\n]*\b%s\b[^;{}()]*;' % re.escape(ident), mask)
                if m:
                    found = (_line_start(text, m.start()), _line_end(text, m.end() - 1), 'var', ident)
            done.add(ident)
            if found and not any(a <= found[0] < b for a, b, _, _ in spans):
                spans.append(found)
                work.append(found)
    return spans


def slice_text(text, items, origin='<text>', stubs=(), transitive=True):
    """-> (generated text, [(kind, name, first line, last line)]) in source order."""
    mask = _code_mask(text)
    found = []
    for item in items:
        kind, _, name = item.rpartition(':')
        span = None
        for k, fn in _FINDERS:
            if kind and k != kind:
                continue
            span = fn(text, mask, name)
            if span:
                kind_found = k
                break
        if not span:
            raise SliceError('%s: no %s named %s' % (origin, kind or 'definition', name))
        found.append((span[0], span[1], kind_found, name))
    if transitive:
        found = _closure(text, mask, found, stubs)
    found.sort()
    out, report, last_end = [], [], -1
    for start, end, kind, name in found:
        if start < last_end:
            raise SliceError('%s: %s overlaps the previous item' % (origin, name))
        last_end = end
        line = text.count('\n', 0, start) + 1
        out.append('#line %d "%s"\n' % (line, origin))
        out.append(text[start:end])
        if not text[start:end].endswith('\n'):
            out.append('\n')
        out.append('\n')
        report.append((kind, name, line, line + text.count('\n', start, end) - 1))
    return ''.join(out), report


def write_slice(src_path, items, out_path, stubs=()):
    """Slice src_path into out_path (requested items plus, transitively, the static functions,
    macros, types and static variables of the same file they use, except `stubs`, which the
    harness defines itself); returns the report list of slice_text."""
    try:
        with open(src_path) as f:
            text = f.read()
    except OSError as e:
        raise SliceError('cannot read %s: %s' % (src_path, e))
    gen, report = slice_text(text, items, src_path, stubs)
    os.makedirs(os.path.dirname(out_path), exist_ok=True)
    with open(out_path, 'w') as f:
        f.write('/* generated by vlib/llsym/slice.py from %s - verbatim copies, do not edit */\n\n' % src_path)
        f.write(gen)
    return report
