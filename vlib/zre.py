"""ZRE engine: live compiled `re` pattern objects -> z3 regular expressions
(DESIGN 2.2).  The parse tree is taken from `re._parser.parse(p.pattern,
p.flags)` of the pattern object found in the imported /repo module, so the
encoding is regenerated from the current source on every run.

Only language membership is modelled (no capture semantics); `unknown` and
any untranslatable construct raise/are reported as inconclusive, never
dropped.
"""
import re
import re._constants as C
import re._parser as P
import time

import z3

MAXCHAR = 0x2FFFF      # z3's Unicode sort ends here; code points above are outside the claim

_S = z3.StringSort()
_RS = z3.ReSort(_S)


class Untranslatable(Exception):
    pass


def _ranges_from_pred(pred):
    out = []
    start = None
    for cp in range(0, MAXCHAR + 1):
        if 0xD800 <= cp <= 0xDFFF:
            ok = False
        else:
            ok = pred(chr(cp))
        if ok and start is None:
            start = cp
        elif not ok and start is not None:
            out.append((start, cp - 1))
            start = None
    if start is not None:
        out.append((start, MAXCHAR))
    return out


_CAT_CACHE = {}


def category_ranges(cat, flags):
    key = (cat, bool(flags & re.ASCII))
    if key in _CAT_CACHE:
        return _CAT_CACHE[key]
    fl = re.ASCII if flags & re.ASCII else 0
    pats = {C.CATEGORY_SPACE: r'\s', C.CATEGORY_NOT_SPACE: r'\S',
            C.CATEGORY_WORD: r'\w', C.CATEGORY_NOT_WORD: r'\W',
            C.CATEGORY_DIGIT: r'\d', C.CATEGORY_NOT_DIGIT: r'\D'}
    if cat not in pats:
        raise Untranslatable('category %r' % (cat,))
    rx = re.compile(pats[cat], fl)
    r = _ranges_from_pred(lambda ch: rx.match(ch) is not None)
    _CAT_CACHE[key] = r
    return r


def _ch(cp):
    return z3.StringVal(chr(cp))


def ranges_to_re(ranges):
    parts = []
    for lo, hi in ranges:
        if lo == hi:
            parts.append(z3.Re(_ch(lo)))
        else:
            parts.append(z3.Range(_ch(lo), _ch(hi)))
    if not parts:
        return z3.Empty(_RS)
    if len(parts) == 1:
        return parts[0]
    return z3.Union(*parts)


def _norm(ranges):
    ranges = sorted(ranges)
    out = []
    for lo, hi in ranges:
        if out and lo <= out[-1][1] + 1:
            out[-1] = (out[-1][0], max(out[-1][1], hi))
        else:
            out.append((lo, hi))
    return out


def _complement(ranges):
    ranges = _norm(ranges)
    out = []
    cur = 0
    for lo, hi in ranges:
        if lo > cur:
            out.append((cur, lo - 1))
        cur = hi + 1
    if cur <= MAXCHAR:
        out.append((cur, MAXCHAR))
    return out


def _case_close(ranges):
    extra = []
    for lo, hi in ranges:
        if hi - lo > 2000:
            continue
        for cp in range(lo, hi + 1):
            ch = chr(cp)
            for v in (ch.lower(), ch.upper()):
                if len(v) == 1:
                    extra.append((ord(v), ord(v)))
    return _norm(list(ranges) + extra)


class Translator(object):
    def __init__(self, flags, splice=None):
        self.flags = flags
        self.splice = splice or {}      # {code point: z3 Re} (symbolic text spliced for a sentinel literal)
        self.anchored_start = False
        self.anchored_end = False

    def charset(self, items):
        neg = False
        ranges = []
        for op, av in items:
            if op is C.NEGATE:
                neg = True
            elif op is C.LITERAL:
                ranges.append((av, av))
            elif op is C.RANGE:
                ranges.append((av[0], av[1]))
            elif op is C.CATEGORY:
                ranges.extend(category_ranges(av, self.flags))
            else:
                raise Untranslatable('set item %r' % (op,))
        ranges = _norm(ranges)
        if self.flags & re.IGNORECASE:
            ranges = _case_close(ranges)
        if neg:
            ranges = _complement(ranges)
        return ranges

    def seq(self, items, top=False):
        parts = []
        n = len(items)
        for idx, (op, av) in enumerate(items):
            if op is C.AT:
                if av in (C.AT_BEGINNING, C.AT_BEGINNING_STRING) and top and idx == 0:
                    self.anchored_start = True
                    continue
                if av in (C.AT_END, C.AT_END_STRING) and top and idx == n - 1:
                    self.anchored_end = True
                    continue
                raise Untranslatable('anchor %r in the middle of a pattern' % (av,))
            parts.append(self.node(op, av))
        if not parts:
            return z3.Re(z3.StringVal(''))
        if len(parts) == 1:
            return parts[0]
        return z3.Concat(*parts)

    def node(self, op, av):
        if op is C.LITERAL:
            if av in self.splice:
                return self.splice[av]
            if self.flags & re.IGNORECASE:
                return ranges_to_re(_case_close([(av, av)]))
            return z3.Re(_ch(av))
        if op is C.NOT_LITERAL:
            r = [(av, av)]
            if self.flags & re.IGNORECASE:
                r = _case_close(r)
            return ranges_to_re(_complement(r))
        if op is C.ANY:
            if self.flags & re.DOTALL:
                return ranges_to_re([(0, MAXCHAR)])
            return ranges_to_re(_complement([(10, 10)]))
        if op is C.IN:
            return ranges_to_re(self.charset(av))
        if op is C.BRANCH:
            return z3.Union(*[self.seq(list(b)) for b in av[1]]) if len(av[1]) > 1 \
                else self.seq(list(av[1][0]))
        if op in (C.MAX_REPEAT, C.MIN_REPEAT, C.POSSESSIVE_REPEAT):
            lo, hi, sub = av
            r = self.seq(list(sub))
            if hi is C.MAXREPEAT:
                if lo == 0:
                    return z3.Star(r)
                if lo == 1:
                    return z3.Plus(r)
                return z3.Concat(z3.Loop(r, lo, lo), z3.Star(r))
            if lo == 0 and hi == 1:
                return z3.Option(r)
            return z3.Loop(r, lo, hi)
        if op is C.SUBPATTERN:
            group, add_flags, del_flags, sub = av
            if add_flags or del_flags:
                raise Untranslatable('inline flags')
            return self.seq(list(sub))
        if op is C.ASSERT_NOT or op is C.ASSERT:
            raise Untranslatable('lookaround (handled by the caller)')
        raise Untranslatable('regex op %r' % (op,))


def translate(pat, splice=None):
    """-> (z3 Re of the pattern body, anchored_start, anchored_end)."""
    tree = P.parse(pat.pattern, pat.flags)
    tr = Translator(pat.flags, splice)
    body = tr.seq(list(tree), top=True)
    return body, tr.anchored_start, tr.anchored_end


ANY = z3.Star(ranges_to_re([(0, MAXCHAR)]))


def match_language(pat, splice=None, mode='match'):
    """Language of whole strings s for which pat.<mode>(s) succeeds, assuming s
    has no trailing-newline subtlety for `$` (callers exclude '\\n' from s)."""
    body, a0, a1 = translate(pat, splice)
    parts = []
    if mode == 'search' and not a0:
        parts.append(ANY)
    parts.append(body)
    if mode != 'fullmatch' and not a1:
        parts.append(ANY)
    return z3.Concat(*parts) if len(parts) > 1 else parts[0]


class Query(object):
    """One solver query with bookkeeping."""

    def __init__(self, name, timeout_s=60, seed=0):
        self.name = name
        self.solver = z3.Solver()
        self.solver.set('timeout', int(timeout_s * 1000))
        if seed:
            self.solver.set('random_seed', seed)
        self.seconds = 0.0

    def add(self, *cs):
        self.solver.add(*cs)

    def check(self):
        t0 = time.time()
        r = self.solver.check()
        self.seconds = time.time() - t0
        return str(r)

    def model(self):
        return self.solver.model()


def sval(model, var):
    v = model.eval(var, model_completion=True)
    try:
        return v.as_string()
    except Exception:
        return str(v)


def unescape_z3(s):
    """z3 prints non-ASCII as \\u{..}; convert back to a Python str."""
    return re.sub(r'\\u\{([0-9a-fA-F]+)\}', lambda m: chr(int(m.group(1), 16)), s)


def _job_main(conn, fn, args):
    try:
        conn.send(fn(*args))
    except BaseException as e:  # worker boundary
        conn.send({'result': 'error', 'seconds': 0, 'detail': repr(e)})
    finally:
        conn.close()


def run_jobs(jobs, max_workers=14, grace=20):
    """jobs: [(key, fn, args, timeout_s)].  Each query runs in its own process and is
    killed `grace` seconds after its solver timeout (z3's own timeout is not always
    honoured inside the regex solver); a killed query is `unknown`, i.e. inconclusive."""
    import multiprocessing as mp
    ctx = mp.get_context('fork')
    pending = list(jobs)
    running = []
    results = {}
    while pending or running:
        while pending and len(running) < max_workers:
            key, fn, args, to = pending.pop(0)
            parent, child = ctx.Pipe(duplex=False)
            p = ctx.Process(target=_job_main, args=(child, fn, args))
            p.start()
            child.close()
            running.append((key, p, parent, time.time(), to))
        still = []
        for key, p, conn, t0, to in running:
            if conn.poll(0):
                try:
                    results[key] = conn.recv()
                except EOFError:
                    results[key] = {'result': 'error', 'seconds': time.time() - t0,
                                    'detail': 'worker died'}
                p.join(5)
                if p.is_alive():
                    p.kill()
            elif not p.is_alive():
                results[key] = {'result': 'error', 'seconds': time.time() - t0,
                                'detail': 'worker exited without a result'}
            elif time.time() - t0 > to + grace:
                p.kill()
                p.join(5)
                results[key] = {'result': 'unknown', 'seconds': time.time() - t0,
                                'detail': 'killed at hard timeout'}
            else:
                still.append((key, p, conn, t0, to))
        running = still
        if running:
            time.sleep(0.1)
    return results
