"""One CrossHair condition in one process.

usage: ch_worker.py <module-file> <function> <per_condition_timeout> [per_path_timeout]
Prints one JSON object: status (confirmed|refuted|unknown|pre_unsat|error),
messages, counterexample call text, paths explored, exhausted flag, seconds.
The verdict is CrossHair's (z3 decides every branch feasibility and the final
post-condition query on each path); nothing is sampled here.
"""
import collections
import importlib.util
import json
import os
import sys
import time


def main():
    modfile, fname, cond_to = sys.argv[1], sys.argv[2], float(sys.argv[3])
    path_to = float(sys.argv[4]) if len(sys.argv) > 4 else None
    t0 = time.time()
    out = {'fn': fname, 'status': 'error', 'messages': [], 'paths': 0,
           'exhausted': False}
    try:
        sys.path.insert(0, os.path.dirname(os.path.abspath(modfile)))
        sys.path.insert(0, os.path.dirname(os.path.dirname(os.path.abspath(__file__))))
        spec = importlib.util.spec_from_file_location(
            os.path.splitext(os.path.basename(modfile))[0], modfile)
        mod = importlib.util.module_from_spec(spec)
        sys.modules[spec.name] = mod
        spec.loader.exec_module(mod)
        fn = getattr(mod, fname)
        from crosshair.core_and_libs import (analyze_function, run_checkables,
                                              AnalysisKind, MessageType)
        from crosshair.options import AnalysisOptionSet
        from vlib import ch_patches
        ch_patches.apply()
        stats = collections.Counter()
        kw = dict(per_condition_timeout=cond_to,
                  analysis_kind=[AnalysisKind.PEP316], report_all=True,
                  stats=stats)
        if path_to is not None:
            kw['per_path_timeout'] = path_to
        options = AnalysisOptionSet(**kw)
        checkables = analyze_function(fn, options)
        if not checkables:
            out['messages'].append({'state': 'NO_CONDITIONS', 'text': ''})
        msgs = run_checkables(checkables)
        worst = None
        for m in msgs:
            out['messages'].append({'state': m.state.name, 'text': m.message,
                                    'line': m.line,
                                    'tb': (m.traceback or '')[-1500:]})
            if worst is None or m.state > worst:
                worst = m.state
        out['paths'] = stats.get('num_paths', 0)
        out['exhausted'] = stats.get('exhaustion', 0) > 0
        if worst is None:
            out['status'] = 'error'
        elif worst == MessageType.CONFIRMED:
            out['status'] = 'confirmed'
        elif worst == MessageType.CANNOT_CONFIRM:
            out['status'] = 'unknown'
        elif worst == MessageType.PRE_UNSAT:
            out['status'] = 'pre_unsat'
        elif worst in (MessageType.POST_FAIL, MessageType.EXEC_ERR,
                       MessageType.POST_ERR):
            out['status'] = 'refuted'
        else:
            out['status'] = 'error'
    except BaseException as e:  # worker boundary
        import traceback
        out['status'] = 'error'
        out['messages'].append({'state': 'WORKER', 'text': repr(e),
                                'tb': traceback.format_exc()[-3000:]})
    out['seconds'] = round(time.time() - t0, 3)
    sys.stdout.write('\n@@CH@@' + json.dumps(out) + '\n')


if __name__ == '__main__':
    main()
