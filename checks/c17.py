"""C17 — requiring a namespace loads the right version (engine LLSYM, kernels only).

Encoded, copied verbatim out of the current girepository/girepository.c by vlib.llsym.slice:
parse_version, compare_version, compare_candidate_reverse, check_version_conflict,
get_registered_status (+ get_repository), get_typelib_dependencies, load_dependencies_recurse.
Harness and oracles: harness/c/h_c17.c.  Not claimed: search-path construction, directory
enumeration, file mapping, dependency recursion, registration tables (GLib, file system,
process-global state - DESIGN.md C17).
"""
import os
import time

from vlib import common
from vlib.common import ERROR, Item
from vlib.llsym import runner
from vlib.llsym.runner import Part

HARNESS = 'h_c17'
SLICE = ['parse_version', 'compare_version', 'struct:NamespaceVersionCandidadate',
         'compare_candidate_reverse', 'check_version_conflict', 'get_repository',
         'get_registered_status', 'get_typelib_dependencies', 'load_dependencies_recurse',
         'struct:_GIRepositoryPrivate', 'var:default_repository']
STUBS = ['init_globals']          # static in girepository.c, defined by the harness instead
SHAPES = [(1, 0), (2, 0), (3, 0), (1, 1), (4, 0), (1, 2), (2, 1), (5, 0), (1, 3), (2, 2), (3, 1)]
NSHAPES = [0, 1, 2, 4, 7, 11]
BUDGET = {'quick': 165, 'thorough': 1380}


def build():
    from vlib.llsym import build as lb, slice as sl

    def prepare(work):
        sl.write_slice(os.path.join(lb.repo(), 'girepository', 'girepository.c'), SLICE,
                       os.path.join(work, 'sliced_girepository.inc'), stubs=STUBS)
    return lb.build(HARNESS, prepare=prepare, ir_cflags=['-fno-builtin'])


# ---------------------------------------------------------------------------
# concrete input vectors

def _base(mode, maxlen=5):
    return {'mode': mode, 'cfg_maxlen': maxlen, 'cfg_twin': 0}


def v_parse(text):
    b = text.encode('latin-1')
    d = _base(0)
    d['len'] = len(b)
    for i, c in enumerate(b):
        d['c[%d]' % i] = c
    return d


def _version(d, x, text):
    major, _, minor = text.partition('.')
    shape = SHAPES.index((len(major), len(minor)))
    d['shape[%d]' % x] = shape
    for i, ch in enumerate(major):
        d['d[%d]' % (x * 8 + i)] = int(ch)
    for i, ch in enumerate(minor):
        d['d[%d]' % (x * 8 + len(major) + 1 + i)] = int(ch)


def v_compare(a, b):
    d = _base(1)
    _version(d, 0, a)
    _version(d, 1, b)
    return d


def v_candidates(cands):
    d = _base(2)
    for i, (ver, idx) in enumerate(cands):
        _version(d, i, ver)
        d['path_index[%d]' % i] = idx & 0xffffffff
    return d


def v_conflict(loaded, lazy, allow_lazy, version, loaded_version='1.0', lazy_version='2.0',
               use_default=0, want_lazy=1, want_conflict=1):
    d = _base(3)
    d.update({'use_default': use_default, 'allow_lazy': allow_lazy, 'has_version': int(version is not None),
              'want_lazy': want_lazy, 'want_conflict': want_conflict, 'loaded': loaded, 'lazy': lazy})
    for name, pre, text in (('lenv', 'v', version or ''), ('len1', 'l', loaded_version), ('len2', 'z', lazy_version)):
        d[name] = len(text)
        for i, ch in enumerate(text.encode('latin-1')):
            d['%s[%d]' % (pre, i)] = ch
    return d


def v_split(deps, ok=(1, 1), loaded=0, lazy=0, loaded_version='1.0'):
    d = _base(4)
    d['ndeps'] = len(deps)
    d['loaded'], d['lazy'] = loaded, lazy
    for i, ch in enumerate((loaded_version + '\0\0\0')[:3].encode('latin-1')):
        d['l[%d]' % i] = ch
    for n, text in enumerate(deps):
        b = text.encode('latin-1')
        d['deplen[%d]' % n] = len(b) - 1
        d['lastdash[%d]' % n] = text.rindex('-')
        for i, c in enumerate(b):
            d['dep[%d]' % (n * 8 + i)] = c
        d['require_ok[%d]' % n] = ok[n]
    return d


def validation_cases():
    c, e = [], {}

    def add(name, inp, **want):
        c.append((name, inp))
        if want:
            e[name] = want
    add('parse "1.0"', v_parse('1.0'), ret=1, major=1, minor=0, wellformed=1)
    add('parse "1.10"', v_parse('1.10'), ret=1, major=1, minor=10, wellformed=1)
    add('parse "12345"', v_parse('12345'), ret=1, major=12345, minor=0, wellformed=1)
    add('parse "9.999"', v_parse('9.999'), ret=1, major=9, minor=999, wellformed=1)
    add('parse "007.5"', v_parse('007.5'), ret=1, major=7, minor=5, wellformed=1)
    add('parse ""', v_parse(''), ret=1, major=0, minor=0, wellformed=0)
    add('parse "abc"', v_parse('abc'), ret=1, major=0, wellformed=0)
    add('parse "1."', v_parse('1.'), wellformed=0)
    add('parse ".5"', v_parse('.5'), wellformed=0)
    add('parse "1.x"', v_parse('1.x'), ret=0, wellformed=0)
    add('parse "1..2"', v_parse('1..2'), ret=0, wellformed=0)
    add('parse "1.2.3"', v_parse('1.2.3'), ret=0, wellformed=0)
    add('parse " 7"', v_parse(' 7'), ret=1, major=7, wellformed=0)
    add('parse "+3.4"', v_parse('+3.4'), wellformed=0)
    add('parse "-1.2"', v_parse('-1.2'), major=-1, wellformed=0)
    add('parse "1.-2"', v_parse('1.-2'), wellformed=0)
    add('parse "\\t\\n1"', v_parse('\t\n1'), major=1, wellformed=0)
    add('parse bytes 0xff', v_parse('\xff\x80.\x01'), wellformed=0)
    add('compare 1.10 > 1.9', v_compare('1.10', '1.9'), cmp=1)
    add('compare 1.9 < 1.10', v_compare('1.9', '1.10'), cmp=-1)
    add('compare 2 == 2.0', v_compare('2', '2.0'), cmp=0)
    add('compare 10 > 9.9', v_compare('10', '9.9'), cmp=1)
    add('compare 0.9 < 1.0', v_compare('0.9', '1.0'), cmp=-1)
    add('compare 99999 > 9.999', v_compare('99999', '9.999'), cmp=1)
    add('candidates highest version wins', v_candidates([('1.9', 0), ('1.10', 5), ('1.2', 1)]), elected=1)
    add('candidates earliest directory among equals', v_candidates([('2.0', 3), ('2', 1), ('2.0', 2)]), elected=1)
    add('candidates all equal', v_candidates([('3', 7), ('3', 7), ('3.0', 7)]), elected=0)
    add('candidates negative index', v_candidates([('1', -1), ('1', 0), ('0.9', -5)]), elected=0)
    add('conflict: loaded, same version', v_conflict(1, 0, 0, '1.0'), got=1, conflict=0, lazy_status=0)
    add('conflict: loaded, other version', v_conflict(1, 0, 0, '1.1'), got=0, conflict=1)
    add('conflict: loaded, no version asked', v_conflict(1, 1, 1, None), got=1, conflict=0)
    add('conflict: lazy, allowed, same', v_conflict(0, 1, 1, '2.0'), got=2, lazy_status=1, conflict=0)
    add('conflict: lazy, allowed, other', v_conflict(0, 1, 1, '2'), got=0, lazy_status=1, conflict=2)
    add('conflict: lazy, not allowed', v_conflict(0, 1, 0, '2.0'), got=0, lazy_status=1, conflict=3)
    add('conflict: not registered', v_conflict(0, 0, 1, '1.0', use_default=1), got=0, lazy_status=0, conflict=3)
    add('conflict: prefix is not equal', v_conflict(1, 0, 0, '1.0', loaded_version='1.0.1'), got=0, conflict=1)
    add('conflict: no out pointers', v_conflict(1, 0, 0, '9', want_lazy=0, want_conflict=0), got=0, lazy_status=77, conflict=3)
    add('split A-1.0', v_split(['A-1.0']), ret=1, calls=1, **{'nslen[0]': 1, 'verlen[0]': 3})
    add('split A-B-1.0', v_split(['A-B-1.0']), ret=1, calls=1, **{'nslen[0]': 3, 'verlen[0]': 3})
    add('split -1', v_split(['-1']), calls=1, **{'nslen[0]': 0, 'verlen[0]': 1})
    add('split Gtk-3-', v_split(['Gtk-3-']), calls=1, **{'nslen[0]': 5, 'verlen[0]': 0})
    add('split two entries', v_split(['A-1', 'B-C-']), ret=1, calls=2, **{'nslen[1]': 3, 'verlen[1]': 0})
    add('split first require fails', v_split(['A-1', 'B-2'], ok=(0, 1)), ret=0, calls=1)
    add('split no dependencies', v_split([]), ret=1, calls=0)
    add('split: dependency namespace already loaded at the recorded version', v_split(['A-1.0'], loaded=1), ret=1, calls=1)
    add('split: dependency namespace loaded at another version', v_split(['A-1.0'], loaded=1, loaded_version='2.0'), ret=1, calls=1)
    add('split: dependency namespace lazily loaded', v_split(['A-B-2', 'C-1'], lazy=1, loaded_version='2'), ret=1, calls=2)
    return c, e


# ---------------------------------------------------------------------------

def partitions(tier):
    parts = []
    quick = tier == 'quick'
    for n in range(6):
        parts.append(Part('parse_version on arbitrary strings', dict(_base(0), len=n),
                          'every NUL-terminated string of 0..5 bytes (any non-NUL byte values), each in an object of '
                          'its own size: D+ / D+.D+ must be accepted with the numeric (major, minor), minor 0 when '
                          'absent; on every other string the function must return without reading outside the string'))
    for s0 in range(11):
        parts.append(Part('compare_version on two well-formed versions', dict(_base(1), **{'shape[0]': s0}),
                          'both strings of the form D+ or D+.D+, at most 5 bytes, every digit symbolic: result = sign of '
                          'the lexicographic comparison of (major, minor) as integers'))
    ml = 3 if quick else 5
    n = NSHAPES[ml]
    for s0 in range(n):
        for s1 in range(n):
            parts.append(Part('compare_candidate_reverse on three candidates',
                              dict(_base(2, ml), **{'shape[0]': s0, 'shape[1]': s1}),
                              'three candidates, versions D+ or D+.D+ of at most %d bytes with symbolic digits, path indices '
                              'any int: all 9 calls; r<0 iff higher version or same version and earlier directory, r==0 '
                              'iff same version and directory; irreflexive, antisymmetric, transitive (also on ties); the '
                              'minimum is the highest version from the earliest directory' % ml))
    for loaded in (0, 1):
        for lazy in (0, 1):
            parts.append(Part('get_registered_status / check_version_conflict',
                              dict(_base(3), loaded=loaded, lazy=lazy),
                              'namespace loaded / lazily loaded / neither (hash lookups stubbed), allow_lazy, requested '
                              'version NULL or any string of 0..5 bytes, registered versions any strings of 0..5 bytes, out '
                              'pointers NULL or not, default or given repository: same version or none requested => that '
                              'typelib and no conflict; different => NULL and the loaded version reported; lazy entries '
                              'only with allow_lazy; lazy_status as found'))
    for nd in range(3):
        parts.append(Part('load_dependencies_recurse: Namespace-version split', dict(_base(4), ndeps=nd),
                          'dependency string with 0, 1 (1..7 bytes) or 2 (1..4 bytes each) |-separated entries, any bytes '
                          'except NUL and |, at least one dash each, dashes anywhere before the last one; '
                          'the dependency namespaces not registered / loaded / lazily loaded at any 3-byte version (equal to the '
                          'recorded one or not); g_irepository_require stubbed as a recorder that may fail: every recorded entry is '
                          'required, in order, until the first failure - never skipped because something is registered - with '
                          'namespace = text before the LAST dash and the RECORDED version = text after it'))
    return parts


def _ver(inp, x):
    a, b = SHAPES[inp.get('shape[%d]' % x, 0)]
    t = ''.join(str(inp.get('d[%d]' % (x * 8 + i), 0)) for i in range(a))
    if b:
        t += '.' + ''.join(str(inp.get('d[%d]' % (x * 8 + a + 1 + i), 0)) for i in range(b))
    return t


def _str(inp, pre, n, base=0):
    return repr(bytes(inp.get('%s[%d]' % (pre, base + i), 0) & 255 for i in range(n)).decode('latin-1'))


def _s32(v):
    v &= 0xffffffff
    return v - (1 << 32) if v >> 31 else v


def describe(inp):
    """Readable form of a counterexample."""
    m = inp.get('mode')
    if m == 0:
        return 'parse_version(%s)' % _str(inp, 'c', inp.get('len', 0))
    if m == 1:
        return 'compare_version("%s", "%s")' % (_ver(inp, 0), _ver(inp, 1))
    if m == 2:
        return 'candidates ' + ', '.join('("%s", dir %d)' % (_ver(inp, i), _s32(inp.get('path_index[%d]' % i, 0)))
                                         for i in range(3))
    if m == 3:
        return ('get_registered_status(version=%s, allow_lazy=%d) with loaded=%d (version %s) lazy=%d (version %s)' % (
            _str(inp, 'v', inp.get('lenv', 0)) if inp.get('has_version') else 'NULL', inp.get('allow_lazy', 0),
            inp.get('loaded', 0), _str(inp, 'l', inp.get('len1', 0)), inp.get('lazy', 0), _str(inp, 'z', inp.get('len2', 0))))
    if m == 4:
        return 'dependencies %s with the dependency namespace %s (registered version %s)' % (
            ' | '.join(_str(inp, 'dep', inp.get('deplen[%d]' % n, 0) + 1, n * 8) for n in range(inp.get('ndeps', 0))),
            'loaded' if inp.get('loaded') else 'lazily loaded' if inp.get('lazy') else 'not registered',
            _str(inp, 'l', 3).replace('\\x00', ''))
    return str(inp)


def run(report, tier, seed, only=None):
    from vlib.llsym import build as lb, slice as sl
    t0 = time.time()
    report.encode('girepository/girepository.c', 'parse_version', 'compare_version', 'compare_candidate_reverse',
                  'check_version_conflict', 'get_repository', 'get_registered_status',
                  'get_typelib_dependencies', 'load_dependencies_recurse')
    report.assume(
        'functions copied verbatim from the current girepository.c by vlib/llsym/slice.py and compiled against /verif/shim',
        'strtol, strchr, strrchr, strlen, strcmp are the C models of harness/c/llsym_libc.h in the IR build and glibc in '
        'the native twin (compared on every concrete case)',
        'g_hash_table_lookup stubbed: two nondeterministic answers (loaded / lazily loaded); init_globals stubbed; '
        'g_strsplit (single-character delimiter), g_strndup, g_free, g_strfreev are C models; g_irepository_require is a recorder',
        'version strings are at most 5 bytes, so strtol overflow (components >= 2^31) is outside the bounds',
        'g_slist_sort and the selection of the list head are trusted (GLib); the election is checked as "a minimum of '
        'the order" on three candidates')
    try:
        built = build()
    except (lb.BuildError, sl.SliceError) as e:
        report.add(Item('build', runner.ENGINE, ERROR, detail='%s: %s' % (type(e).__name__, str(e)[-1500:])))
        return
    cases, expect = validation_cases()
    agree, problems, violated = runner.validate_concrete(built, cases, expect)
    if violated:
        report.notes.append('concrete cases on which the code under test misbehaves (%d): %s' % (
            len(violated), ' | '.join(violated)[:1500]))
    report.validation.update({'concrete_cases': len(cases), 'concrete_agreements': agree,
                              'concrete_cases_violating_the_property': len(violated),
                              'compared': 'native twin (gcc -O0, glibc string functions) == LLSYM concrete mode (C models) '
                                          'on every output; hand-written expected values on the named cases',
                              'cases': [n for n, _ in cases]})
    if problems:
        report.add(Item('translator-validation', runner.ENGINE, ERROR, bounds='%d concrete cases' % len(cases),
                        detail='; '.join(problems)[:1400]))
        return
    parts = partitions(tier)
    if only:
        parts = [p for p in parts if only in p.item]
    runner.run_parts(report, 'C17', built, parts, tier, seed, BUDGET[tier] - (time.time() - t0), describe=describe)


def replay(payload):
    return runner.replay_payload(build(), payload)
