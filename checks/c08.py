"""C08 — record and union layout stored in typelibs equals the platform C ABI (engine LLSYM).

The real girepository/giroffsets.c (+ girffi.c) is compiled to LLVM IR by clang and executed
symbolically by vlib.llsym over node graphs built by harness/c/h_c08.c from nondet integers;
the harness asserts the System V x86-64 layout rules, written a second time independently.

Stages of a run:
  1. build (IR + native twin) from the repository's current working tree;
  2. translator validation: >= 30 concrete member-kind vectors (tests/offsets/offsets.h
     re-expressed, boundary tables, seeded random vectors): native harness == LLSYM in
     concrete mode == gcc's sizeof/_Alignof/offsetof of the rendered declaration ==
     the harness's own oracle; any disagreement is an ERROR item;
  3. symbolic runs, one Item per (record kind, k, member class), split into sub-partitions
     (leading member kinds fixed) that run on up to 16 processes; every Item has a vacuity
     twin whose counterexample must replay natively;
  4. a counterexample is replayed: native harness on the model's inputs, declaration rendered
     to C, compiled by gcc; only if gcc confirms the mismatch is the Item REFUTED.
"""
import concurrent.futures
import os
import random
import subprocess
import time

from vlib import common
from vlib.common import CONFIRMED, ERROR, INCONCLUSIVE, REFUTED, Item

ENGINE = 'LLSYM'
HARNESS = 'h_c08'

# ---- mirrors of the harness constants (drift shows up in translator validation)
K_BASIC, K_POINTER, K_ENUM, K_ARRAY, K_NESTED, K_CBFIELD, K_CBMEMBER, K_UNRESOLVED, K_NONTYPE = range(9)
KIND_NAMES = ['basic', 'pointer', 'enum', 'array', 'nested', 'callback-field', 'callback-member',
              'unresolved', 'non-type']
TAGS = [1, 2, 3, 4, 5, 6, 7, 8, 9, 10, 11, 12, 21, 0, 13, 14, 17, 18, 19, 20]
N_SIZED = 13
STRUCT, BOXED, OBJECT, INTERFACE, UNION = 3, 4, 7, 8, 11
TOP_NAMES = {STRUCT: 'struct', BOXED: 'boxed', OBJECT: 'object', INTERFACE: 'interface', UNION: 'union'}
NTYPES = [STRUCT, UNION, BOXED, OBJECT, INTERFACE]
NMAX, ADIM, MAXK = 3, 3, 24
CTYPE = {1: 'int', 2: 'int8_t', 3: 'uint8_t', 4: 'int16_t', 5: 'uint16_t', 6: 'int32_t',
         7: 'uint32_t', 8: 'int64_t', 9: 'uint64_t', 10: 'float', 11: 'double',
         12: 'size_t', 21: 'uint32_t'}
KNOWN_KINDS = 0b001111111
ALL_KINDS = 0b111111111
FINDING_ENUM = 'enum-value-outside-32-bits'
BUDGET = {'quick': 165, 'thorough': 1380}     # seconds of wall clock for the whole run

FUNCS = [('girepository/giroffsets.c',
          ['compute_struct_field_offsets', 'compute_union_field_offsets', 'get_field_size_alignment',
           'get_type_size_alignment', 'get_interface_size_alignment', 'get_enum_size_alignment',
           'compute_enum_storage_type', '_g_ir_node_compute_offsets', 'check_needs_computation']),
         ('girepository/girffi.c', ['gi_type_tag_get_ffi_type', 'gi_type_tag_get_ffi_type_internal'])]


def NIDX(i, j):
    return 100 + i * NMAX + j


def _s(v, bits):
    v &= (1 << bits) - 1
    return v - (1 << bits) if v >> (bits - 1) else v


def cfg(**kw):
    d = dict(cfg_kinds=KNOWN_KINDS, cfg_twin=0, cfg_tags=0, cfg_enum=0, cfg_maxdims=1, cfg_aelem=3,
             cfg_unsized=0, cfg_ntypes=2, cfg_nm=2, cfg_nptr=0, cfg_need_unknown=0, cfg_after=0, cfg_azt=0)
    d.update(kw)
    return d


# ---------------------------------------------------------------------------
# member-kind vectors -> C declarations -> gcc

def _scalar(inp, skind, x):
    if skind == K_BASIC:
        tag = TAGS[inp['tagi[%d]' % x]]
        return {'k': 'basic', 'tag': tag, 'sized': tag in CTYPE}
    if skind == K_POINTER:
        return {'k': 'pointer', 'tag': inp['ptag[%d]' % x], 'sized': True}
    v0, v1 = _s(inp['ev0[%d]' % x], 64), _s(inp['ev1[%d]' % x], 64)
    lo, hi = min(v0, v1), max(v0, v1)
    fits = (lo >= 0 and hi <= 0xffffffff) or (lo >= -2 ** 31 and hi <= 2 ** 31 - 1)
    return {'k': 'enum', 'v': (v0, v1), 'flags': inp.get('eflags[%d]' % x, 0), 'sized': True,
            'wide': not fits}


def decode(inp):
    """Input assignment -> description of the record it denotes."""
    top, k = inp['top'], inp['k']
    members = []
    for i in range(k):
        kind = inp['kind[%d]' % i]
        if kind in (K_BASIC, K_POINTER, K_ENUM):
            m = _scalar(inp, kind, i)
        elif kind == K_ARRAY:
            nd = 1 + inp.get('adims[%d]' % i, 0) if inp['cfg_maxdims'] > 1 else 1
            has = inp.get('ahas[%d]' % i, 1) if inp['cfg_unsized'] else 1
            ek = inp.get('aelem[%d]' % i, 0) if inp['cfg_aelem'] > 1 else K_BASIC
            el = _scalar(inp, ek, i)
            m = {'k': 'array', 'dims': [_s(inp['alen[%d]' % (i * ADIM + d)], 32) for d in range(nd)],
                 'has': has, 'elem': el, 'sized': bool(has) and el['sized'], 'wide': el.get('wide', False)}
        elif kind == K_NESTED:
            nt = NTYPES[inp.get('ntype[%d]' % i, 0) if inp['cfg_ntypes'] > 1 else 0]
            nm = 1 + (inp.get('nm[%d]' % i, 0) if inp['cfg_nm'] > 1 else 0)
            sub = []
            for j in range(nm):
                nk = inp.get('nkind[%d]' % NIDX(i, j), 0) if inp['cfg_nptr'] else K_BASIC
                sub.append(_scalar(inp, nk, NIDX(i, j)))
            m = {'k': 'nested', 'ntype': nt, 'members': sub, 'sized': all(x['sized'] for x in sub)}
        elif kind in (K_CBFIELD, K_CBMEMBER):
            m = {'k': 'callback', 'sized': True}
        elif kind == K_UNRESOLVED:
            m = {'k': 'unresolved', 'sized': False}
        else:
            m = {'k': 'non-type', 'sized': False}
        m['kind'] = kind
        m['field'] = kind != K_CBMEMBER
        members.append(m)
    return {'top': top, 'union': top == UNION, 'members': members}


def _ival(v):
    return '(-9223372036854775807LL - 1)' if v == -2 ** 63 else '%dLL' % v


def _ctype(el, pre, name, pre_decls):
    if el['k'] == 'basic':
        return CTYPE[el['tag']]
    if el['k'] == 'pointer':
        return 'void *'
    pre_decls.append('enum %s_E%s { %s_E%s_A = %s, %s_E%s_B = %s };' % (
        pre, name, pre, name, _ival(el['v'][0]), pre, name, _ival(el['v'][1])))
    return 'enum %s_E%s' % (pre, name)


def render(desc, pre, n_members=None):
    """C text declaring the record (its first n_members members) + printf lines for its layout."""
    ms = desc['members'][:n_members]
    decls, body, prints = [], [], []
    tname = '%s %s_T' % ('union' if desc['union'] else 'struct', pre)
    for i, m in enumerate(ms):
        if m['k'] in ('basic', 'pointer', 'enum'):
            body.append('%s m%d;' % (_ctype(m, pre, str(i), decls), i))
        elif m['k'] == 'array':
            body.append('%s m%d%s;' % (_ctype(m['elem'], pre, str(i), decls), i,
                                       ''.join('[%d]' % d for d in m['dims'])))
        elif m['k'] == 'nested':
            nname = '%s %s_N%d' % ('union' if m['ntype'] == UNION else 'struct', pre, i)
            sub = ['%s a%d;' % (_ctype(x, pre, '%d_%d' % (i, j), decls), j)
                   for j, x in enumerate(m['members'])]
            decls.append('%s { %s };' % (nname, ' '.join(sub)))
            body.append('%s m%d;' % (nname, i))
            prints.append(('nsize[%d]' % i, 'sizeof(%s)' % nname))
            prints.append(('nalign[%d]' % i, '_Alignof(%s)' % nname))
            for j in range(len(m['members'])):
                prints.append(('noff[%d]' % NIDX(i, j), 'offsetof(%s, a%d)' % (nname, j)))
        else:
            body.append('void (*m%d)(void);' % i)
        if m['field']:
            prints.append(('off[%d]' % i, 'offsetof(%s, m%d)' % (tname, i)))
    decls.append('%s { %s };' % (tname, ' '.join(body)))
    prints = [('size', 'sizeof(%s)' % tname), ('align', '_Alignof(%s)' % tname)] + prints
    return decls, prints


def gcc_layouts(descs, work, tag='g'):
    """gcc's layout of every record in descs (the leading members of known size only):
    [ {key: value} ] with keys size, align, off[i], nsize[i], nalign[i], noff[x]."""
    lines = ['#include <stdio.h>', '#include <stddef.h>', '#include <stdint.h>']
    main = []
    for n, d in enumerate(descs):
        known = 0
        while known < len(d['members']) and d['members'][known]['sized']:
            known += 1
        if known == 0:
            continue
        decls, prints = render(d, 'c%d' % n, known)
        lines.append('/* case %d */' % n)
        lines.extend(decls)
        for key, expr in prints:
            main.append('  printf("%d %s %%ld\\n", (long) %s);' % (n, key, expr))
    lines.append('int main(void) {')
    lines.extend(main)
    lines.append('  return 0; }')
    src = os.path.join(work, 'layout_%s_%d.c' % (tag, os.getpid()))
    exe = src[:-2]
    with open(src, 'w') as f:
        f.write('\n'.join(lines) + '\n')
    p = subprocess.run(['gcc', '-O0', '-std=gnu99', '-w', src, '-o', exe], stdout=subprocess.PIPE,
                       stderr=subprocess.STDOUT, text=True)
    if p.returncode != 0:
        raise RuntimeError('gcc rejected the rendered declarations:\n%s\n%s' % (p.stdout[-1500:], '\n'.join(lines)[-1500:]))
    out = subprocess.run([exe], stdout=subprocess.PIPE, text=True, check=True).stdout
    res = [dict() for _ in descs]
    for line in out.split('\n'):
        w = line.split()
        if w:
            res[int(w[0])][w[1]] = int(w[2])
    return res, '\n'.join(lines)


def expected(desc, gcc):
    """What the typelib compiler must compute for this record, from gcc's layout of the members
    of known size and the property's clause about members of unknown size."""
    ms = desc['members']
    first_unknown = next((i for i, m in enumerate(ms) if not m['sized']), None)
    exp = {}
    if first_unknown is None:
        exp.update(gcc)
        return exp
    if ms[first_unknown]['k'] == 'unresolved':
        return {'fatal': 1}        # the compiler stops with an error: no typelib is written
    exp['size'] = exp['align'] = -1
    for i, m in enumerate(ms):
        if not m['field']:
            continue
        if desc['union']:
            exp['off[%d]' % i] = 0
        elif i >= first_unknown:
            exp['off[%d]' % i] = -1
        else:
            exp['off[%d]' % i] = gcc['off[%d]' % i]
    for k2, v in gcc.items():
        if k2.startswith('n'):
            exp[k2] = v
    return exp


def mismatches(real, exp):
    bad = []
    for k2, v in sorted(exp.items()):
        if real.get(k2) != v:
            bad.append('%s: giroffsets.c %s, expected %s' % (k2, real.get(k2), v))
    return bad


def describe(desc):
    out = []
    for m in desc['members']:
        if m['k'] == 'basic':
            out.append(CTYPE.get(m['tag'], 'tag%d(no size)' % m['tag']))
        elif m['k'] == 'pointer':
            out.append('pointer')
        elif m['k'] == 'enum':
            out.append('enum{%d,%d}' % m['v'])
        elif m['k'] == 'array':
            out.append('array%s of %s%s' % (''.join('[%d]' % d for d in m['dims']),
                                           describe({'members': [m['elem']]}), '' if m['has'] else ' (no fixed size)'))
        elif m['k'] == 'nested':
            out.append('%s{%s}' % (TOP_NAMES[m['ntype']], describe({'members': m['members']})))
        else:
            out.append(KIND_NAMES[m['kind']])
    return ', '.join(out)


# ---------------------------------------------------------------------------
# translator validation cases

class V(object):
    """Builder for a concrete input vector."""

    def __init__(self, top=STRUCT):
        self.inp = cfg(cfg_kinds=ALL_KINDS, cfg_tags=1, cfg_enum=2, cfg_maxdims=3, cfg_aelem=3,
                       cfg_unsized=1, cfg_ntypes=5, cfg_nm=3, cfg_nptr=1, cfg_azt=1, top=top, k=0)
        self.i = 0

    def _m(self, kind):
        i = self.i
        self.i += 1
        self.inp['k'] = self.i
        self.inp['kind[%d]' % i] = kind
        return i

    def _sc(self, x, spec):
        """spec: int tag | 'p' pointer | (v0, v1) enum -> scalar kind"""
        if spec == 'p':
            self.inp['ptag[%d]' % x] = x % 22
            return K_POINTER
        if isinstance(spec, tuple):
            self.inp['ev0[%d]' % x], self.inp['ev1[%d]' % x] = spec[0] & (2 ** 64 - 1), spec[1] & (2 ** 64 - 1)
            self.inp['eflags[%d]' % x] = (spec[0] ^ spec[1]) & 1
            return K_ENUM
        self.inp['tagi[%d]' % x] = TAGS.index(spec)
        return K_BASIC

    def s(self, *specs):
        for spec in specs:
            i = self._m(K_BASIC)
            self.inp['kind[%d]' % i] = self._sc(i, spec)
        return self

    def arr(self, spec, *dims, **kw):
        i = self._m(K_ARRAY)
        self.inp['adims[%d]' % i] = len(dims) - 1
        self.inp['ahas[%d]' % i] = kw.get('has', 1)
        for d, n in enumerate(dims):
            self.inp['alen[%d]' % (i * ADIM + d)] = n
            # flags without influence on a fixed-size array's layout (alternate them over the cases)
            self.inp['azt[%d]' % (i * ADIM + d)] = (n + d) & 1
        self.inp['aelem[%d]' % i] = self._sc(i, spec)
        return self

    def nest(self, ntype, *specs):
        i = self._m(K_NESTED)
        self.inp['ntype[%d]' % i] = NTYPES.index(ntype)
        self.inp['nm[%d]' % i] = len(specs) - 1
        for j, spec in enumerate(specs):
            self.inp['nkind[%d]' % NIDX(i, j)] = self._sc(NIDX(i, j), spec)
        return self

    def kind(self, kind):
        i = self._m(kind)
        if kind == K_NONTYPE:
            self.inp['xtype[%d]' % i] = i % 8
        return self


def validation_cases(seed):
    I8, U8, I16, I32, U32, I64, U64, F, D, GT, UC, B = 2, 3, 4, 6, 7, 8, 9, 10, 11, 12, 21, 1
    c = []
    # tests/offsets/offsets.h, re-expressed (char = gint8, gsize = guint64 here)
    c.append(('OffsetsBasic', V().s(I8, I8, I8, I16, I8, I32, I8, I64, I8, 'p', I8, F, I8, D, I8, U64, I8, U8, I8, U8, I8)))
    e = [(1, 1), (128, 128), (257, 257), (32768, 32768), (65536, 65536), (2147483648, 2147483648)]
    c.append(('OffsetsEnum', V().s(e[0], I8, e[1], I8, e[2], I8, e[3], I8, e[4], I8, e[5], I8)))
    c.append(('OffsetsNestee', V().s(I8, D, I8)))
    c.append(('OffsetsNesteeUnion', V(UNION).s(I8, D)))
    c.append(('OffsetsNested', V().s(I8).nest(STRUCT, I8, D, I8).s(I8).nest(UNION, I8, D).s(I8)))
    c.append(('OffsetsArray', V().arr(I32, 2).arr(I8, 3).arr(D, 4).arr((1, 1), 2).arr('p', 5)))
    c.append(('OffsetsMultiDimArray', V().arr(I32, 10, 2).arr(I8, 255, 10).arr(F, 11, 13, 17).arr('p', 3, 5)
              .arr('p', 7, 9).arr('p', 2, 3, 4).s(I8)))
    c.append(('OffsetsObj (GObject = {pointer, guint, pointer})', V(OBJECT).nest(OBJECT, 'p', U32, 'p').s('p')))
    # boundary table
    for t in sorted(CTYPE):
        c.append(('char + tag %d' % t, V().s(I8, t, I8)))
    for name, vals in [('enum 0..UINT_MAX', (0, 2 ** 32 - 1)), ('enum INT_MIN..INT_MAX', (-2 ** 31, 2 ** 31 - 1)),
                       ('enum -1..0', (-1, 0)), ('enum 0..0', (0, 0)), ('flags 1..2^31', (1, 2 ** 31))]:
        c.append((name, V().s(I8, vals, I8)))
        c.append((name + ' in union', V(UNION).s(I8, vals)))
    c.append(('callbacks', V().s(I8).kind(K_CBFIELD).s(I8).kind(K_CBMEMBER).s(I16)))
    c.append(('boxed of nested boxed/interface', V(BOXED).s(I8).nest(BOXED, I16, 'p').nest(INTERFACE, U8).s(I8)))
    c.append(('union of arrays and records', V(UNION).arr(I16, 7).nest(STRUCT, I8, I64).s(F).kind(K_CBFIELD)))
    c.append(('array max length', V().s(I8).arr(I64, 32768).s(I8)))
    c.append(('interface record', V(INTERFACE).s('p', I8).arr(U8, 3).s(D)))
    # members without size
    c.append(('void member', V().s(I32, 0, I8)))
    c.append(('utf8 by value', V().s(I8, 13, D)))
    c.append(('unsized array', V().s(I8).arr(I32, 4, has=0).s(I8)))
    c.append(('array of void', V().s(I16).arr(0, 4).s(I8)))
    c.append(('non-type interface', V().s(I8).kind(K_NONTYPE).s(I8)))
    c.append(('unresolved interface', V().s(I8).kind(K_UNRESOLVED).s(I8)))
    c.append(('nested record with void', V().s(I8).nest(STRUCT, I8, 0).s(I8)))
    c.append(('union with void', V(UNION).s(I8, 0, D)))
    c.append(('union with unsized array', V(UNION).s(I64).arr(I8, 3, has=0)))
    # seeded random vectors over every kind of known size
    rnd = random.Random(1000 + seed)
    sized = sorted(CTYPE)
    for n in range(14):
        v = V(rnd.choice([STRUCT, STRUCT, UNION, BOXED, OBJECT]))
        for _ in range(rnd.randint(1, 6)):
            r = rnd.randint(0, 6)
            sc = lambda: rnd.choice([rnd.choice(sized), rnd.choice(sized), 'p',
                                     (rnd.randint(-300, 70000), rnd.randint(0, 2 ** 32 - 1) if rnd.random() < .3 else rnd.randint(0, 300))])
            sc_fit = lambda: (lambda s: s if not isinstance(s, tuple) or min(s) >= 0 or max(s) < 2 ** 31 else (s[0], 5))(sc())
            if r <= 2:
                v.s(sc_fit())
            elif r == 3:
                v.arr(sc_fit(), *[rnd.randint(1, 9) for _ in range(rnd.randint(1, 3))])
            elif r == 4:
                v.nest(rnd.choice(NTYPES), *[rnd.choice([rnd.choice(sized), 'p']) for _ in range(rnd.randint(1, 3))])
            elif r == 5:
                v.kind(K_CBFIELD)
            elif v.inp['top'] != UNION:
                v.kind(K_CBMEMBER)
        if v.i:
            c.append(('random #%d' % n, v))
    return [(n, v.inp) for n, v in c]


def validate(built, report, seed):
    from vlib.llsym import exec as lx
    cases = validation_cases(seed)
    descs = [decode(inp) for _, inp in cases]
    gcc, _src = gcc_layouts(descs, built.work, 'val')
    mod = lx.load_module(built.ll)
    problems, agree, violated = [], 0, []
    for (name, inp), desc, g in zip(cases, descs, gcc):
        st, nat, _ev = built.run_native(inp, 'val')
        try:
            res = lx.Executor(mod, fixed=inp).run()
        except (lx.ExecError, lx.ir.IRError) as e:
            problems.append('%s: LLSYM concrete mode failed: %s' % (name, e))
            continue
        exp = expected(desc, g)
        # (a) translator: the two executions of the same harness must be indistinguishable,
        #     including a failing assertion (a defective giroffsets.c is not a translator fault)
        if st.startswith('assert:') or st.startswith('fail:'):
            same = len(res.failures) == 1 and res.failures[0].id == int(st.split(':')[1]) and \
                res.failures[0].outputs == nat and res.queries <= 1
            sym = res.failures[0].outputs if res.failures else {}
        elif st in ('done', 'exit'):
            same = res.paths == 1 and not res.failures and not res.queries and res.outputs[0] == nat
            sym = (res.outputs[0] if res.paths == 1 else None) or {}
        else:
            problems.append('%s: native harness ended with %s' % (name, st))
            continue
        if not same or res.inconclusive:
            diff = sorted(k2 for k2 in set(sym) | set(nat) if sym.get(k2) != nat.get(k2))
            problems.append('%s: LLSYM concrete mode != native (native %s; LLSYM paths=%d failures=%s queries=%d %s; '
                            'differing outputs: %s)' % (name, st, res.paths, [f.id for f in res.failures], res.queries,
                                                        res.inconclusive[:1], ', '.join(
                                                            '%s %s vs %s' % (k2, sym.get(k2), nat.get(k2)) for k2 in diff[:4])))
            continue
        # (b) the harness oracle against gcc (on what was output before a failing assertion)
        ora = {'size': nat.get('want_size'), 'align': nat.get('want_align')}
        for k2, v in nat.items():
            if k2.startswith('want_off['):
                ora[k2[5:]] = v
        obad = [] if 'fatal' in exp else mismatches(ora, dict((k2, v) for k2, v in exp.items() if k2 in ora))
        if obad:
            problems.append('%s: harness oracle != gcc: %s' % (name, '; '.join(obad[:3])))
            continue
        # (c) the code under test against gcc: a disagreement here is a violation seen on a fixed
        #     input, not a harness fault; the symbolic stage below has to find it as well
        bad = mismatches(nat, dict((k2, v) for k2, v in exp.items() if k2 in nat or st in ('done', 'exit')))
        if bad or st not in ('done', 'exit'):
            violated.append('%s: %s' % (name, '; '.join(bad[:3]) or st))
        else:
            agree += 1
    if violated:
        report.notes.append('concrete cases on which giroffsets.c disagrees with gcc (%d): %s' % (
            len(violated), ' | '.join(violated)[:1500]))
    report.validation.update({'concrete_cases': len(cases), 'concrete_agreements': agree,
                              'concrete_cases_violating_the_property': len(violated),
                              'compared': 'native harness (gcc -O0 + libffi) == LLSYM concrete mode == '
                                          'gcc sizeof/_Alignof/offsetof of the rendered declaration == harness oracle',
                              'cases': [n for n, _ in cases]})
    if problems:
        report.add(Item('translator-validation', ENGINE, ERROR, bounds='%d concrete cases' % len(cases),
                        detail='; '.join(problems)[:1400]))
    return not problems


# ---------------------------------------------------------------------------
# symbolic partitions

class Part(object):
    def __init__(self, item, fixed, bounds, expect=None):
        self.item, self.fixed, self.bounds, self.expect = item, fixed, bounds, expect


def _split(fixed, kinds, depth):
    """Sub-partitions with the kinds of the first `depth` members fixed."""
    out = [dict(fixed)]
    for d in range(min(depth, fixed['k'])):
        out = [dict(f, **{'kind[%d]' % d: kd}) for f in out for kd in kinds]
    return out


KNOWN_TXT = ('each member one of: any basic tag with a size (13 tags), pointer (any of the 22 tags), '
             'enum or flags with two 64-bit member values (storage fits int/unsigned int), fixed-size array '
             '(1 dimension, length 1..32768) of basic / pointer / enum, nested struct or union of 1-2 '
             'basic members, callback field%s')


def partitions(tier):
    parts = []
    quick = tier == 'quick'

    def kinds_of(mask):
        return [kd for kd in range(9) if mask >> kd & 1]

    def add(item, fixed, bounds, depth, kinds_mask, expect=None):
        for f in _split(fixed, kinds_of(kinds_mask), depth):
            parts.append(Part(item, f, bounds, expect))

    # (1) members of known size: struct and union, k = 1..kmax.  The largest k of a tier uses
    # the alphabet of the design (arrays of basic elements only); smaller k also arrays of
    # pointers and enums.
    kmax = 4 if quick else 5
    for top in (STRUCT, UNION):
        mask = KNOWN_KINDS & ~(1 << K_CBMEMBER) if top == UNION else KNOWN_KINDS
        for k in range(1, kmax + 1):
            c = cfg(cfg_kinds=mask, top=top, k=k)
            txt = KNOWN_TXT % ('' if top == UNION else ', callback member')
            if k <= 3:
                c.update(cfg_azt=1)
                txt += '; zero-terminated flag of arrays symbolic'
            if k == kmax:
                c.update(cfg_aelem=1)
                txt = txt.replace('of basic / pointer / enum', 'of basic')
            if k == 5:      # 10^5 paths with 1-2 nested members did not fit 25 minutes on a shared machine
                c.update(cfg_nm=1)
                txt = txt.replace('1-2 basic members', '1 basic member')
            add('%s k=%d members of known size' % (TOP_NAMES[top], k), c,
                '%s of exactly %d members; %s' % (TOP_NAMES[top], k, txt), 0 if k < 3 else 2 if k < 5 else 3, mask)
    # (2) a member of unknown size somewhere
    kmax_u = 3 if quick else 4
    for top in (STRUCT, UNION):
        mask = ALL_KINDS & ~(1 << K_CBMEMBER) if top == UNION else ALL_KINDS
        for k in range(1, kmax_u + 1):
            c = cfg(cfg_kinds=mask, cfg_tags=1, cfg_unsized=1, cfg_need_unknown=1, cfg_after=1, top=top, k=k)
            add('%s k=%d with a member of unknown size' % (TOP_NAMES[top], k), c,
                '%s of exactly %d members, at least one without size: void or a pointer-only tag by value, '
                'array without fixed size or of such elements, nested record with such a member, unresolved '
                'interface name, interface naming a non-type node; members before it as in the known-size '
                'items, members after it basic or callback member' % (TOP_NAMES[top], k),
                0 if k < 3 else 2, mask)
    # (3) other record kinds and the wider nested shapes
    for top in (BOXED, OBJECT, INTERFACE):
        for k in ((1, 2) if quick else (1, 2, 3)):
            c = cfg(top=top, k=k)
            add('%s k=%d members of known size' % (TOP_NAMES[top], k), c,
                '%s record of exactly %d members; %s' % (TOP_NAMES[top], k, KNOWN_TXT % ', callback member'),
                0 if k < 3 else 1, KNOWN_KINDS)
    for top in (STRUCT, UNION):
        for k in ((1, 2) if quick else (1, 2, 3)):
            nm = 3 if k == 1 or (k == 2 and not quick) else 2 if k == 2 else 1
            c = cfg(cfg_kinds=1 << K_NESTED | 1 << K_BASIC, cfg_ntypes=5, cfg_nm=nm, cfg_nptr=1, top=top, k=k)
            add('%s k=%d nested records of every kind' % (TOP_NAMES[top], k), c,
                '%s of exactly %d members, each basic or a nested struct / union / boxed / object / interface '
                'record of 1-%d members that are basic or pointer' % (TOP_NAMES[top], k, nm), 0 if k < 2 else 2,
                1 << K_NESTED | 1 << K_BASIC)
    # (4) enumerations that need 64-bit storage: kept apart (anticipated finding)
    for top, k in ((STRUCT, 1), (STRUCT, 2), (UNION, 1)):
        c = cfg(cfg_kinds=1 << K_ENUM | 1 << K_BASIC | 1 << K_ARRAY, cfg_enum=1, cfg_aelem=3, top=top, k=k)
        add('%s k=%d with an enum needing 64-bit storage' % (TOP_NAMES[top], k), c,
            '%s of exactly %d members (basic, enum, array of basic/pointer/enum), at least one enumeration '
            'whose two 64-bit member values fit neither int nor unsigned int' % (TOP_NAMES[top], k), 0,
            0, expect=FINDING_ENUM)
    return parts


def _run_part(args):
    from vlib.llsym import exec as lx
    ll, fixed, opts = args
    return lx.run_file(ll, fixed=fixed, **opts)


def confirm(built, inputs, tag='cex'):
    """Replay a counterexample outside the engine. -> (confirmed?, detail, payload)"""
    inp = dict((k2, int(v)) for k2, v in inputs.items())
    st, real, ev = built.run_native(inp, tag, keep_going=True)
    desc = decode(inp)
    gcc, src = gcc_layouts([desc], built.work, tag)
    exp = expected(desc, gcc[0])
    bad = mismatches(real, exp)
    payload = {'engine': ENGINE, 'harness': HARNESS, 'inputs': inp, 'record': describe(desc),
               'record_kind': TOP_NAMES[desc['top']], 'native_status': st, 'giroffsets': real,
               'expected': exp, 'mismatches': bad, 'declaration': src}
    wide = any(m.get('wide') for m in desc['members'])
    payload['wide_enum'] = wide
    if not st.startswith('assert:') and not st.startswith('fail:'):
        return False, 'counterexample does not replay: native harness ended with %s' % st, payload
    if not bad:
        return False, ('native harness hit %s but gcc agrees with giroffsets.c (harness oracle wrong?)' % st), payload
    return True, '%s {%s}: %s' % (TOP_NAMES[desc['top']], describe(desc), '; '.join(bad[:4])), payload


def run(report, tier, seed, only=None):
    from vlib.llsym import build as lb
    t_start = time.time()
    for f, names in FUNCS:
        report.encode(f, *names)
    report.assume(
        'platform: x86-64 System V, the C compiler is gcc; libffi type sizes/alignments read from the real libffi at check time',
        'GLib headers replaced by /verif/shim (types and macros only); g_list_prepend/g_list_delete_link, g_strdup_printf, '
        'g_free, _g_ir_find_node, _g_ir_module_fatal (ends the run: the real one exits) are C models in harness/c/h_c08.c',
        'clang -O1 -fno-inline lowering of giroffsets.c/girffi.c to LLVM IR is trusted; checked per run on concrete cases',
        'enumerations have two member values (minimum and maximum are what the kernel looks at)',
        'outside: bit-fields, long double, over-aligned types, arrays whose byte size overflows int, zero-length arrays, '
        'empty records, a <callback> placed directly in a union (g-ir-scanner never writes one)')
    try:
        built = lb.build(HARNESS, ffi=True)
    except lb.BuildError as e:
        report.add(Item('build', ENGINE, ERROR, detail=str(e)[-1500:]))
        return
    report.extra['libffi'] = built.ffi
    report.extra['repo'] = lb.repo()
    if not validate(built, report, seed):
        return
    parts = partitions(tier)
    if only:
        parts = [p for p in parts if only in p.item]
    budget = BUDGET[tier] - (time.time() - t_start)
    per_task = 110 if tier == 'quick' else 1100
    opts = dict(seed=seed, timeout=per_task, query_timeout_ms=60000 if tier == 'quick' else 300000)
    # tiny partitions first (they finish in seconds), then the largest k first for a short makespan
    rank = lambda i: (parts[i].fixed['k'] > 2, -parts[i].fixed['k'])
    order = list(range(len(parts)))
    if seed:
        random.Random(seed).shuffle(order)
    order.sort(key=rank)
    results = {}
    items = []
    for p in parts:
        if p.item not in items:
            items.append(p.item)
    workers = min(16, os.cpu_count() or 1)
    deadline = time.time() + budget
    with concurrent.futures.ProcessPoolExecutor(max_workers=workers) as pool:
        futs, twins = {}, {}
        for name in items:        # vacuity twins first: they stop at their first path
            p = next(p for p in parts if p.item == name)
            twins[pool.submit(_run_part, (built.ll, dict(p.fixed, cfg_twin=1), dict(opts, timeout=60)))] = name
        for i in order:
            futs[pool.submit(_run_part, (built.ll, parts[i].fixed, opts))] = i
        pending = set(futs) | set(twins)
        twin_res = {}
        while pending:
            done, pending = concurrent.futures.wait(pending, timeout=max(0.1, deadline - time.time()),
                                                    return_when=concurrent.futures.FIRST_COMPLETED)
            for fu in done:
                try:
                    r = fu.result()
                except Exception as e:
                    r = {'error': 'worker died: %r' % (e,)}
                if fu in futs:
                    results[futs[fu]] = r
                else:
                    twin_res[twins[fu]] = r
            if time.time() >= deadline and pending:
                for fu in pending:
                    fu.cancel()
                for proc in list(getattr(pool, '_processes', {}).values()):
                    proc.terminate()
                break
    for name in items:
        idx = [i for i, p in enumerate(parts) if p.item == name]
        report.add(_item(built, name, [parts[i] for i in idx], [results.get(i) for i in idx],
                         twin_res.get(name), tier))


def _item(built, name, ps, rs, twin, tier):
    bounds = ps[0].bounds + ' [%d sub-partition(s)]' % len(ps)
    done = [r for r in rs if r is not None and 'error' not in r]
    paths = sum(r['paths'] + r['failed_paths'] for r in done)
    queries = sum(r['queries'] for r in done)
    secs = round(sum(r['solver_seconds'] for r in done), 2)
    base = dict(bounds=bounds, paths=paths, queries=queries, seconds=secs,
                functions=sorted(set(f for r in done for f in r['functions'])))
    errs = [r['error'] for r in rs if r is not None and 'error' in r]
    if errs:
        return Item(name, ENGINE, ERROR, detail='executor: ' + errs[0][:1200], **base)
    # counterexamples first: each must replay against gcc
    fails = [(p, f) for p, r in zip(ps, done) for f in r['failures'] if f['id'] != 99]
    if fails:
        p, f = fails[0]
        ok, detail, payload = confirm(built, f['inputs'], 'cex%d' % os.getpid())
        payload['assertion_id'] = f['id']
        payload['item'] = name
        if not ok:
            return Item(name, ENGINE, ERROR, detail=detail, sample=payload['inputs'], **base)
        key = FINDING_ENUM if (p.expect == FINDING_ENUM and payload['wide_enum']) else 'layout-mismatch'
        path = common.write_replay('C08', name, payload)
        return Item(name, ENGINE, REFUTED, detail=detail + ' (%d counterexample(s) in %d sub-partition(s))' % (
            len(fails), len(set(id(p) for p, _ in fails))), sample={'record': payload['record'], 'mismatches': payload['mismatches'],
                                                                   'inputs': payload['inputs']},
                    replay=path, finding_key=key, **base)
    missing = sum(1 for r in rs if r is None)
    inc = [w for r in done for w in r['inconclusive']]
    if missing or inc:
        why = []
        if missing:
            why.append('%d of %d sub-partitions did not finish inside the tier budget' % (missing, len(rs)))
        why.extend(sorted(set(inc))[:3])
        return Item(name, ENGINE, INCONCLUSIVE, detail='; '.join(why)[:600], **base)
    # vacuity twin: the same harness with a false final assertion must be refuted, natively too
    if twin is None:
        return Item(name, ENGINE, INCONCLUSIVE, detail='vacuity twin did not finish inside the tier budget', **base)
    if 'error' in twin:
        return Item(name, ENGINE, ERROR, detail='vacuity twin did not run: %s' % twin['error'][:800], **base)
    tf = [f for f in twin['failures'] if f['id'] == 99]
    if not tf:
        return Item(name, ENGINE, ERROR, detail='vacuous: the twin (final assertion false) was not refuted', **base)
    st, _o, _e = built.run_native(tf[0]['inputs'], 'twin%d' % os.getpid())
    if st != 'assert:99':
        return Item(name, ENGINE, ERROR, detail='twin counterexample does not replay natively (%s)' % st, **base)
    pruned = sum(r['pruned'] for r in done)
    return Item(name, ENGINE, CONFIRMED,
                detail='all %d paths end with every assertion proved (%d more pruned by assumptions, %d cached '
                       'solver answers); twin refuted and replayed' % (paths, pruned, sum(r['cache_hits'] for r in done)),
                sample={'reachability_witness': tf[0]['inputs']}, **base)


def replay(payload):
    """Re-run the concrete side of a saved counterexample: native giroffsets.c vs gcc."""
    from vlib.llsym import build as lb
    built = lb.build(HARNESS, ffi=True)
    ok, detail, p2 = confirm(built, payload['inputs'], 'replay')
    print('record: %s {%s}' % (p2['record_kind'], p2['record']))
    print('native harness: %s' % p2['native_status'])
    for m in p2['mismatches']:
        print('  ' + m)
    print('reproduced' if ok else 'NOT reproduced: ' + detail)
    return 1 if ok else 0
