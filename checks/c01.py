"""C01 — parameter and return annotations are reflected exactly in the GIR."""
import sys

from vlib import ch, common

sys.path.insert(0, ch.HARNESS_DIR)

FUNCS = [('giscanner/maintransformer.py',
          ['MainTransformer.transform', '_pass_callable_defaults', '_apply_annotations_callable',
           '_apply_annotations_params', '_apply_annotations_param', '_apply_annotations_return',
           '_apply_annotations_param_ret_common', '_apply_transfer_annotation', '_is_pointer_type',
           '_adjust_container_type', '_apply_annotations_array', '_apply_annotations_element_type',
           '_check_array_element_type', '_resolve', '_resolve_toplevel',
           '_apply_annotations_param_callback', '_apply_annotations_param_closure',
           '_get_validate_parameter_name', '_pair_class_virtuals', '_pass3_callable_callbacks',
           '_pass3_callable_throws', '_get_transfer_default']),
         ('giscanner/transformer.py', ['Transformer.parse', '_create_function', '_create_parameter',
                                      '_create_callback', 'create_type_from_user_string', 'resolve_type']),
         ('giscanner/girwriter.py', ['GIRWriter._write_parameter', '_write_return_type', '_write_type',
                                    '_write_generic', '_write_attributes'])]

POS = ('return value', 'first parameter', 'last parameter')


def conditions(tier):
    import pipe
    import h_c01 as H
    quick = tier == 'quick'
    T = 240 if quick else 1500
    NT = pipe.N_TYPES
    conds = []
    cks = (0, 1, 2, 3)
    names = pipe.CALLABLE_KINDS
    for ck in cks:
        for pos in (0, 1, 2):
            conds.append(ch.Cond(
                'h_c01', 'transfer', [('tkind', 'int'), ('xfer', 'int'), ('direction', 'int'), ('with_array', 'bool')],
                pre=['0 <= tkind < %d' % NT, '1 <= xfer <= 4', '0 <= direction <= 5'],
                fixed=dict(ckind=ck, pos=pos), timeout=T, name='transfer[%s,%s]' % (names[ck], POS[pos]),
                bounds='(transfer none|full|container|floating) x direction (6) x with/without (array) on %d '
                       'type kinds' % NT))
            sym = [('tkind', 'int'), ('direction', 'int'), ('nullable', 'bool'), ('optional', 'bool'),
                   ('not_nullable', 'bool'), ('skip', 'bool')]
            for dname, dpre in (('none/out/inout', 'direction in (0, 2, 5)'),
                                ('in/out caller-/callee-allocates', 'direction in (1, 3, 4)')):
                conds.append(ch.Cond(
                    'h_c01', 'nullability', sym, pre=['0 <= tkind < %d' % NT, dpre],
                    fixed=dict(ckind=ck, pos=pos), timeout=T,
                    name='nullability[%s,%s,%s]' % (names[ck], POS[pos], dname),
                    bounds='direction (%s) x nullable x optional x not nullable x skip on %d type kinds'
                           % (dname, NT)))
            conds.append(ch.Cond(
                'h_c01', 'attributes', [('tkind', 'int'), ('n_attr', 'int'), ('with_value', 'bool'), ('skip', 'bool')],
                pre=['0 <= tkind < %d' % NT, '1 <= n_attr <= 2'], fixed=dict(ckind=ck, pos=pos), timeout=T,
                name='attributes[%s,%s]' % (names[ck], POS[pos]),
                bounds='(attributes k=v [k2=v2] | k) on %d type kinds' % NT))
    # arrays: large product; partition by callable kind x position x length option
    for ck in ((0, 3) if quick else cks):
        for pos in ((0, 1, 2) if (not quick or ck == 0) else (1,)):
            for length in (0, 1, 2):
                sym = [('tkind', 'int'), ('direction', 'int'), ('fixed', 'int'), ('zt', 'int'), ('elt', 'int')]
                pre = ['0 <= tkind < %d' % NT, '0 <= fixed <= 2', '0 <= zt <= 3',
                       '0 <= elt < %d' % len(H.ELT)]
                fixed = dict(ckind=ck, pos=pos, length=length)
                if quick:
                    pre += ['direction in (0, 2, 5)', 'elt <= 1', 'fixed <= 1']
                    fixed.update(ndir=0)
                else:
                    pre += ['direction in (0, 2, 3, 5)', 'elt in (0, 1, 3, 5)']
                    sym.append(('ndir', 'int'))
                    pre.append('0 <= ndir <= 1')
                conds.append(ch.Cond(
                    'h_c01', 'arrays', sym, pre=pre, fixed=fixed, timeout=T,
                    name='arrays[%s,%s,length=%s]' % (names[ck], POS[pos], ('-', 'n', 'm')[length]),
                    bounds='(array [length=sibling] [fixed-size=4|0] [zero-terminated[=0|1]]) x (element-type X) x '
                           'direction on every pointer type kind%s' % (
                               '' if quick else '; length parameter with its own direction annotation')))
    for ck in cks:
        for pos in (0, 1, 2):
            conds.append(ch.Cond(
                'h_c01', 'containers', [('tkind', 'int'), ('elt', 'int'), ('elt2', 'int'), ('type_override', 'int')],
                pre=['0 <= tkind < %d' % NT, '0 <= elt < %d' % len(H.ELT)] + (
                    ['elt2 in (0, 1)', 'type_override in (0, 1, 3)'] if quick else
                    ['0 <= elt2 < %d' % len(H.ELT), '0 <= type_override < %d' % len(H.ELT)]),
                fixed=dict(ckind=ck, pos=pos), timeout=T, name='containers[%s,%s]' % (names[ck], POS[pos]),
                bounds='(element-type X [Y]) and (type X) with X,Y in {utf8, gint, FooRec, GObject.Object, '
                       'FooBar.Thing} on %d type kinds' % NT))
    for ck in cks:
        for order in (0, 1, 2):
            conds.append(ch.Cond(
                'h_c01', 'callbacks', [('tkind', 'int'), ('scope', 'int'), ('closure', 'int'), ('destroy', 'int')],
                pre=['0 <= tkind < %d' % NT, '0 <= scope <= 4', '0 <= closure <= 4',
                     'destroy in (0, 3)' if quick else '0 <= destroy <= 4'],
                fixed=dict(ckind=ck, order=order), timeout=T, name='callbacks[%s,order=%d]' % (names[ck], order),
                bounds='(scope call|async|notified|forever) x (closure data|other|notify|n) x (destroy ...) on a '
                       'parameter of each of %d type kinds placed before/after/between its siblings' % NT))
    return conds


def run(report, tier, seed, only=None):
    ch.ensure_venv()
    for f, names in FUNCS:
        report.encode(f, *names)
    report.assume(
        'C lexer replaced by plain declaration records; comment blocks built as GtkDocCommentBlock objects',
        'oracle per annotation: valid at its site -> documented attribute value; not valid -> a warning is logged and '
        'the attribute equals the one emitted by the same scenario without that annotation; undecided by the '
        'statement (transfer/nullable on enum, va_list, by-value struct, unresolvable alias; closure/destroy naming '
        'a parameter of the wrong type; a length parameter with a conflicting direction annotation of its own; an '
        'explicit scope next to a destroy-notify sibling) -> nothing asserted',
        'one annotated value per callable (siblings carry at most a direction annotation); signals and properties '
        'are outside this check (C12 covers the dump path)',
        'MessageLogger replaced by a recorder; cache disabled; dump subprocess replaced by a fake tree')
    conds = conditions(tier)
    if only:
        conds = [c for c in conds if only in c.name]
    ch.run('C01', conds, report, seed=seed)


def replay(payload):
    rp = ch.replay(payload['module'], payload['fn'], payload['kwargs'])
    print(rp)
    return 1 if rp.get('ok') is False else 0
