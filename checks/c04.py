"""C04 — each public C symbol is described once, under the right name and owner."""
import sys

from vlib import ch, common

sys.path.insert(0, ch.HARNESS_DIR)

FUNCS = [('giscanner/transformer.py',
          ['Transformer.parse', '_append_new_node', '_split_c_string_for_namespace_matches', 'split_csymbol',
           'strip_identifier', '_strip_symbol', '_create_function', '_create_typedef', '_create_typedef_compound',
           '_create_tag_ns_compound', '_create_enum', '_create_const', '_create_callback']),
         ('giscanner/maintransformer.py',
          ['MainTransformer.transform', '_pair_function', '_is_method', '_setup_method', '_get_uscored_prefix',
           '_is_constructor', '_get_constructor_class', '_get_constructor_name', '_set_up_constructor',
           '_guess_constructor_by_name', '_pair_static_method', '_split_uscored_by_type']),
         ('giscanner/ast.py', ['Namespace.append', 'Namespace.float', 'Namespace.remove']),
         ('giscanner/utils.py', ['to_underscores_noprefix']),
         ('giscanner/girwriter.py', ['GIRWriter._write_namespace', '_write_class', '_write_record', '_write_function_common'])]

KEY_ANNOTATED_METHOD = 'annotated-method-keeps-type-prefix'


def _classify(kwargs, rp):
    res = rp.get('result', '')
    if kwargs.get('ann') == 1 and 'method foo_' in res and ' named ' in res:
        return KEY_ANNOTATED_METHOD
    return None


def conditions(tier):
    import h_c04 as H
    quick = tier == 'quick'
    T = 200 if quick else 1200
    conds = []
    nf, nr = len(H.FIRST), len(H.RET)
    for np_ in range(len(H.NAME_PREFIX)):
        for ann in (0, 2):
            conds.append(ch.Cond(
                'h_c04', 'pairing', [('verb', 'int'), ('first', 'int'), ('ret', 'int'), ('rec_typedef_first', 'bool')],
                pre=['0 <= verb < %d' % len(H.VERBS), '0 <= first < %d' % nf, '0 <= ret < %d' % nr],
                fixed=dict(np=np_, ann=ann), timeout=T,
                name='pairing[foo_%s_*,%s]' % (H.NAME_PREFIX[np_], H.ANN[ann] or 'no annotation'),
                bounds='function foo_%s_<verb>, verb in {%s}; first parameter in {%s}; return in {%s}; typedef '
                       'before/after the struct' % (H.NAME_PREFIX[np_], ', '.join(H.VERBS),
                                                    ', '.join(str(x) for x in H.FIRST), ', '.join(str(x) for x in H.RET)),
                finding_classifier=_classify))
        # (method): functions whose first parameter is the type whose prefix they carry keep that prefix in
        # their name (recorded finding): separate items
        carried = [i for i, t in enumerate(H.FIRST) if t in H.PREFIX and
                   (H.NAME_PREFIX[np_] + '_').startswith(H.PREFIX[t] + '_')]
        pre = ['0 <= verb < %d' % len(H.VERBS), '0 <= first < %d' % nf, '0 <= ret < %d' % nr]
        if carried:
            pre.append('first not in %r' % (tuple(carried),))
            conds.append(ch.Cond(
                'h_c04', 'pairing', [('verb', 'int'), ('first', 'int'), ('ret', 'int'), ('rec_typedef_first', 'bool')],
                pre=pre[:1] + ['first in %r' % (tuple(carried),)] + pre[2:3], fixed=dict(np=np_, ann=1), timeout=T,
                name='pairing[foo_%s_*,method,on a type whose prefix it carries]' % H.NAME_PREFIX[np_],
                bounds='(method) on a function that carries the prefix of its first parameter\'s type',
                finding_classifier=_classify))
        conds.append(ch.Cond(
            'h_c04', 'pairing', [('verb', 'int'), ('first', 'int'), ('ret', 'int'), ('rec_typedef_first', 'bool')],
            pre=pre, fixed=dict(np=np_, ann=1), timeout=T, name='pairing[foo_%s_*,method]' % H.NAME_PREFIX[np_],
            bounds='(method) annotation; first parameter other than the types whose prefix the name carries',
            finding_classifier=_classify))
    conds.append(ch.Cond('h_c04', 'declarations',
                         [('kind', 'int'), ('prefix', 'int'), ('order', 'int'), ('dup_typedef', 'bool')],
                         pre=['0 <= kind < %d' % len(H.KINDS), '0 <= prefix <= 4', '0 <= order <= 2'], timeout=T,
                         name='declarations',
                         bounds='struct/union/enum/callback/alias/constant/function x {namespace prefix, underscore, '
                                'included namespace prefix, unknown prefix, second namespace prefix} x typedef '
                                'before/after/anonymous x second typedef of the same struct'))
    conds.append(ch.Cond('h_c04', 'prefixes',
                         [('which', 'int'), ('pset', 'int'), ('inc', 'int'), ('item', 'int'), ('accept_unprefixed', 'bool')],
                         pre=['0 <= which <= 1', '0 <= pset <= 4', '0 <= inc <= 2', '0 <= item <= 12'], timeout=T,
                         name='prefixes',
                         bounds='identifier prefix sets %r x include prefix %r x identifiers %r; symbol prefix sets %r '
                                'x include %r x symbols %r; accept-unprefixed on/off'
                                % (H.ID_PREFIX_SETS, H.INC_PREFIXES, H.IDENTS, H.SYM_PREFIX_SETS, H.INC_SYM_PREFIXES,
                                   H.SYMBOLS)))
    return conds


def run(report, tier, seed, only=None):
    ch.ensure_venv()
    for f, names in FUNCS:
        report.encode(f, *names)
    report.assume(
        'C lexer replaced by plain declaration records; dump subprocess replaced by a fake tree',
        'names are built from chosen words (types Text, TextBuffer, TextView, Rec, Boxed; verbs new, new_with_x, newv, '
        'get_x, free, renew, news); arbitrary identifier strings are outside the bounds (CrossHair on symbolic '
        'strings through strip_identifier/_strip_symbol did not terminate within minutes even for 3-character '
        'strings, see DESIGN)',
        'types spelled with a leading underscore are not asserted to be left out (the statement is read as speaking '
        'of functions and constants)',
        'identifier/symbol filter commands (subprocess) are outside the claim')
    conds = conditions(tier)
    if only:
        conds = [c for c in conds if only in c.name]
    ch.run('C04', conds, report, seed=seed)


def replay(payload):
    rp = ch.replay(payload['module'], payload['fn'], payload['kwargs'])
    print(rp)
    return 1 if rp.get('ok') is False else 0
