"""C16 — scanner output is deterministic and independent of irrelevant order."""
import os
import subprocess
import sys

from vlib import ch, common
from vlib.common import Item

sys.path.insert(0, ch.HARNESS_DIR)

FUNCS = [('giscanner/girwriter.py', ['GIRWriter._write_repository', '_write_namespace', '_write_class', '_write_record',
                                    '_write_generic (source-position)']),
         ('giscanner/ast.py', ['Namespace.append/names', 'Node.get_main_position', 'Node.inherit_file_positions']),
         ('giscanner/transformer.py', ['Transformer.parse', '_tag_ns', '_create_typedef_compound', '_create_tag_ns_compound']),
         ('giscanner/maintransformer.py', ['MainTransformer.transform', '_add_standalone_doc_sections',
                                          '_pass_read_annotations (SECTION pop)', '_apply_annotations_params']),
         ('giscanner/gdumpparser.py', ['GDumpParser.parse'])]


def conditions(tier):
    quick = tier == 'quick'
    T = 200 if quick else 900
    conds = [ch.Cond('h_c16', 'set_order', [('order', 'int')], pre=['0 <= order <= 119'], timeout=T, name='set iteration order',
                     bounds='every set created by giscanner.ast/transformer/maintransformer/girparser/gdumpparser/'
                            'introspectablepass/girwriter iterates in the k-th permutation of its elements, k < 120 '
                            '(all permutations of sets of up to 5 elements; the scenario has sets of 2-4)')]
    for dp in ((0, 5, 23) if quick else range(24)):
        conds.append(ch.Cond('h_c16', 'block_order', [('perm', 'int')], pre=['0 <= perm <= 719'], fixed=dict(dump_perm=dp),
                             timeout=T, name='comment-block order[dump order %d]' % dp,
                             bounds='all 720 orders of 6 comment blocks (function, class, its SECTION, two standalone '
                                    'SECTIONs, a property) from 3 files; dump children in permutation %d' % dp))
    for rot in ((0, 5, 11) if quick else range(17)):
        conds.append(ch.Cond('h_c16', 'decl_order', [('a', 'int'), ('b', 'int'), ('rev', 'bool')],
                             pre=['0 <= a <= 16', '0 <= b <= 16'], fixed=dict(rot=rot), timeout=T,
                             name='declaration order[rotation %d]' % rot,
                             bounds='17 groups of declarations (typedefs - one struct has two typedef names - and struct/union bodies of three compounds and a '
                                    'class in separate groups, functions, enum, constants, alias, callback) with any two '
                                    'groups swapped, rotated by %d and optionally reversed' % rot))
    conds.append(ch.Cond('h_c16', 'sibling_order',
                         [('n1', 'int'), ('n2', 'int'), ('n3', 'int'), ('k1', 'int'), ('k2', 'int'), ('k3', 'int')],
                         pre=['0 <= n1 <= 3', '0 <= n2 <= 3', '0 <= n3 <= 3', '0 <= k1 <= 3', '0 <= k2 <= 3', '0 <= k3 <= 3'],
                         timeout=T, name='sibling order',
                         bounds='three toplevel nodes with names from {Alpha, Beta, Gamma, alpha} and kinds from {alias, '
                                'record, enumeration, function}: aliases first, then by name'))
    conds.append(ch.Cond('h_c16', 'cache_history', [('f1', 'int'), ('f2', 'int'), ('f3', 'int'), ('age', 'int')],
                         pre=['0 <= f1 <= 2', '0 <= f2 <= 2', '0 <= f3 <= 2', '0 <= age <= 5'], timeout=T,
                         name='cold vs warm cache',
                         bounds='every history of three scans over three dependency files of the same name in different '
                                'directories with different contents, all orders of their time stamps, one shared cache '
                                'directory (real CacheStore, pickle and GIRParser on the real file system): each scan sees what '
                                'a cold parse of its file gives'))
    return conds


def _hash_seeds(report):
    """The same scenario in fresh interpreters with different PYTHONHASHSEED values (concrete)."""
    code = ("import sys; sys.path.insert(0, %r); sys.path.insert(0, %r); import h_c16, hashlib; "
            "x, e = h_c16._baseline(); print('@@' + hashlib.sha256(x).hexdigest())" % (common.VERIF, ch.HARNESS_DIR))
    digests = {}
    for seed in ('0', '1', '2', '12345', 'random'):
        p = subprocess.run([common.REPO_PY, '-c', code], capture_output=True, text=True, timeout=120,
                           env=dict(os.environ, PYTHONHASHSEED=seed))
        k = p.stdout.rfind('@@')
        digests[seed] = p.stdout[k + 2:].strip() if k >= 0 else 'error: ' + p.stderr[-200:]
    report.validation['output_digest_by_PYTHONHASHSEED'] = digests
    same = len(set(digests.values())) == 1 and not any(v.startswith('error') for v in digests.values())
    report.validation['concrete_agreements'] = len(digests) if same else 0
    refuted = any(i.verdict == common.REFUTED for i in report.items)
    if not same and refuted:
        report.notes.append('different PYTHONHASHSEED values give different bytes (consistent with the violation found): %r'
                            % (digests,))
    elif not same:
        report.add(Item('hash seeds (concrete)', 'CH', common.ERROR,
                        detail='the scenario emits different bytes under different PYTHONHASHSEED values although the '
                               'set-order exploration found no dependence: %r' % (digests,)))


def run(report, tier, seed, only=None):
    ch.ensure_venv()
    for f, names in FUNCS:
        report.encode(f, *names)
    report.assume(
        'the interpreter hash seed reaches the scanner only through the iteration order of sets (dicts keep insertion '
        'order): the name `set` is shadowed in the scanner modules by a set whose iteration order is a chosen '
        'permutation; set displays {a, b} and sets created inside library code are not covered',
        'cold/warm cache: histories of three scans over three same-named dependency files through the real CacheStore '
        'and pickle on the real file system (C18 covers freshness under concurrency)',
        'C lexer replaced by declaration records carrying their own file/line, dump subprocess by a fake tree')
    conds = conditions(tier)
    if only:
        conds = [c for c in conds if only in c.name]
    ch.run('C16', conds, report, seed=seed)
    _hash_seeds(report)


def replay(payload):
    rp = ch.replay(payload['module'], payload['fn'], payload['kwargs'])
    print(rp)
    return 1 if rp.get('ok') is False else 0
