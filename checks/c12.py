"""C12 — runtime GObject type data is merged faithfully into the GIR."""
import sys

from vlib import ch, common

sys.path.insert(0, ch.HARNESS_DIR)

FUNCS = [('giscanner/gdumpparser.py',
          ['GDumpParser.init_parse', 'GDumpParser.parse', '_initparse_function', '_initparse_get_type_function',
           '_initparse_error_quark_function', '_introspect_type', '_introspect_enum', '_introspect_object',
           '_introspect_interface', '_introspect_boxed', '_introspect_properties', '_introspect_signals',
           '_introspect_implemented_interfaces', '_parse_parents', '_split_type_and_symbol_prefix',
           '_add_record_fields', '_introspect_error_quark', '_pair_boxed_type', '_find_class_record']),
         ('giscanner/ast.py', ['Type.create_from_gtype_name']),
         ('giscanner/maintransformer.py', ['MainTransformer.transform', '_pass_type_resolution',
                                          '_resolve_and_filter_type_list', '_pair_class_virtuals',
                                          '_pair_quarks_with_enums']),
         ('giscanner/girwriter.py', ['GIRWriter._write_class', '_write_property', '_write_signal', '_write_record',
                                    '_write_union', '_write_boxed', '_write_enum'])]


def conditions(tier):
    import h_c12 as H
    quick = tier == 'quick'
    T = 200 if quick else 1500
    NG = H.N_GT
    conds = []
    # property flag words
    if quick:
        for lo in range(0, 4096, 1024):
            conds.append(ch.Cond('h_c12', 'property_flags', [('flags', 'int'), ('on_interface', 'bool'), ('high', 'int')],
                                 pre=['%d <= flags < %d' % (lo, lo + 1024), 'high in (0, 2)'],
                                 fixed=dict(ptype=0, has_default=False), timeout=T,
                                 name='property_flags[%d..%d]' % (lo, lo + 1023),
                                 bounds='every flag word in the range plus one of the high parts {0, -2^31} '
                                        '(negative words: gdump.c prints %d), on a class and on an interface'))
        conds.append(ch.Cond('h_c12', 'property_flags', [('flags', 'int'), ('high', 'int'), ('on_interface', 'bool')],
                             pre=['0 <= flags <= 63', '0 <= high < %d' % len(H.HIGH)],
                             fixed=dict(ptype=0, has_default=False), timeout=T, name='property_flags[high parts]',
                             bounds='flag words 0..63 combined with every high part'))
        conds.append(ch.Cond('h_c12', 'property_flags',
                             [('flags', 'int'), ('ptype', 'int'), ('has_default', 'bool'), ('on_interface', 'bool')],
                             pre=['0 <= flags <= 15', '0 <= ptype < %d' % NG], timeout=T,
                             name='property_types', bounds='flag words 0..15 x GType in {%s} x default value'
                             % ', '.join(H.GTYPES)))
    else:
        for pt in range(NG):
            full = pt in (0, 3, 7, 9)
            for oi in (False, True):
                conds.append(ch.Cond('h_c12', 'property_flags', [('flags', 'int'), ('has_default', 'bool'), ('high', 'int')],
                                     pre=['0 <= flags <= %d' % (4095 if full else 63),
                                          'high in (0, 2)' if full else '0 <= high < %d' % len(H.HIGH)],
                                     fixed=dict(ptype=pt, on_interface=oi), timeout=T,
                                     name='property_flags[%s,%s]' % (H.GTYPES[pt], 'interface' if oi else 'class'),
                                     bounds='flag words 0..%d x high parts x default value, property GType %s'
                                     % (4095 if full else 63, H.GTYPES[pt])))
    # signals
    flags4 = [('no_recurse', 'bool'), ('detailed', 'bool'), ('action', 'bool'), ('no_hooks', 'bool')]
    conds.append(ch.Cond('h_c12', 'signals', [('when', 'int')] + flags4 + [('rtype', 'int')],
                         pre=['0 <= when <= 3', '0 <= rtype <= %d' % NG], fixed=dict(n_params=0, p0=0, p1=0),
                         timeout=T, name='signals[phase,flags,return]',
                         bounds='run phase (4) x 4 boolean flags x return GType in {void, %s}' % ', '.join(H.GTYPES)))
    for np_ in (1, 2):
        sym = [('p0', 'int'), ('p1', 'int'), ('rtype', 'int')]
        pre = ['0 <= p0 < %d' % NG, '0 <= p1 < %d' % NG]
        pre.append('rtype in (0, %d)' % NG if quick else '0 <= rtype <= %d' % NG)
        if np_ == 1:
            pre[1] = 'p1 == 0'
        conds.append(ch.Cond('h_c12', 'signals', sym, pre=pre,
                             fixed=dict(when=2, no_recurse=False, detailed=True, action=False, no_hooks=False,
                                        n_params=np_), timeout=T, name='signals[%d parameter types]' % np_,
                             bounds='%d signal parameters, each GType in {%s}' % (np_, ', '.join(H.GTYPES))))
    conds.append(ch.Cond('h_c12', 'parents',
                         [('n', 'int'), ('k1', 'int'), ('k2', 'int'), ('k3', 'int'), ('abstract', 'bool'), ('final', 'bool')],
                         pre=['0 <= n <= 3', '0 <= k1 <= 2', '0 <= k2 <= 2', '0 <= k3 <= 2'], timeout=T,
                         name='parents', bounds='0-3 reported ancestors before GObject, each hidden / a class of this '
                                                'namespace / GInitiallyUnowned; abstract, final'))
    conds.append(ch.Cond('h_c12', 'interfaces',
                         [('i0', 'bool'), ('i1', 'bool'), ('i2', 'bool'), ('i3', 'bool'), ('on_interface', 'bool'),
                          ('suffix', 'int')], pre=['0 <= suffix <= 2'], timeout=T, name='interfaces',
                         bounds='every subset of {known local, hidden, known foreign, second local} interfaces as '
                                'implements / prerequisites; interface structure named *Iface, *Interface or absent'))
    conds.append(ch.Cond('h_c12', 'pairing',
                         [('boxed_kind', 'int'), ('with_class_struct', 'bool'), ('vf_first', 'int'), ('vf2_first', 'int'),
                          ('quark', 'int'), ('enum_registered', 'bool'), ('ename', 'int')],
                         pre=['0 <= boxed_kind <= 3', '0 <= vf_first <= 3', '0 <= vf2_first <= 3', '0 <= quark <= 3',
                              '0 <= ename <= 2'],
                         timeout=T, name='pairing',
                         bounds='boxed type vs struct/union/nothing of the same name; class structure present or not; two '
                                'function-pointer slots whose first parameter is the instance / another record / int / '
                                'none; error-quark function matching, not matching, not returning GQuark, absent; '
                                'error enum (FooSomeError, FooDBusError, FooIOChannelError) registered or not'))
    return conds


def run(report, tier, seed, only=None):
    ch.ensure_venv()
    for f, names in FUNCS:
        report.encode(f, *names)
    report.assume(
        'the dump subprocess (girepository/gdump.c + the scanned library) is replaced by a fake element tree in the '
        'format gdump.c writes; GDumpParser._execute_binary_get_tree is the only stubbed method',
        'C lexer replaced by plain declaration records; GLib/GObject/Gio are namespace fragments',
        'flag words: every low 12-bit pattern combined with six high parts incl. negative words',
        'MessageLogger replaced by a recorder; cache disabled')
    conds = conditions(tier)
    if only:
        conds = [c for c in conds if only in c.name]
    ch.run('C12', conds, report, seed=seed)


def replay(payload):
    rp = ch.replay(payload['module'], payload['fn'], payload['kwargs'])
    print(rp)
    return 1 if rp.get('ok') is False else 0
