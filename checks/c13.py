"""C13 — enumeration members and constants keep correct names, types, values."""
import sys

from vlib import ch, common

sys.path.insert(0, ch.HARNESS_DIR)

FUNCS = [('giscanner/transformer.py', ['Transformer.parse', 'Transformer._create_const',
                                      'Transformer._create_enum',
                                      'Transformer._enum_common_prefix',
                                      'Transformer._create_type_from_base',
                                      'Transformer._resolve_type_from_ctype',
                                      'Transformer.resolve_aliases',
                                      'Transformer._strip_symbol']),
         ('giscanner/maintransformer.py', ['MainTransformer.transform']),
         ('giscanner/girwriter.py', ['GIRWriter._write_constant', 'GIRWriter._write_enum',
                                    'GIRWriter._write_bitfield', 'GIRWriter._write_member'])]


def _classify_const(kwargs, rp):
    import h_c13 as H
    idx = kwargs.get('spelling_idx', -1)
    if idx < 0:
        return None
    sp = H.INT_SPELLINGS[idx]
    cls = H.spelling_class(sp)
    fund = H.ast.type_names[sp].target_fundamental
    res = rp.get('result', '')
    if cls == 'platform-unsigned' and 'negative value' in res:
        return 'const-platform-width-unsigned-negative'
    if cls == 'fixed-unsigned' and kwargs.get('chain') == 2 and \
            ('outside range' in res or 'not congruent' in res):
        return 'const-alias-of-alias-not-wrapped'
    if fund == 'guint8' and 'outside range' in res:
        return 'const-uint8-wrapped-mod-2^16'
    return None


def _classify_enum(kwargs, rp):
    import h_c13 as H
    pool = H.POOLS[kwargs['pool']]
    n = kwargs['n']
    idents = [pool[kwargs['i%d' % k]] for k in range(n)]
    if H._shared_words(idents) == 0 and 'name of' in rp.get('result', ''):
        return 'enum-no-shared-word-loses-first-char'
    return None


def conditions(tier):
    import h_c13 as H
    conds = []
    # constants: one condition per (type class, alias chain); value unbounded
    groups = {}
    for i, sp in enumerate(H.INT_SPELLINGS):
        cls = H.spelling_class(sp)
        fund = H.ast.type_names[sp].target_fundamental
        key = fund if cls == 'fixed-unsigned' else cls
        groups.setdefault(key, []).append(i)
    for key, idxs in sorted(groups.items()):
        chunks = [idxs[i:i + 12] for i in range(0, len(idxs), 12)]
        for ci, chunk in enumerate(chunks):
            # platform-width unsigned types: negative values are a recorded finding;
            # keep them in a condition of their own so they cannot mask anything else
            ranges = [('', 'every integer')]
            if key == 'platform-unsigned':
                ranges = [('v >= 0', 'every integer >= 0'), ('v < 0', 'every integer < 0')]
            for chain in (0, 1, 2):
                for vpre, vtext in ranges:
                    conds.append(ch.Cond(
                        'h_c13', 'const_int', [('spelling_idx', 'int'), ('v', 'int')],
                        pre=['spelling_idx in %r' % (tuple(chunk),)] + ([vpre] if vpre else []),
                        fixed={'chain': chain},
                        timeout=200 if tier == 'quick' else 400,
                        name='const_int[%s#%d,chain=%d%s]' % (key, ci, chain, (',' + vpre) if vpre else ''),
                        bounds='declared type in {%s} via %d typedef aliases; value: %s'
                        % (', '.join(H.INT_SPELLINGS[i] for i in chunk), chain, vtext),
                        finding_classifier=_classify_const))
    conds.append(ch.Cond('h_c13', 'const_int', [('v', 'int')], fixed={'spelling_idx': -1, 'chain': 0},
                         timeout=200, name='const_int[untyped]',
                         bounds='no declared type; value: every integer'))
    slen = 2 if tier == 'quick' else 4
    conds.append(ch.Cond('h_c13', 'const_other', [('kind', 'int'), ('s', 'str'), ('b', 'bool')],
                         pre=['0 <= kind <= 3', 'len(s) <= %d' % slen],
                         timeout=200 if tier == 'quick' else 400, name='const_other',
                         bounds='string constants |s|<=%d any code points, booleans, private/non-header' % slen))
    # enumerations
    vals = [('v0', 'int'), ('v1', 'int'), ('v2', 'int'), ('v3', 'int')]
    fixed_unused = {'i2': 0, 'i3': 0, 'p2': False, 'p3': False}
    # two members, identifiers of 2..3 words over {FOO,BAR,A}
    step = 4 if tier == 'quick' else 1
    for i0 in range(0, len(H.IDENTS3), step):
        conds.append(ch.Cond(
            'h_c13', 'enum_members',
            [('i1', 'int')] + vals + [('p0', 'bool'), ('p1', 'bool'), ('bitfield', 'bool'), ('typedef', 'bool')],
            pre=['0 <= i1 < %d' % len(H.IDENTS3)],
            fixed=dict(fixed_unused, pool=3, n=2, i0=i0),
            timeout=260 if tier == 'quick' else 900,
            name='enum[2 members, first=%s]' % H.IDENTS3[i0],
            bounds='2 members; identifiers of 2-3 words over {FOO,BAR,A}; values: every integer; '
                   'private flags, bitfield, typedef/tag form symbolic',
            finding_classifier=_classify_enum))
    # a member with a (skip) comment block of its own is still listed
    for sk in (0, 1):
        conds.append(ch.Cond(
            'h_c13', 'enum_members',
            [('i0', 'int'), ('i1', 'int')] + vals + [('bitfield', 'bool')],
            pre=['0 <= i0 < %d' % len(H.IDENTS2), '0 <= i1 < %d' % len(H.IDENTS2)],
            fixed=dict(fixed_unused, pool=2, n=2, p0=False, p1=False, typedef=True, skip_member=sk),
            timeout=260 if tier == 'quick' else 900, name='enum[2 members, member %d has a (skip) block]' % sk,
            bounds='2 members with 2-word identifiers over {FOO,BAR,BAZ,A}; one member documented by a block with (skip); '
                   'values: every integer', finding_classifier=_classify_enum))
    # three members, identifiers FOO_<1..2 words over {FOO,BAR,A}> (shared prefixes of 1 and 2 words)
    nF = len(H.IDENTSF)
    for i0 in range(nF):
        sym = [('i1', 'int'), ('i2', 'int')] + vals + [('bitfield', 'bool')]
        fixed = dict(pool=4, n=3, i0=i0, i3=0, p3=False, typedef=True)
        if tier == 'quick':
            fixed.update(p0=False, p1=False, p2=False)
        else:
            sym += [('p0', 'bool'), ('p1', 'bool'), ('p2', 'bool')]
        conds.append(ch.Cond(
            'h_c13', 'enum_members', sym,
            pre=['0 <= i1 < %d' % nF, '0 <= i2 < %d' % nF],
            fixed=fixed, timeout=260 if tier == 'quick' else 1200,
            name='enum[3 members, first=%s]' % H.IDENTSF[i0],
            bounds='3 members; identifiers FOO_<1-2 words over {FOO,BAR,A}>; values: every integer',
            finding_classifier=_classify_enum))
    if tier == 'thorough':
        # three members with two namespace prefixes (no-shared-word cases), 2-word identifiers
        for i0 in range(len(H.IDENTS2)):
            conds.append(ch.Cond(
                'h_c13', 'enum_members',
                [('i1', 'int'), ('i2', 'int')] + vals + [('bitfield', 'bool'), ('p0', 'bool'), ('p1', 'bool'), ('p2', 'bool')],
                pre=['0 <= i1 < %d' % len(H.IDENTS2), '0 <= i2 < %d' % len(H.IDENTS2)],
                fixed=dict(pool=2, n=3, i0=i0, i3=0, p3=False, typedef=True), timeout=1200,
                name='enum[3 members/2 prefixes, first=%s]' % H.IDENTS2[i0],
                bounds='3 members; identifiers of 2 words over {FOO,BAR,BAZ,A}; values: every integer',
                finding_classifier=_classify_enum))
        for i0 in range(nF):
            conds.append(ch.Cond(
                'h_c13', 'enum_members',
                [('i1', 'int'), ('i2', 'int'), ('i3', 'int')] + vals + [('bitfield', 'bool')],
                pre=['0 <= i1 < %d' % nF, '0 <= i2 < %d' % nF, '0 <= i3 < %d' % nF],
                fixed=dict(pool=4, n=4, i0=i0, p0=False, p1=False, p2=False, p3=False, typedef=True),
                timeout=2400, name='enum[4 members, first=%s]' % H.IDENTSF[i0],
                bounds='4 members; identifiers FOO_<1-2 words over {FOO,BAR,A}>; values: every integer',
                finding_classifier=_classify_enum))
    return conds


def run(report, tier, seed, only=None):
    ch.ensure_venv()
    for f, names in FUNCS:
        report.encode(f, *names)
    report.assume(
        'C lexer (giscanner._giscanner) replaced by plain records fed to the real SourceSymbol/SourceType wrappers',
        'str(int) in transformer.py/girwriter.py shadowed by a boxed integer (decimal rendering of int trusted)',
        'MessageLogger replaced by a recorder; cache disabled',
        'enum member identifiers are built from whole words (the code splits on "_" and compares words)',
        'property precondition: no member identifier is a word-prefix of another',
        'double constants (%f formatting) are outside the claim')
    conds = conditions(tier)
    if only:
        conds = [c for c in conds if only in c.name]
    ch.run('C13', conds, report, seed=seed)


def replay(payload):
    rp = ch.replay(payload['module'], payload['fn'], payload['kwargs'])
    print(rp)
    return 1 if rp.get('ok') is False else 0
