"""C14 — every typelib entry is found by name, GType name and error domain (engine LLSYM, kernels).

Encoded, copied verbatim out of the current girepository/gitypelib.c and gthash.c by
vlib.llsym.slice: g_typelib_get_dir_entry, get_section_by_id, g_typelib_get_dir_entry_by_name
(linear and hashed branch), g_typelib_get_dir_entry_by_gtype_name,
g_typelib_get_dir_entry_by_error_domain, g_typelib_matches_gtype_name_prefix (+ strsplit_iter_*),
_gi_typelib_hash_search.  cmph_search_packed is an uninterpreted function under the perfect-hash
contract (DESIGN.md C14: the one big assumption); hash construction (cmph/bdz.c) and the
repository-level g_irepository_find_by_* are not claimed.  Harness and oracles: harness/c/h_c14.c.
"""
import os
import time

from vlib import common
from vlib.common import ERROR, Item
from vlib.llsym import runner
from vlib.llsym.runner import Part

HARNESS = 'h_c14'
SLICE_TYPELIB = ['g_typelib_get_dir_entry', 'get_section_by_id', 'g_typelib_get_dir_entry_by_name',
                 'g_typelib_get_dir_entry_by_gtype_name', 'typedef:StrSplitIter', 'strsplit_iter_init',
                 'strsplit_iter_next', 'strsplit_iter_clear', 'g_typelib_matches_gtype_name_prefix',
                 'g_typelib_get_dir_entry_by_error_domain']
SLICE_HASH = ['_gi_typelib_hash_search']
BUDGET = {'quick': 165, 'thorough': 1380}
REGISTERED = (3, 5, 6, 7, 8, 11)      # struct, enum, flags, object, interface, union
ENUM = 5


CMPH_SOURCES = ['bdz.c', 'bdz_ph.c', 'bmz8.c', 'bmz.c', 'brz.c', 'buffer_entry.c', 'buffer_manager.c', 'chd.c',
                'chd_ph.c', 'chm.c', 'cmph.c', 'cmph_structs.c', 'compressed_rank.c', 'compressed_seq.c',
                'fch_buckets.c', 'fch.c', 'graph.c', 'hash.c', 'jenkins_hash.c', 'miller_rabin.c', 'select.c',
                'vqueue.c', 'vstack.c']          # girepository/cmph/meson.build
CMPH_RUNS = [(1, 1), (2, 1), (3, 2), (4, 3), (17, 4), (300, 5), (301, 6), (1000, 7), (4096, 8)]     # (names, seed)


def cmph_contract_start(work):
    """Native-only: compile harness/c/h_c14_cmph.c (real gthash.c) with the repository's cmph
    sources.  Returns the running compiler process; see cmph_contract_finish."""
    import subprocess
    from vlib.llsym import build as lb
    r = lb.repo()
    cm = os.path.join(r, 'girepository', 'cmph')
    exe = os.path.join(work, 'cmph_contract')
    cmd = ['gcc', '-O0', '-w', '-std=gnu99', '-I', lb.SHIM, '-I', work, '-I', os.path.join(r, 'girepository'), '-I', r,
           '-I', cm, '-DGI_COMPILATION', os.path.join(lb.HARNESS_C, 'h_c14_cmph.c')] + \
        [os.path.join(cm, f) for f in CMPH_SOURCES] + ['-lm', '-o', exe]
    return subprocess.Popen(cmd, stdout=subprocess.PIPE, stderr=subprocess.STDOUT, text=True), exe


def cmph_contract_finish(proc, exe):
    """-> (ok, text).  The perfect-hash contract assumed of cmph_search_packed, checked on the real
    code: every packed name found at its own index, values pairwise distinct and < n, absent keys
    mapped to an index < n."""
    import subprocess
    out = proc.communicate()[0]
    if proc.returncode != 0:
        return False, 'gthash.c + cmph do not build natively: ' + out[-600:]
    lines = []
    for n, seed in CMPH_RUNS:
        p = subprocess.run([exe, str(n), str(seed)], stdout=subprocess.PIPE, stderr=subprocess.STDOUT, text=True, timeout=120)
        last = (p.stdout.strip().split('\n') or [''])[-1]
        if p.returncode != 0 or not last.startswith('OK'):
            return False, 'n=%d seed=%d: %s (exit %d)' % (n, seed, last[:200], p.returncode)
        lines.append(last)
    return True, '; '.join(lines)


def build():
    from vlib.llsym import build as lb, slice as sl

    def prepare(work):
        g = os.path.join(lb.repo(), 'girepository')
        sl.write_slice(os.path.join(g, 'gitypelib.c'), SLICE_TYPELIB, os.path.join(work, 'sliced_gitypelib.inc'))
        sl.write_slice(os.path.join(g, 'gthash.c'), SLICE_HASH, os.path.join(work, 'sliced_gthash.inc'))
    return lb.build(HARNESS, prepare=prepare, ir_cflags=['-fno-builtin'], asan=True)


# ---------------------------------------------------------------------------
# concrete cases (expected values from a reference written here in Python)

def _base(mode, maxstr=3):
    return {'mode': mode, 'cfg_maxstr': maxstr, 'cfg_twin': 0}


def _put(d, pre, base, text):
    for i, c in enumerate(text.encode('latin-1')):
        d['%s[%d]' % (pre, base + i)] = c


def v_name(names, probe, secvar, perm=None, other=None, dirpad=0, nonlocal_names=(), after=(0, 0)):
    d = _base(0)
    d.update({'n': len(names) - 1, 'secvar': secvar, 'dirpad': dirpad, 'plen': len(probe),
              'n_nonlocal': len(nonlocal_names)})
    for i, s in enumerate(nonlocal_names):
        d['xlen[%d]' % i] = len(s)
        _put(d, 'x', i * 8, s)
    _put(d, 'p', 0, probe)
    for i, s in enumerate(names):
        d['len[%d]' % i] = len(s)
        _put(d, 's', i * 8, s)
    if secvar >= 2:
        for i, h in enumerate(perm or range(len(names))):
            d['perm[%d]' % i] = h
        d['after_table[0]'], d['after_table[1]'] = after
        if other is None or other >= len(names):
            d['h_other_in_range'] = 0
            d['h_other'] = 0xffffffff if other is None else other
        else:
            d['h_other_in_range'] = 1
            d['h_other_small'] = other
    want = names.index(probe) + 1 if probe in names else 0
    return d, {'got': want}


def v_blob(mode, entries, probe, dirpad=1):
    """entries: [(blob type, string or None)]"""
    d = _base(mode)
    d.update({'n': len(entries) - 1, 'dirpad': dirpad, 'plen': len(probe)})
    _put(d, 'p', 0, probe)
    want = 0
    for i, (t, s) in enumerate(entries):
        d['type[%d]' % i] = t
        d['has[%d]' % i] = int(s is not None)
        if s is not None:
            d['len[%d]' % i] = len(s)
            _put(d, 's', i * 8, s)
        ok = (t == ENUM) if mode == 2 else (t in REGISTERED)
        if not want and ok and s is not None and s == probe:
            want = i + 1
    return d, {'got': want}


def v_prefix(c_prefix, name):
    d = _base(3)
    d.update({'clen': len(c_prefix), 'plen': len(name)})
    _put(d, 'c', 0, c_prefix)
    _put(d, 'p', 0, name)
    want = 0
    if c_prefix:
        for piece in c_prefix.split(','):
            if name.startswith(piece) and len(name) > len(piece) and 'A' <= name[len(piece)] <= 'Z':
                want = 1
    return d, {'ret': want}


def v_entry(directory, size, index):
    d = _base(4)
    d.update({'directory': directory, 'entry_blob_size': size, 'index': index})
    return d, {'off': directory + (index - 1) * size}


def validation_cases():
    c, e = [], {}

    def add(name, pair):
        c.append((name, pair[0]))
        e[name] = pair[1]
    for secvar, tag in ((0, 'no section table'), (1, 'table without index'), (2, 'hashed'), (3, 'hashed, index second')):
        add('by name, %s: present first' % tag, v_name(['a', 'b', 'c'], 'a', secvar, perm=[2, 0, 1]))
        add('by name, %s: present last' % tag, v_name(['a', 'b', 'c'], 'c', secvar, perm=[1, 2, 0], dirpad=1))
        add('by name, %s: absent' % tag, v_name(['ab', 'ac', 'a'], 'b', secvar, perm=[0, 1, 2], other=1))
    add('by name, hashed: absent key hashing out of range', v_name(['x', 'y'], 'z', 2, perm=[1, 0], other=5))
    add('by name, hashed: absent key hashing to 2^32-1', v_name(['x', 'y'], 'z', 2, perm=[1, 0]))
    add('by name: prefix-related names', v_name(['a', 'ab', 'abc'], 'ab', 2, perm=[2, 1, 0]))
    add('by name: probe is a proper prefix', v_name(['abc', 'abd'], 'ab', 2, perm=[0, 1], other=0))
    add('by name: empty name and empty probe', v_name(['', 'a'], '', 2, perm=[1, 0]))
    add('by name: empty probe absent', v_name(['q'], '', 0))
    add('by name: high bytes', v_name(['\xff\x01', '\xff\x02'], '\xff\x02', 3, perm=[0, 1]))
    for secvar in (0, 2):
        add('by name (%d): name of a non-local entry only' % secvar,
            v_name(['a', 'b'], 'Ob', secvar, perm=[1, 0], other=2, nonlocal_names=['Ob'], after=(2, 2)))
        add('by name (%d): local name that a non-local entry also has' % secvar,
            v_name(['Ob', 'b'], 'Ob', secvar, perm=[0, 1], nonlocal_names=['x', 'Ob']))
    add('by name: absent key hashing just past the local count', v_name(['k'], 'z', 3, perm=[0], other=1,
                                                                          nonlocal_names=['z', 'z'], after=(1, 2)))
    add('by gtype name: first of two equal', v_blob(1, [(3, 'Ab'), (7, 'Ab'), (5, 'Cd')], 'Ab'))
    add('by gtype name: function blob is skipped', v_blob(1, [(1, 'Ab'), (8, 'Ab')], 'Ab'))
    add('by gtype name: blob without gtype name', v_blob(1, [(3, None), (11, 'X')], 'X'))
    add('by gtype name: boxed (4) is not a registered type here', v_blob(1, [(4, 'B')], 'B'))
    add('by gtype name: absent', v_blob(1, [(3, 'A'), (5, 'B'), (6, 'C')], 'D'))
    add('by gtype name: empty string', v_blob(1, [(7, ''), (7, 'a')], ''))
    add('by error domain: enum found', v_blob(2, [(3, 'd'), (5, 'e'), (5, 'd')], 'd'))
    add('by error domain: flags are not error enums', v_blob(2, [(6, 'd')], 'd'))
    add('by error domain: enum without domain', v_blob(2, [(5, None), (5, 'dom')], 'dom'))
    add('by error domain: absent', v_blob(2, [(5, 'ab')], 'abc'))
    add('prefix: G does not match Gt', v_prefix('G', 'Gt'))
    add('prefix: G matches GX', v_prefix('G', 'GX'))
    add('prefix: second of two', v_prefix('Ab,G', 'GdK'))
    add('prefix: name equals prefix', v_prefix('Gd', 'Gd'))
    add('prefix: empty c_prefix', v_prefix('', 'A'))
    add('prefix: empty piece', v_prefix('x,', 'A'))
    add('prefix: longer than name', v_prefix('GdkX', 'Gd'))
    add('entry: first', v_entry(112, 12, 1))
    add('entry: third with padding', v_entry(116, 12, 3))
    add('entry: large', v_entry(1 << 20, 65535, 60000))
    return c, e


# ---------------------------------------------------------------------------

def partitions(tier):
    ms = 3 if tier == 'quick' else 4
    parts = []
    strs = 'strings of 0..%d bytes, any non-NUL byte values' % ms
    for n in range(3):
        for secvar in range(4):
            for nx, l0 in [(0, l) for l in range(ms + 1)] + [(x, None) for x in range(1, (1 if tier == 'quick' else 2) + 1)]:
                xs = ms - nx              # shorter strings with more entries: 1.5 M paths took 16 minutes otherwise
                fixed = dict(_base(0, xs), n=n, secvar=secvar, n_nonlocal=nx)
                if l0 is not None:
                    fixed['len[0]'] = l0
                parts.append(Part('g_typelib_get_dir_entry_by_name' if nx == 0 else
                                  'g_typelib_get_dir_entry_by_name with non-local directory entries', fixed,
                                  '1..3 local entries with pairwise distinct names (%s), probe likewise; header without '
                                  'section table / table without directory index / index first / index after an unknown '
                                  'section; directory at 2 offsets; hashed branch: cmph_search_packed uninterpreted - any '
                                  'injective assignment of values < n to the names, any u32 for other keys, lookaside table as '
                                  'the builder packs it, arbitrary bytes after it: probe == name_i => entry i, else NULL; every read '
                                  'inside the 352-byte image' % strs + ('' if nx == 0 else
                                  '; here n_entries = n_local_entries + %d non-local entr%s with arbitrary names (all strings 0..%d '
                                  'bytes): a probe equal only to a non-local name => NULL' % (nx, 'y' if nx == 1 else 'ies', xs))))
    for mode, item, what in ((1, 'g_typelib_get_dir_entry_by_gtype_name', 'GType name'),
                             (2, 'g_typelib_get_dir_entry_by_error_domain', 'error domain')):
        for n in range(3):
            for h0 in range(2):
                parts.append(Part(item, dict(_base(mode, ms), n=n, **{'has[0]': h0}),
                                  '1..3 local entries, each of any of the 12 blob types, with or without a %s (%s), '
                                  'probe likewise: the first %s entry whose %s equals the probe, NULL if none; every read '
                                  'inside the image' % (what, strs, 'enum' if mode == 2 else 'registered-type', what)))
    for clen in range(6):
        parts.append(Part('g_typelib_matches_gtype_name_prefix', dict(_base(3, ms), clen=clen),
                          'c_prefix any string of 0..5 bytes (commas anywhere), GType name any string of 0..%d bytes: TRUE iff ' % ms +
                          'c_prefix is non-empty and some comma-separated piece is a prefix of the name followed by A-Z'))
    parts.append(Part('g_typelib_get_dir_entry', _base(4),
                      'header->directory any u32, entry_blob_size and index any u16 (index >= 1) with the entry offset '
                      'below 2^32: &data[directory + (index-1)*entry_blob_size]'))
    return parts


def _txt(inp, pre, base, n):
    return repr(bytes(inp.get('%s[%d]' % (pre, base + i), 0) & 255 for i in range(n)).decode('latin-1'))


def describe(inp):
    m = inp.get('mode')
    probe = _txt(inp, 'p', 0, inp.get('plen', 0))
    n = inp.get('n', 0) + 1
    if m == 0:
        names = [_txt(inp, 's', i * 8, inp.get('len[%d]' % i, 0)) for i in range(n)]
        xs = [_txt(inp, 'x', i * 8, inp.get('xlen[%d]' % i, 0)) for i in range(inp.get('n_nonlocal', 0))]
        how = ['no section table', 'section table without index', 'hashed', 'hashed (index second)'][inp.get('secvar', 0)]
        extra = ''
        if inp.get('secvar', 0) >= 2:
            other = inp.get('h_other_small') if inp.get('h_other_in_range') else inp.get('h_other')
            extra = ' h(names)=%s h(other)=%s' % ([inp.get('perm[%d]' % i) for i in range(n)], other)
        return 'by_name(%s) in local names %s%s, %s%s' % (probe, names, ', non-local %s' % xs if xs else '', how, extra)
    if m in (1, 2):
        ents = [(inp.get('type[%d]' % i), _txt(inp, 's', i * 8, inp.get('len[%d]' % i, 0)) if inp.get('has[%d]' % i) else None)
                for i in range(n)]
        return '%s(%s) in (blob type, string) %s' % ('by_gtype_name' if m == 1 else 'by_error_domain', probe, ents)
    if m == 3:
        return 'matches_gtype_name_prefix(c_prefix=%s, name=%s)' % (_txt(inp, 'c', 0, inp.get('clen', 0)), probe)
    return 'get_dir_entry(directory=%s, entry_blob_size=%s, index=%s)' % (
        inp.get('directory'), inp.get('entry_blob_size'), inp.get('index'))


def run(report, tier, seed, only=None):
    from vlib.llsym import build as lb, slice as sl
    t0 = time.time()
    report.encode('girepository/gitypelib.c', *[s for s in SLICE_TYPELIB if ':' not in s])
    report.encode('girepository/gthash.c', *SLICE_HASH)
    report.assume(
        'native side check of that contract on every run: the real gthash.c builder + girepository/cmph pack generated name '
        'sets (1..4096 names) and every name must be found at its index, hash values distinct and < n, absent keys < n',
        'cmph_search_packed is an uninterpreted function constrained only by the perfect-hash contract: pairwise distinct '
        'values < n on the n entry names, an arbitrary u32 on any other key; the lookaside table is what '
        '_gi_typelib_hash_builder_pack writes (table[h(name_i)] = i); BDZ construction/evaluation (cmph/) is not claimed',
        'image invariants (g_typelib_validate / the compiler): offsets inside the image, strings NUL-terminated inside it, '
        'section table terminated by GI_SECTION_END, hash section 4-aligned, entry names pairwise distinct',
        'functions copied verbatim from the current gitypelib.c / gthash.c by vlib/llsym/slice.py, compiled against /verif/shim',
        'strcmp, strncmp, strlen, strstr are C models (harness/c/llsym_libc.h) in the IR build, glibc in the native twin; '
        'g_string_overwrite_len, g_quark_to_string, g_free are C models',
        'registered-type blobs are those BLOB_IS_REGISTERED_TYPE names (struct, union, enum, flags, object, interface)',
        'not claimed: g_irepository_find_by_name / _by_gtype / _by_error_domain (GLib hash tables, lazy loading), '
        'namespaces of more than 3 local entries, strings longer than the tier bound')
    try:
        built = build()
    except (lb.BuildError, sl.SliceError) as e:
        report.add(Item('build', runner.ENGINE, ERROR, detail='%s: %s' % (type(e).__name__, str(e)[-1500:])))
        return
    cmph_proc = cmph_contract_start(built.work)          # compiles while the rest runs
    cases, expect = validation_cases()
    agree, problems, violated = runner.validate_concrete(built, cases, expect, memory_failures=True)
    if violated:
        report.notes.append('concrete cases on which the code under test misbehaves (%d): %s' % (
            len(violated), ' | '.join(violated)[:1500]))
    report.validation.update({'concrete_cases': len(cases), 'concrete_agreements': agree,
                              'concrete_cases_violating_the_property': len(violated),
                              'compared': 'native twin (gcc -O0 -fsanitize=address, glibc string functions) == LLSYM concrete '
                                          'mode (C models) on every output; expected values from a reference in checks/c14.py',
                              'cases': [n for n, _ in cases]})
    if problems:
        cmph_proc[0].kill()
        report.add(Item('translator-validation', runner.ENGINE, ERROR, bounds='%d concrete cases' % len(cases),
                        detail='; '.join(problems)[:1400]))
        return
    parts = partitions(tier)
    if only:
        parts = [p for p in parts if only in p.item]
    runner.run_parts(report, 'C14', built, parts, tier, seed, BUDGET[tier] - (time.time() - t0),
                     describe=describe, memory_failures=True)
    ok, text = cmph_contract_finish(*cmph_proc)
    report.validation['perfect_hash_contract_native'] = text
    if not ok:
        report.add(Item('perfect-hash contract does not hold natively', runner.ENGINE, ERROR,
                        bounds='real gthash.c + girepository/cmph, generated name sets of %s names'
                               % ', '.join(str(n) for n, _ in CMPH_RUNS), detail=text))


def replay(payload):
    return runner.replay_payload(build(), payload)
