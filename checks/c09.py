"""C09 — repository API reports what the typelib contains (engine LLSYM, kernels only).

Claimed part (DESIGN.md C09): the offset arithmetic and table searches of the info accessors.
giobjectinfo.c, giinterfaceinfo.c, gistructinfo.c, giunioninfo.c, gienuminfo.c are compiled
whole and unmodified; g_base_info_get_type, cmp_attribute, _attribute_blob_find_first,
g_base_info_iterate_attributes are copied verbatim out of gibaseinfo.c by vlib.llsym.slice.
g_info_new is stubbed to return its offset argument.  Harness and oracle: harness/c/h_c09.c.
Not claimed: g_irepository_* enumeration, GType / flag decoding accessors, girwriter.c.
"""
import os
import time

from vlib import common
from vlib.common import ERROR, Item
from vlib.llsym import runner
from vlib.llsym.runner import Part

HARNESS = 'h_c09'
SLICE = ['g_base_info_get_type', 'cmp_attribute', '_attribute_blob_find_first', 'g_base_info_iterate_attributes']
BUDGET = {'quick': 165, 'thorough': 1380}
FINDING_UNION = 'union-member-after-callback-field'
SZ = dict(header=112, object=60, interface=40, struct=32, union=40, enum=24, field=16, callback=12,
          property=16, function=20, signal=16, vfunc=20, constant=24, value=12, attribute=12)
A_IFACE, A_FIELD, A_PROPERTY, A_METHOD, A_SIGNAL, A_VFUNC, A_CONSTANT, A_VALUE = range(8)
ACC_NAMES = ['interface/prerequisite', 'field', 'property', 'method', 'signal', 'vfunc', 'constant', 'value']
MODE_NAMES = ['object', 'interface', 'struct', 'union', 'enum', 'attributes']
T_FUNCTION, T_CONSTANT, T_VALUE, T_SIGNAL, T_VFUNC, T_PROPERTY, T_FIELD = 1, 9, 12, 13, 14, 15, 16   # GIInfoType


def build():
    from vlib.llsym import build as lb, slice as sl

    def prepare(work):
        sl.write_slice(os.path.join(lb.repo(), 'girepository', 'gibaseinfo.c'), SLICE,
                       os.path.join(work, 'sliced_gibaseinfo.inc'))
    return lb.build(HARNESS, prepare=prepare, ir_cflags=['-fno-builtin'], asan=True)


def _base(mode, acc, **kw):
    d = {'mode': mode, 'acc': acc, 'cfg_twin': 0, 'cfg_symbolic_sizes': 0, 'cfg_embedded': 0, 'cfg_tail': 8}
    d.update(kw)
    return d


# ---------------------------------------------------------------------------
# concrete cases with the layout formula evaluated here in Python

def v_container(mode, acc, n, pad=0, n_if=0, fields=(), counts=(0, 0, 0, 0, 0), ifaces=(), n_fields=None, n_fcb=0,
                n_values=0, flags=0, sym=0):
    """fields: has_embedded_type flags of the materialised fields; counts: properties, methods,
    signals, vfuncs, constants."""
    d = _base(mode, acc, pad=pad, n=n, cfg_symbolic_sizes=sym, cfg_embedded=int(any(fields)))
    base = SZ['header'] + 4 * pad
    blob = SZ[MODE_NAMES[mode]]
    if sym:
        for k in ('object', 'interface', 'struct', 'union', 'enum', 'field', 'callback', 'property', 'function',
                  'signal', 'vfunc', 'constant', 'value', 'attribute'):
            d['%s_blob_size' % k] = SZ[k]
    want_type = None
    if mode in (0, 1):
        d['n_if'] = n_if
        sec = base + blob + 2 * (n_if + n_if % 2)
        if mode == 0 and acc == A_FIELD:
            d['n_fields'] = len(fields)
            for i, e in enumerate(fields):
                d['embedded[%d]' % i] = e
            fb = None
        elif mode == 0:
            d['n_fields'] = n_fields or 0
            d['n_field_callbacks'] = n_fcb
            fb = (n_fields or 0) * 16 + n_fcb * 12
        else:
            fb = 0
        for k, v in zip(('n_properties', 'n_methods', 'n_signals', 'n_vfuncs', 'n_constants'), counts):
            d[k] = v
        if acc == A_IFACE:
            for i, v in enumerate(ifaces):
                d['iface[%d]' % i] = v
            want = 0x100000 + ifaces[n]
        elif acc == A_FIELD:
            want = sec + sum(16 + 12 * e for e in fields[:n])
            want_type = T_FIELD
        else:
            sizes = [16, 20, 16, 20, 24]
            s = acc - A_PROPERTY
            want = sec + fb + sum(c * z for c, z in zip(counts[:s], sizes[:s])) + n * sizes[s]
            want_type = [T_PROPERTY, T_FUNCTION, T_SIGNAL, T_VFUNC, T_CONSTANT][s]
    elif mode in (2, 3):
        d['n_fields'] = len(fields)
        for i, e in enumerate(fields):
            d['embedded[%d]' % i] = e
        d['n_methods'] = counts[1]
        sec = base + blob
        if acc == A_FIELD:
            want = sec + sum(16 + 12 * e for e in fields[:n])
            want_type = T_FIELD
        else:
            want = sec + sum(16 + 12 * e for e in fields) + n * 20
            want_type = T_FUNCTION
    else:
        d.update({'n_values': n_values, 'n_methods': counts[1], 'flags': flags})
        if acc == A_VALUE:
            want, want_type = base + blob + n * 12, T_VALUE
        else:
            want, want_type = base + blob + n_values * 12 + n * 20, T_FUNCTION
    e = {'got': want}
    if want_type is not None:
        e['type'] = want_type
    return d, e


def v_attr(acc, offsets, probe, tail=8):
    d = _base(5, acc, cfg_tail=tail, n_attributes=len(offsets), probe=probe)
    for i, o in enumerate(offsets):
        d['attr_offset[%d]' % i] = o
    hits = [i for i, o in enumerate(offsets) if o == probe]
    return d, ({'found': hits[0] if hits else -1} if acc == 0 else {'yielded': len(hits)})


def validation_cases():
    c, e = [], {}

    def add(name, pair):
        c.append((name, pair[0]))
        e[name] = pair[1]
    big = (7, 65535, 3, 1000, 2)
    add('object: interface 2 of 3', v_container(0, A_IFACE, 2, n_if=3, ifaces=(5, 9, 65535)))
    add('object: field 0', v_container(0, A_FIELD, 0, n_if=1, fields=(1, 0, 0)))
    add('object: field after an embedded callback', v_container(0, A_FIELD, 2, pad=1, n_if=2, fields=(1, 0, 1)))
    add('object: field, odd interface count', v_container(0, A_FIELD, 1, n_if=3, fields=(0, 1)))
    add('object: property, odd interfaces', v_container(0, A_PROPERTY, 4, n_if=1, n_fields=3, n_fcb=2, counts=big))
    add('object: method', v_container(0, A_METHOD, 65534, n_if=4, n_fields=9, n_fcb=0, counts=big))
    add('object: signal', v_container(0, A_SIGNAL, 2, n_if=0, n_fields=65535, n_fcb=65535, counts=big))
    add('object: vfunc', v_container(0, A_VFUNC, 999, pad=1, n_if=65535, n_fields=1, n_fcb=1, counts=big))
    add('object: constant', v_container(0, A_CONSTANT, 1, n_if=7, n_fields=2, n_fcb=1, counts=big))
    add('object: constant, header sizes symbolic', v_container(0, A_CONSTANT, 0, n_if=2, n_fields=2, n_fcb=1, counts=big, sym=1))
    add('interface: prerequisite', v_container(1, A_IFACE, 0, n_if=1, ifaces=(77,)))
    add('interface: property, odd prerequisites', v_container(1, A_PROPERTY, 3, n_if=3, counts=big))
    add('interface: method', v_container(1, A_METHOD, 10, n_if=2, counts=big))
    add('interface: signal', v_container(1, A_SIGNAL, 1, n_if=0, counts=big))
    add('interface: vfunc', v_container(1, A_VFUNC, 5, n_if=5, counts=big))
    add('interface: constant', v_container(1, A_CONSTANT, 0, pad=1, n_if=1, counts=big))
    add('struct: field after embedded callback', v_container(2, A_FIELD, 1, fields=(1, 0)))
    add('struct: method after fields', v_container(2, A_METHOD, 3, fields=(0, 1, 1), counts=(0, 9, 0, 0, 0)))
    add('struct: method, no fields', v_container(2, A_METHOD, 0, counts=(0, 1, 0, 0, 0)))
    add('union: field, plain fields', v_container(3, A_FIELD, 2, fields=(0, 0, 0)))
    add('union: method, plain fields', v_container(3, A_METHOD, 1, pad=1, fields=(0, 0), counts=(0, 2, 0, 0, 0)))
    add('enum: value', v_container(4, A_VALUE, 65534, n_values=65535))
    add('flags: method', v_container(4, A_METHOD, 2, n_values=300, counts=(0, 3, 0, 0, 0), flags=1))
    add('attributes: first of a run', v_attr(0, (10, 20, 20, 20, 30), 20))
    add('attributes: run at the start', v_attr(0, (7, 7, 9), 7))
    add('attributes: absent', v_attr(0, (10, 20, 30), 25))
    add('attributes: empty table', v_attr(0, (), 5))
    add('attributes: iterate a run of 3', v_attr(1, (10, 20, 20, 20, 30), 20))
    add('attributes: iterate to the end of the table', v_attr(1, (1, 2, 2), 2))
    add('attributes: iterate none', v_attr(1, (1, 3), 2))
    return c, e


# ---------------------------------------------------------------------------

def partitions(tier):
    parts = []
    syms = (0, 1)
    cnt = ('every other section count an arbitrary u16, requested index any value below its section\'s count, blob at 2 '
           'offsets, header blob-size fields = the format\'s values (fixed, and symbolic-but-equal)')
    for sym in syms:
        for acc in range(7):
            parts.append(Part('object accessors', _base(0, acc, cfg_symbolic_sizes=sym),
                              'g_object_info_get_interface (1..3 interfaces materialised), _get_field (0..3 interfaces, 1..3 '
                              'fields each with or without embedded callback), _get_property/_method/_signal/_vfunc/_constant '
                              '(n_interfaces, n_fields, n_field_callbacks <= n_fields arbitrary u16); ' + cnt))
        for acc in (0, 2, 3, 4, 5, 6):
            parts.append(Part('interface accessors', _base(1, acc, cfg_symbolic_sizes=sym),
                              'g_interface_info_get_prerequisite (1..3 materialised), _get_property/_method/_signal/_vfunc/'
                              '_constant (n_prerequisites arbitrary u16); ' + cnt))
        for acc in (A_FIELD, A_METHOD):
            for emb in (0, 1):
                parts.append(Part('struct accessors', _base(2, acc, cfg_symbolic_sizes=sym, cfg_embedded=emb),
                                  'g_struct_info_get_field / _get_method: 0..3 fields, each with or without embedded callback '
                                  '(all 8 combinations), n_methods arbitrary u16; ' + cnt))
            parts.append(Part('union accessors, no field with an embedded type',
                              _base(3, acc, cfg_symbolic_sizes=sym, cfg_embedded=0),
                              'g_union_info_get_field / _get_method: 0..3 plain fields, n_functions arbitrary u16; ' + cnt))
            parts.append(Part('union accessors, a callback field (embedded CallbackBlob)',
                              _base(3, acc, cfg_symbolic_sizes=sym, cfg_embedded=1),
                              'g_union_info_get_field / _get_method: 1..3 fields, at least one with has_embedded_type, laid out as '
                              'the compiler writes them (FieldBlob followed by its CallbackBlob); n_functions arbitrary u16',
                              key=FINDING_UNION))
        for acc in (A_VALUE, A_METHOD):
            parts.append(Part('enum accessors', _base(4, acc, cfg_symbolic_sizes=sym),
                              'g_enum_info_get_value / _get_method on enum and flags: n_values, n_methods arbitrary u16; ' + cnt))
    for tail in ((8,) if tier == 'quick' else (4, 8, 64)):
        for acc in (0, 1):
            parts.append(Part('attribute search and iteration', _base(5, acc, cfg_tail=tail),
                              'attribute table of 0..5 entries with arbitrary u32 offsets sorted ascending (the writer\'s '
                              'contract), inside the image and followed by the attribute strings as the compiler writes them; '
                              'probe any u32: _attribute_blob_find_first = first entry with that offset or NULL; '
                              'g_base_info_iterate_attributes yields exactly the entries with that offset, in table order; '
                              'every read inside the image'))
    return parts


def describe(inp):
    m, a = inp.get('mode', 0), inp.get('acc', 0)
    if m == 5:
        n = inp.get('n_attributes', 0)
        return '%s over attribute offsets %s, probe %s' % (
            'find_first' if a == 0 else 'iterate', [inp.get('attr_offset[%d]' % i) for i in range(n)], inp.get('probe'))
    keys = ['n_if', 'n_fields', 'n_field_callbacks', 'n_properties', 'n_methods', 'n_signals', 'n_vfuncs',
            'n_constants', 'n_values', 'pad']
    emb = [inp.get('embedded[%d]' % i) for i in range(3) if 'embedded[%d]' % i in inp]
    return '%s get_%s(%s) with %s%s' % (MODE_NAMES[m], ACC_NAMES[a], inp.get('n'),
                                       dict((k, inp[k]) for k in keys if k in inp),
                                       ' fields has_embedded_type=%s' % emb if emb else '')


def run(report, tier, seed, only=None):
    from vlib.llsym import build as lb, slice as sl
    t0 = time.time()
    report.encode('girepository/giobjectinfo.c', 'g_object_info_get_field_offset', 'g_object_info_get_interface',
                  'g_object_info_get_field', 'g_object_info_get_property', 'g_object_info_get_method',
                  'object_get_signal_offset', 'g_object_info_get_signal', 'g_object_info_get_vfunc',
                  'g_object_info_get_constant')
    report.encode('girepository/giinterfaceinfo.c', 'g_interface_info_get_prerequisite', 'g_interface_info_get_property',
                  'g_interface_info_get_method', 'g_interface_info_get_signal', 'g_interface_info_get_vfunc',
                  'g_interface_info_get_constant')
    report.encode('girepository/gistructinfo.c', 'g_struct_get_field_offset', 'g_struct_info_get_field', 'g_struct_info_get_method')
    report.encode('girepository/giunioninfo.c', 'g_union_info_get_field', 'g_union_info_get_method')
    report.encode('girepository/gienuminfo.c', 'g_enum_info_get_value', 'g_enum_info_get_method')
    report.encode('girepository/gibaseinfo.c', *SLICE)
    report.assume(
        'g_info_new stubbed to return its offset argument (and to record the info type); _g_info_from_entry returns its index',
        'oracle = the layout of gitypelib-internal.h: blob, 2 bytes per interface/prerequisite padded to 4, fields (a CallbackBlob '
        'after each field with has_embedded_type, as girnode.c writes them for every container), properties, methods, signals, '
        'vfuncs, constants; enum: values, methods; sizes = the format\'s (static-asserted against the structs)',
        'image invariants: n_field_callbacks = number of fields with has_embedded_type; attribute table sorted by offset and '
        'followed by the attribute strings inside the image',
        'requested index is below the section count (the API\'s precondition)',
        'bsearch is the C model of harness/c/llsym_libc.h in the IR build (glibc in the native twin)',
        'not claimed: g_irepository_get_n_infos/get_info/find_by_name, GType and flag decoding accessors, find_method/find_signal '
        'by name, girwriter.c / g-ir-generate')
    try:
        built = build()
    except (lb.BuildError, sl.SliceError) as e:
        report.add(Item('build', runner.ENGINE, ERROR, detail='%s: %s' % (type(e).__name__, str(e)[-1500:])))
        return
    cases, expect = validation_cases()
    agree, problems, violated = runner.validate_concrete(built, cases, expect, memory_failures=True)
    if violated:
        report.notes.append('concrete cases on which the code under test misbehaves (%d): %s' % (
            len(violated), ' | '.join(violated)[:1500]))
    # observation (DESIGN.md 6, item 6), not an item: the iterator looks at next->offset before `next >= after`
    st, _o, _e = built.run_native(v_attr(1, (1, 2, 2), 2, tail=0)[0], 'obs')
    report.notes.append('observation: with the attribute table as the very last bytes of the image, iterating to its end '
                        'makes g_base_info_iterate_attributes read next->offset 4 bytes past the image (native twin under '
                        'ASan: %s); typelibs written by the compiler always have the attribute strings after the table' % st)
    report.validation.update({'concrete_cases': len(cases), 'concrete_agreements': agree,
                              'concrete_cases_violating_the_property': len(violated),
                              'compared': 'native twin (gcc -O0 -fsanitize=address, glibc bsearch) == LLSYM concrete mode on '
                                          'every output; expected offsets from the layout formula evaluated in checks/c09.py',
                              'cases': [n for n, _ in cases]})
    if problems:
        report.add(Item('translator-validation', runner.ENGINE, ERROR, bounds='%d concrete cases' % len(cases),
                        detail='; '.join(problems)[:1400]))
        return
    parts = partitions(tier)
    if only:
        parts = [p for p in parts if only in p.item]
    runner.run_parts(report, 'C09', built, parts, tier, seed, BUDGET[tier] - (time.time() - t0), describe=describe,
                     memory_failures=True, finding_key=lambda p, payload: p.key or 'assertion-%s' % payload.get('assertion_id'))


def replay(payload):
    return runner.replay_payload(build(), payload)
