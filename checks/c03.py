"""C03 — identifier-level annotations and tags land on the right GIR element."""
import sys

from vlib import ch, common

sys.path.insert(0, ch.HARNESS_DIR)

FUNCS = [('giscanner/maintransformer.py',
          ['MainTransformer.transform', '_get_annotation_name', '_get_block', '_pass_read_annotations_early',
           '_pass_read_annotations', '_apply_annotations_annotated', '_apply_annotations_callable',
           '_apply_annotations_property', '_apply_annotations_signal', '_apply_annotations_field',
           '_apply_annotations_constant', '_apply_annotations_enum_members', '_apply_annotations_alias',
           '_apply_annotation_rename_to', '_pass_read_annotations2', '_pair_class_virtuals',
           '_pair_property_accessors', '_pair_function']),
         ('giscanner/introspectablepass.py', ['IntrospectablePass._introspectable_callable_analysis (emitter)']),
         ('giscanner/girwriter.py', ['GIRWriter._write_generic', '_append_node_generic', '_append_version',
                                    '_write_function_common', '_write_class', '_write_record', '_write_property',
                                    '_write_signal', '_write_vfunc', '_write_constant', '_write_alias', '_write_member'])]


def conditions(tier):
    import h_c03 as H
    T = 120 if tier == 'quick' else 600
    conds = []
    for m in range(len(H.META)):
        for tp in (False, True):
            conds.append(ch.Cond('h_c03', 'metadata', [('block', 'int'), ('meta2', 'int')],
                                 pre=['0 <= block < %d' % H.N_BLOCKS, '-1 <= meta2 < %d' % len(H.META)],
                                 fixed=dict(meta=m, two_prefixes=tp), timeout=T,
                                 name='metadata[%s%s]' % (H.META[m], ', GType name differs from C name' if tp else ''),
                                 bounds='a block carrying %s, alone or together with a second piece of metadata, under each '
                                        'of %d names: both elements of every kind (function, record, enumeration, member, '
                                        'callback, alias, constant, class, class struct, Class:property, Class::signal, '
                                        'Struct.field, ClassStruct::vfunc, method) and 10 near misses%s'
                                        % (H.META[m], H.N_BLOCKS, '; namespace with identifier prefixes Foo and Fu, class '
                                           'registered as FuObj with C type FooObj' if tp else '')))
    conds.append(ch.Cond('h_c03', 'rename_chains', [('r1', 'int'), ('r2', 'int'), ('r3', 'int'), ('order', 'int')],
                         pre=['0 <= r1 <= 4', '0 <= r2 <= 4', '0 <= r3 <= 4', '0 <= order <= 5'], timeout=T,
                         name='rename-to chains',
                         bounds='three functions, each with (rename-to) naming any of them or a missing symbol, declared '
                                'in any order: shadows/shadowed-by form mutually consistent pairs backed by an annotation'))
    conds.append(ch.Cond('h_c03', 'roles', [('case', 'int'), ('misplaced', 'bool')], pre=['0 <= case < %d' % H.N_ROLES],
                         timeout=T, name='roles',
                         bounds='constructor, method, value, rename-to, set-/get-property, finish/sync/async-func, emitter, '
                                'virtual, copy/free-func, foreign, ref/unref/set-value/get-value-func, setter, getter, '
                                'default-value, transfer (full, floating) - each under its own name and under a near-miss '
                                'name'))
    return conds


def run(report, tier, seed, only=None):
    ch.ensure_venv()
    for f, names in FUNCS:
        report.encode(f, *names)
    report.assume(
        'C lexer replaced by declaration records, dump subprocess by a fake tree, comment blocks built as objects',
        'differential oracle: the emitted tree with the block differs from the tree without it only inside the '
        'element(s) the block documents (for (skip), whose effect may legitimately spread to users of a skipped type, '
        'only the sibling of the same kind is compared)',
        'names are chosen (dictionary lookups on block names); SECTION blocks are outside this check')
    conds = conditions(tier)
    if only:
        conds = [c for c in conds if only in c.name]
    ch.run('C03', conds, report, seed=seed)


def replay(payload):
    rp = ch.replay(payload['module'], payload['fn'], payload['kwargs'])
    print(rp)
    return 1 if rp.get('ok') is False else 0
