"""C20 — the XML writer always produces well-formed, lossless XML."""
import itertools
import subprocess
import sys
import json

from vlib import ch, common
from vlib.common import Item

sys.path.insert(0, ch.HARNESS_DIR)

_VALIDATE = r'''
import sys, json, itertools
sys.path.insert(0, %r); sys.path.insert(0, %r)
import h_c20 as H
import xml.etree.ElementTree as ET
alpha = ['&', '<', '>', '"', "'", '\n', '\t', 'a', ';', '#', 'é', ' ']
n = bad = 0
for L in range(0, 4):
    for tup in itertools.product(alpha, repeat=L):
        s = ''.join(tup)
        doc = '<r>' + H.xmlwriter.build_xml_tag('t', [('k', s)], s) + '</r>'
        t = ET.fromstring(doc.encode('utf-8'))[0]
        ok = (t.get('k') == s and (t.text or '') == s)
        spec = (H.text_lossless(s) is True and H.attr_lossless(s) is True)
        n += 1
        if ok != spec:
            bad += 1
            print('DISAGREE', repr(s), ok, spec)
print('@@V@@' + json.dumps({'n': n, 'bad': bad}))
'''


def validate_oracle(report):
    """The decoding oracle must agree with expat on a concrete corpus."""
    p = subprocess.run([common.REPO_PY, '-c', _VALIDATE % (common.VERIF, ch.HARNESS_DIR)],
                       capture_output=True, text=True, timeout=600)
    k = p.stdout.rfind('@@V@@')
    if k < 0:
        report.add(Item('oracle-vs-expat', 'validation', common.ERROR,
                        detail='validation crashed: ' + p.stderr[-1500:]))
        return
    r = json.loads(p.stdout[k + 5:].strip())
    report.validation['concrete_agreements'] = r['n'] - r['bad']
    report.validation['oracle_vs_expat'] = r
    if r['bad']:
        report.add(Item('oracle-vs-expat', 'validation', common.ERROR,
                        detail='spec_unescape disagrees with expat on %d strings: %s'
                        % (r['bad'], p.stdout[:800])))


def conditions(tier):
    conds = []
    tl, al = (3, 2) if tier == 'quick' else (4, 3)
    to = 280 if tier == 'quick' else 1500
    # (a) escaping lemmas, partitioned by the first character's class so cores are used
    classes = [('amp', "s[0] == '&'"), ('lt', "s[0] == '<'"), ('gt', "s[0] == '>'"),
               ('quote', "s[0] in '\"' + \"'\""), ('ws', "s[0] in '\\t\\n'"),
               ('other', "s[0] not in '&<>\\t\\n' + '\"' + \"'\"")]
    conds.append(ch.Cond('h_c20', 'text_lossless', [('s', 'str')], pre=['len(s) == 0'],
                         timeout=60, name='text[empty]', bounds='s = ""'))
    conds.append(ch.Cond('h_c20', 'attr_lossless', [('v', 'str')], pre=['len(v) == 0'],
                         timeout=60, name='attr[empty]', bounds='v = ""'))
    for cname, cpre in classes:
        conds.append(ch.Cond('h_c20', 'text_lossless', [('s', 'str')],
                             pre=['1 <= len(s) <= %d' % tl, cpre], timeout=to,
                             name='text[first=%s,len<=%d]' % (cname, tl),
                             bounds='every string of 1..%d code points, first char class %s' % (tl, cname)))
        conds.append(ch.Cond('h_c20', 'attr_lossless', [('v', 'str')],
                             pre=['1 <= len(v) <= %d' % al, cpre.replace('s[0]', 'v[0]')], timeout=to,
                             name='attr[first=%s,len<=%d]' % (cname, al),
                             bounds='every string of 1..%d code points, first char class %s' % (al, cname)))
    wb = ('the value at position %d of a 4-attribute list that is wrapped; the output is the individually quoted '
          'values joined by white space')
    for pos in (1, 2, 3):      # position 0: CrossHair does not exhaust the paths (string built from a symbolic head)
        conds.append(ch.Cond('h_c20', 'wrapped_lossless', [('v', 'str')], pre=['len(v) == 0'], fixed={'pos': pos},
                             timeout=to, name='wrapped[position=%d,empty]' % pos, bounds='v = "" as ' + wb % pos))
        for cname, cpre in (classes if pos < 3 else [('any', 'True')]):
            conds.append(ch.Cond('h_c20', 'wrapped_lossless', [('v', 'str')],
                                 pre=['1 <= len(v) <= %d' % al, cpre.replace('s[0]', 'v[0]')], fixed={'pos': pos},
                                 timeout=to, name='wrapped[position=%d,first=%s,len<=%d]' % (pos, cname, al),
                                 bounds='every string of 1..%d code points, first char class %s, as ' % (al, cname)
                                        + wb % pos))
    # (b) structure: value *lengths* are unbounded symbolic integers, value content is opaque
    sym = [('l0', 'int'), ('l1', 'int'), ('l2', 'int'), ('l3', 'int'),
           ('none0', 'bool'), ('none1', 'bool'), ('none2', 'bool'), ('none3', 'bool'),
           ('has_data', 'bool'), ('ldata', 'int')]
    shapes = [(1, 0), (9, 40)] if tier == 'quick' else \
        [(1, 0), (1, 40), (3, 2), (9, 4), (12, 10), (20, 0), (20, 40)]
    for n in range(0, 5):
        for taglen, indent in shapes:
            conds.append(ch.Cond(
                'h_c20', 'tag_structure', sym,
                pre=['l0 >= 0', 'l1 >= 0', 'l2 >= 0', 'l3 >= 0', 'ldata >= 0'],
                fixed={'n': n, 'taglen': taglen, 'indent': indent}, timeout=to,
                name='structure[n=%d,taglen=%d,indent=%d]' % (n, taglen, indent),
                bounds='%d attributes, each value None or a string of ANY length (length symbolic, content '
                       'opaque behind the quoteattr/escape stubs), tag length %d, indent %d, with/without text'
                       % (n, taglen, indent)))
    # (c) element stack
    nops = 5 if tier == 'quick' else 6
    opsyms = [('o%d' % i, 'int') for i in range(1, 6)]
    for o0 in range(0, 7):
        conds.append(ch.Cond(
            'h_c20', 'element_stack', opsyms + [('n', 'int')],
            pre=['0 <= o%d <= 6' % i for i in range(1, 6)] + ['1 <= n <= %d' % nops],
            fixed={'o0': o0}, timeout=to,
            name='stack[first-op=%d,len<=%d]' % (o0, nops),
            bounds='every sequence of 1..%d operations over {open-context, close, leaf, text leaf, '
                   'push/pop pair, raise Exception, raise BaseException}; output parsed by expat' % nops))
    for when in (0, 1, 2):
        conds.append(ch.Cond(
            'h_c20', 'two_writers', [('o%d' % i, 'int') for i in range(0, 4)] + [('n', 'int')],
            pre=['0 <= o%d <= 6' % i for i in range(0, 4)] + ['1 <= n <= 4'],
            fixed={'when': when}, timeout=to,
            name='two-writers[%s,len<=4]' % ('other open during', 'other closed before', 'other used after')[when],
            bounds='every sequence of 1..4 operations on one writer while a second writer instance exists '
                   '(its element open around them / closed before / written after); both documents checked'))
    return conds


def run(report, tier, seed, only=None):
    ch.ensure_venv()
    report.encode('giscanner/xmlwriter.py', '_calc_attrs_length', 'collect_attributes',
                  'build_xml_tag', 'XMLWriter.push_tag', 'XMLWriter.pop_tag',
                  'XMLWriter.write_tag', 'XMLWriter.write_line', 'XMLWriter.tagcontext')
    report.assume(
        'element/attribute names and comment text are XML Names / legal comment text (the writer does '
        'not escape them and the property ranges over XML-representable strings)',
        'carriage returns in element text excluded (stated in the property)',
        'structure harness: quoteattr/escape replaced by injective tagging stubs of the same minimal length',
        'characters XML 1.0 cannot represent (most C0 controls) are outside the property',
        'decoding oracle spec_unescape validated against expat on a concrete corpus in this run')
    validate_oracle(report)
    conds = conditions(tier)
    if only:
        conds = [c for c in conds if only in c.name]
    ch.run('C20', conds, report, seed=seed)


def replay(payload):
    rp = ch.replay(payload['module'], payload['fn'], payload['kwargs'])
    print(rp)
    return 1 if rp.get('ok') is False else 0
