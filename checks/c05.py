"""C05 — everything left introspectable is bindable and every reference resolves."""
import sys

from vlib import ch, common

sys.path.insert(0, ch.HARNESS_DIR)

FUNCS = [('giscanner/introspectablepass.py',
          ['IntrospectablePass.validate', '_introspectable_param_analysis', '_type_is_introspectable',
           '_propagate_parameter_skip', '_introspectable_alias_analysis', '_propagate_callable_skips',
           '_analyze_node', '_introspectable_callable_analysis', '_introspectable_property_analysis',
           '_introspectable_pass3', '_remove_non_reachable_backcompat_copies']),
         ('giscanner/maintransformer.py',
          ['MainTransformer.transform', '_pass_type_resolution', '_pass_callable_defaults',
           '_apply_annotations_param_ret_common', '_apply_annotations_param_callback',
           '_apply_annotations_array', '_apply_annotations_element_type', '_resolve', '_resolve_toplevel',
           '_apply_annotation_rename_to', '_pair_class_virtuals', '_pair_property_accessors',
           '_pass3_callable_callbacks', '_pass3_callable_throws', '_get_validate_parameter_name']),
         ('giscanner/transformer.py',
          ['Transformer.parse', '_create_function', '_create_parameter', '_create_type_from_base',
           'create_type_from_ctype_string', 'create_type_from_user_string', 'resolve_type',
           'lookup_giname', 'resolve_aliases', '_create_typedef', '_create_callback', '_create_member']),
         ('giscanner/gdumpparser.py', ['GDumpParser.parse', '_introspect_object', '_introspect_properties',
                                      '_introspect_signals', '_pair_boxed_type', '_find_class_record']),
         ('giscanner/girwriter.py', ['GIRWriter._write_callable', '_write_parameter', '_write_return_type',
                                    '_write_type', '_write_field', '_write_property', '_write_alias',
                                    '_write_class', '_write_record'])]

KEY_SKIP = 'skipped-value-without-scope-or-element-type'
KEY_TYPEOV = 'unknown-type-override-leaves-bare-list'
KEY_ARRAY_OF_CONT = 'array-annotation-on-bare-container'


def _classify(kwargs, rp):
    res = rp.get('result', '')
    if kwargs.get('skip') and ('without scope' in res or 'gpointer (no element type)' in res):
        return KEY_SKIP
    if kwargs.get('type_override') and 'list without element type' in res:
        return KEY_TYPEOV
    if kwargs.get('array') and '/element: ' in res and 'of gpointer (no element type)' in res:
        return KEY_ARRAY_OF_CONT
    return None


def conditions(tier):
    import pipe
    import h_c05 as H
    quick = tier == 'quick'
    NT = pipe.N_TYPES           # kinds 0..NT-1, NT = varargs
    conds = []
    labels = pipe.TYPE_LABELS + ['...']
    cont_cb = tuple(i for i in range(NT) if set(pipe.type_tags(i)) & set(('cont', 'cb')) and
                    'wkcb' not in pipe.type_tags(i))
    T = 200 if quick else 1500

    # ---- value_basic ---------------------------------------------------------------
    ckinds = range(5)
    for ck in ckinds:
        for pos in (0, 1, 2):
            sym = [('tkind', 'int'), ('skip', 'bool'), ('transfer', 'int'), ('skip_callable', 'bool')]
            fixed = dict(ckind=ck, pos=pos, exempt=False)
            pre = ['0 <= tkind <= %d' % NT, '0 <= transfer <= 4',
                   'not (skip and tkind in %r)' % (cont_cb,)]
            if quick:
                fixed.update(neighbour=0, direction=0 if pos != 1 else 2)
            else:
                sym += [('neighbour', 'int'), ('direction', 'int')]
                pre += ['0 <= neighbour <= 3', '0 <= direction <= 5']
            conds.append(ch.Cond('h_c05', 'value_basic', sym, pre=pre, fixed=fixed, timeout=T,
                                 name='value_basic[%s,pos=%d]' % (pipe.CALLABLE_KINDS[ck], pos),
                                 bounds='type in {%s}; skip, transfer (5), skip on callable%s; skipped bare '
                                        'containers/callbacks excluded (separate items)'
                                        % (', '.join(labels), '' if quick else ', neighbour (4), direction (6)'),
                                 finding_classifier=_classify))
    # skipped bare containers / callbacks: known finding (strict) + everything else (exempt)
    for ck in ckinds:
        for exempt in (False, True):
            conds.append(ch.Cond(
                'h_c05', 'value_basic',
                [('pos', 'int'), ('tkind', 'int'), ('transfer', 'int'), ('skip_callable', 'bool')],
                pre=['0 <= pos <= 2', 'tkind in %r' % (cont_cb,), '0 <= transfer <= 4'],
                fixed=dict(ckind=ck, skip=True, neighbour=0, direction=0, exempt=exempt), timeout=T,
                name='value_basic[%s,skipped container/callback,%s]' % (
                    pipe.CALLABLE_KINDS[ck], 'other requirements' if exempt else 'strict'),
                bounds='(skip) on a value of type in {%s}' % ', '.join(labels[i] for i in cont_cb),
                finding_classifier=_classify))

    # ---- value_types ---------------------------------------------------------------
    NU = len(pipe.USER_TYPES)
    for ck in ((0, 2, 3) if quick else ckinds):
        for pos in (0, 1):
            # (type X)
            conds.append(ch.Cond(
                'h_c05', 'value_types', [('tkind', 'int'), ('type_override', 'int'), ('transfer', 'int')],
                pre=['0 <= tkind <= %d' % NT, '1 <= type_override < %d' % NU, 'transfer in (0, 2)',
                     'not (tkind == 10 and type_override in (8, 11))'],
                fixed=dict(ckind=ck, pos=pos, elt=0, elt2=0, array=0, exempt=False), timeout=T,
                name='type_override[%s,pos=%d]' % (pipe.CALLABLE_KINDS[ck], pos),
                bounds='(type X), X in {%s}, on every value type' % ', '.join(pipe.USER_TYPES[1:]),
                finding_classifier=_classify))
            # (element-type X [Y]) x (array ...)
            sym = [('tkind', 'int'), ('elt', 'int'), ('array', 'int')]
            pre = ['0 <= tkind <= %d' % NT, '0 <= elt < %d' % NU, '0 <= array <= 6',
                   'not (array != 0 and elt == 0 and tkind in (10, 12))']
            fixed = dict(ckind=ck, pos=pos, type_override=0, exempt=False)
            if quick:
                fixed.update(elt2=0, transfer=0)
            else:
                sym += [('elt2', 'int'), ('transfer', 'int')]
                pre += ['elt2 in (0, 1, 8)', 'transfer in (0, 3)']
            conds.append(ch.Cond('h_c05', 'value_types', sym, pre=pre, fixed=fixed, timeout=T,
                                 name='containers[%s,pos=%d]' % (pipe.CALLABLE_KINDS[ck], pos),
                                 bounds='(element-type X [Y]) x (array [length=existing|missing|self, fixed-size, '
                                        'zero-terminated]) on every value type',
                                 finding_classifier=_classify))
    # hash tables: (element-type K V), both symbolic
    for pos in (0, 1):
        conds.append(ch.Cond(
            'h_c05', 'value_types', [('ckind', 'int'), ('elt', 'int'), ('elt2', 'int'), ('transfer', 'int')],
            pre=['0 <= ckind <= 4', '1 <= elt < %d' % NU, '0 <= elt2 < %d' % NU, 'transfer in (0, 3)'],
            fixed=dict(tkind=11, pos=pos, type_override=0, array=0, exempt=False), timeout=T,
            name='containers[GHashTable key/value,pos=%d]' % pos,
            bounds='(element-type K V) on GHashTable*, K and V over {%s}' % ', '.join(pipe.USER_TYPES[1:]),
            finding_classifier=_classify))
    for exempt in (False, True):
        conds.append(ch.Cond(
            'h_c05', 'value_types', [('ckind', 'int'), ('pos', 'int'), ('type_override', 'int')],
            pre=['0 <= ckind <= 4', '1 <= pos <= 2', 'type_override in (8, 11)'],
            fixed=dict(tkind=10, elt=0, elt2=0, array=0, transfer=0, exempt=exempt), timeout=T,
            name='type_override[unknown type on GList*,%s]' % ('other requirements' if exempt else 'strict'),
            bounds='(type BarUnknown|FooUnknown) on a GList* parameter', finding_classifier=_classify))
        conds.append(ch.Cond(
            'h_c05', 'value_types', [('ckind', 'int'), ('pos', 'int'), ('tkind', 'int'), ('array', 'int'),
                                     ('transfer', 'int')],
            pre=['0 <= ckind <= 4', '0 <= pos <= 2', 'tkind in (10, 12)', '1 <= array <= 6',
                 'transfer in (0, 3)'],
            fixed=dict(elt=0, elt2=0, type_override=0, exempt=exempt), timeout=T,
            name='containers[(array) on bare GList*/GPtrArray*,%s]' % ('other requirements' if exempt else 'strict'),
            bounds='(array ...) without (element-type) on GList*/GPtrArray* values', finding_classifier=_classify))

    # ---- value_callbacks -----------------------------------------------------------
    for ck in ((0, 3) if quick else ckinds):
        for order in (0, 1, 2):
            sym = [('tkind', 'int'), ('scope', 'int'), ('closure', 'int'), ('destroy', 'int')]
            pre = ['0 <= scope <= 4', '0 <= closure <= 6', '0 <= destroy <= 6']
            fixed = dict(ckind=ck, order=order)
            if quick:
                pre.append('tkind in (9, 15, 16, 17, 0)')
                fixed.update(with_data=True, with_notify=True)
            else:
                pre.append('0 <= tkind < %d' % NT)
                sym += [('with_notify', 'bool')]
                fixed.update(with_data=True)
            conds.append(ch.Cond('h_c05', 'value_callbacks', sym, pre=pre, fixed=fixed, timeout=T,
                                 name='callbacks[%s,order=%d]' % (pipe.CALLABLE_KINDS[ck], order),
                                 bounds='scope (5) x closure (7: none, data, notify, n, missing, itself, self) x '
                                        'destroy (7) on %s' % ('callback/gpointer/int parameters' if quick
                                                               else 'every parameter type'),
                                 finding_classifier=_classify))

    # ---- fields ---------------------------------------------------------------------
    for where in (0, 1):
        sym = [('tkind', 'int'), ('type_override', 'int'), ('elt', 'int'), ('array', 'int')]
        pre = ['0 <= tkind < %d' % NT, '0 <= array <= 4']
        fixed = dict(where=where)
        if quick:
            pre += ['type_override in (0, 1, 6, 8)', 'elt in (0, 3, 6, 8)']
            fixed.update(private=False)
        else:
            pre += ['0 <= type_override < %d' % NU, '0 <= elt < %d' % NU]
            sym.append(('private', 'bool'))
        conds.append(ch.Cond('h_c05', 'field_types', sym, pre=pre, fixed=fixed, timeout=T,
                             name='fields[%s]' % ('struct block' if where == 0 else 'own block'),
                             bounds='record field of every type x (type) x (element-type) x (array)',
                             finding_classifier=_classify))

    # ---- class members from the dump -----------------------------------------------
    NG = len(H.GTYPES)
    for ws, sa in ((False, 0), (True, 0), (True, 1), (True, 2), (True, 3)):
        sym = [('ptype', 'int'), ('pflags', 'int'), ('type_override', 'int'), ('skip_prop', 'bool')]
        pre = ['0 <= ptype < %d' % NG, '0 <= pflags <= 15', 'type_override in (0, 1, 6, 8)']
        fixed = dict(with_setter=ws, setter_ann=sa)
        if quick:
            fixed.update(sret=10, sparam=0)
        else:
            sym += [('sret', 'int'), ('sparam', 'int')]
            pre += ['sret in (0, 2, 4, 6, 10)', 'sparam in (0, 3, 6, 10)']
        conds.append(ch.Cond('h_c05', 'class_members', sym, pre=pre, fixed=fixed, timeout=T,
                             name='class_members[accessors=%s,annotation=%d]' % (ws, sa),
                             bounds='property GType in {%s}, flag words 0..15 (readable, writable, construct, '
                                    'construct-only), (type)/(skip) on the property, set-/get-property annotation '
                                    'variant %d%s' % (', '.join(H.GTYPES), sa,
                                                      '' if quick else ', signal return/param GTypes'),
                             finding_classifier=_classify))
    if quick:
        conds.append(ch.Cond('h_c05', 'class_members', [('sret', 'int'), ('sparam', 'int')],
                             pre=['0 <= sret < %d' % NG, '0 <= sparam < %d' % NG],
                             fixed=dict(ptype=0, pflags=3, type_override=0, skip_prop=False, with_setter=False,
                                        setter_ann=0), timeout=T, name='class_members[signal types]',
                             bounds='signal return and parameter GType in {%s}' % ', '.join(H.GTYPES)))

    # ---- aliases, rename-to ---------------------------------------------------------
    conds.append(ch.Cond('h_c05', 'alias_targets',
                         [('tkind', 'int'), ('depth', 'int'), ('skip_alias', 'bool'), ('use', 'int')],
                         pre=['0 <= tkind < %d' % NT, '0 <= depth <= 1', '0 <= use <= 3'], timeout=T,
                         name='aliases', bounds='typedef of every type, alias of alias, (skip), used as '
                                                'parameter/return/field'))
    conds.append(ch.Cond('h_c05', 'rename_to', [('target', 'int'), ('second', 'int'), ('skip_target', 'bool')],
                         pre=['0 <= target <= 4', '0 <= second <= 4'], timeout=T, name='rename-to',
                         bounds='two (rename-to) annotations naming existing, missing, each other, themselves'))
    return conds


def run(report, tier, seed, only=None):
    ch.ensure_venv()
    for f, names in FUNCS:
        report.encode(f, *names)
    report.assume(
        'C lexer (giscanner._giscanner) replaced by plain declaration records fed to the real SourceSymbol/SourceType wrappers',
        'comment blocks are built as GtkDocCommentBlock objects (the comment parser has its own properties)',
        'runtime dump: the subprocess is replaced by a fake element tree handed to the real GDumpParser',
        'dependency namespaces GLib/GObject/Gio are ast.Namespace fragments placed in transformer._parsed_includes',
        'MessageLogger replaced by a recorder; cache disabled',
        'a run that ends in a fatal diagnostic or a crash emits no GIR and is counted as holding',
        'oracle: harness/py/spec_closure.py (gpointer element = missing element type for parameters and return '
        'values only; shipped GIR files carry gpointer-element lists in fields)')
    _validate_oracle(report)
    conds = conditions(tier)
    if only:
        conds = [c for c in conds if only in c.name]
    ch.run('C05', conds, report, seed=seed)


def _validate_oracle(report):
    """The structural oracle is run over every GIR file in the repository (concrete;
    calibration of the oracle, not solver evidence)."""
    import glob
    import os
    import giradapt
    import spec_closure
    files = sorted(set(glob.glob(os.path.join(common.REPO, 'gir', '*.gir')) +
                       glob.glob(os.path.join(common.REPO, 'tests', '**', '*.gir'), recursive=True)))
    docs = {}
    inc = {}
    for f in files:
        try:
            d = giradapt.load(f)
        except Exception:
            continue
        docs[f] = d
        for k, v in giradapt.definitions(d).items():
            inc.setdefault(k, {}).update(v)
    bad = {}
    for f, d in docs.items():
        errs = spec_closure.check_tree(d, inc, lenient_includes=True)
        if errs:
            bad[os.path.basename(f)] = errs[:5]
    report.validation['gir_files_walked'] = len(docs)
    report.validation['gir_files_with_oracle_complaints'] = bad
    report.validation['concrete_agreements'] = len(docs) - len(bad)
    report.notes.append('oracle calibration: spec_closure.check_tree over %d GIR files of the repository '
                        '(names in namespaces not shipped here are not decided): complaints in %r'
                        % (len(docs), sorted(bad)))


def replay(payload):
    rp = ch.replay(payload['module'], payload['fn'], payload['kwargs'])
    print(rp)
    return 1 if rp.get('ok') is False else 0
