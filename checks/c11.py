"""C11 — comment parsing never aborts, and its diagnostics point at the source."""
import sys

from vlib import ch, common

sys.path.insert(0, ch.HARNESS_DIR)

FUNCS = [('giscanner/annotationparser.py',
          ['GtkDocCommentBlockParser.parse_comment_blocks (catch-all)', 'parse_comment_block (lineno, column_offset, '
           'marker_pos, original_line)', '_parse_fields', '_parse_annotations', '_parse_annotation',
           '_parse_annotation_options_list', '_parse_annotation_options_dict', '_parse_annotation_options_unknown',
           'GtkDocAnnotatable.validate', '_do_validate_* (all)', 'GtkDocAnnotations.copy']),
         ('giscanner/message.py', ['MessageLogger.log (counting, suppression)', 'warn', 'error'])]


def conditions(tier):
    import h_c11 as H
    quick = tier == 'quick'
    T = 240 if quick else 1500
    conds = []
    conds.append(ch.Cond('h_c11', 'special', [('k', 'int')], pre=['0 <= k < %d' % len(H.SPECIAL)], timeout=T,
                         name='degenerate blocks',
                         bounds='%d degenerate comment texts: empty, one-line, unterminated, start/end tokens with code or '
                                'text around them, extra asterisks, CR line ends, NUL, 40 nested / repeated parentheses'
                                % len(H.SPECIAL)))
    # 0-1 body lines: all first lines x all lines x both line endings
    for eol in (0, 1):
        conds.append(ch.Cond('h_c11', 'malformed', [('f', 'int'), ('l1', 'int'), ('n', 'int')],
                             pre=['0 <= f < %d' % H.N_FIRST, '0 <= l1 < %d' % H.N_LINES, '0 <= n <= 1'],
                             fixed=dict(l2=0, l3=0, eol=eol), timeout=T, name='malformed[1 line, %s]' % ('LF', 'CRLF')[eol],
                             bounds='%d first lines x %d following lines, %s line ends' % (H.N_FIRST, H.N_LINES, ('LF', 'CRLF')[eol])))
    # 2 body lines, partitioned by first line
    firsts = (0, 2, 5, 10, 18, 20, 24, 29) if quick else range(H.N_FIRST)
    for f in firsts:
        conds.append(ch.Cond('h_c11', 'malformed', [('l1', 'int'), ('l2', 'int')],
                             pre=['0 <= l1 < %d' % H.N_LINES, '0 <= l2 < %d' % H.N_LINES],
                             fixed=dict(f=f, l3=0, n=2, eol=0), timeout=T, name='malformed[2 lines after %r]' % H.FIRST[f],
                             bounds='first line %r followed by every ordered pair of the %d vocabulary lines'
                                    % (H.FIRST[f], H.N_LINES)))
    if not quick:
        for f in (0, 2, 10, 20):
            for l1 in range(0, H.N_LINES, 6):
                conds.append(ch.Cond('h_c11', 'malformed', [('l1', 'int'), ('l2', 'int'), ('l3', 'int')],
                                     pre=['%d <= l1 < %d' % (l1, min(l1 + 6, H.N_LINES)), '0 <= l2 < %d' % H.N_LINES,
                                          '0 <= l3 < %d' % H.N_LINES],
                                     fixed=dict(f=f, n=3, eol=0), timeout=T,
                                     name='malformed[3 lines after %r, first of them %d..%d]' % (H.FIRST[f], l1, l1 + 5),
                                     bounds='first line %r followed by every ordered triple of vocabulary lines' % (H.FIRST[f],)))
    for ew in (False, True):
        conds.append(ch.Cond('h_c11', 'counting', [('f', 'int'), ('l1', 'int'), ('l2', 'int')],
                             pre=['f in (0, 2, 5, 10, 20)' if quick else '0 <= f < %d' % H.N_FIRST, '0 <= l1 < %d' % H.N_LINES,
                                  'l2 in (0, 12, 36, 50)'],
                             fixed=dict(enable_warnings=ew), timeout=T,
                             name='counting[display %s]' % ('on' if ew else 'suppressed'),
                             bounds='the real MessageLogger with display %s: the warning count equals the number of '
                                    'diagnostics the parser issues' % ('enabled' if ew else 'suppressed')))
    return conds


def run(report, tier, seed, only=None):
    ch.ensure_venv()
    for f, names in FUNCS:
        report.encode(f, *names)
    report.assume(
        'comment texts are assembled from a vocabulary of %s first lines and %s following lines (well-formed and malformed) '
        'chosen by integer inputs; arbitrary strings are outside the bounds (DESIGN section 1: CrossHair cannot drive '
        'symbolic strings through the regex state machine)' % ('30', '78'),
        'as in the statement: line numbers are checked for blocks whose opening token stands alone on its line; carets are '
        'not checked for deprecated tag-style annotation lines',
        'an internal exception turned into the "unrecoverable parse error" diagnostic by parse_comment_blocks is a logged '
        'error and is not counted as a violation')
    conds = conditions(tier)
    if only:
        conds = [c for c in conds if only in c.name]
    ch.run('C11', conds, report, seed=seed)


def replay(payload):
    rp = ch.replay(payload['module'], payload['fn'], payload['kwargs'])
    print(rp)
    return 1 if rp.get('ok') is False else 0
