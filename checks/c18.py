"""C18 — the dependency-GIR cache never serves stale or torn data (engine SCHED)."""
import json
import multiprocessing
import os
import shutil
import sys
import tempfile
import time

from vlib import common
from vlib.common import Item

PI, M, L, S, P = (('parse_include', None), ('modify', None), ('load', None), ('store', None), ('purge', None))
VL = ('vload', None)

KEY_SAME_TS = 'stale-entry-same-timestamp'
KEY_STORE_AFTER_MODIFY = 'store-after-source-modified'
KEY_COPY_WINDOW = 'cross-device-move-exposes-copy-time-stamp'
KEYS = (KEY_SAME_TS, KEY_STORE_AFTER_MODIFY, KEY_COPY_WINDOW)

FUNCS = [('giscanner/cachestore.py',
          ['CacheStore._check_cache_version', 'CacheStore._get_filename', 'CacheStore._cache_is_valid',
           'CacheStore._remove_filename', 'CacheStore._clean', 'CacheStore.store', 'CacheStore.load']),
         ('giscanner/transformer.py', ['Transformer._parse_include (call pattern: load; on a miss parse and store)'])]


def scenarios(tier):
    """(name, scenario, fine_clock, time limit seconds)"""
    q = tier == 'quick'
    out = [
        ('1 parse-include + 1 modification, fresh entry', dict(ops=[PI, M], initial_entry='ok'), True, 60),
        ('1 parse-include + 1 modification, fresh entry, coarse clock', dict(ops=[PI, M], initial_entry='ok'), False, 60),
        ('2 parse-includes + 1 modification, fresh entry', dict(ops=[PI, PI, M], initial_entry='ok'), True, 100),
        ('2 parse-includes + 1 modification, no entry', dict(ops=[PI, PI, M], initial_entry=None), True, 140),
        ('parse-include, modification, load, no entry', dict(ops=[PI, M, L], initial_entry=None), True, 100),
        ('load + store, either device layout, 1 crash', dict(ops=[L, S], initial_entry='ok', cross_device_option=True,
                                                          kills=1), True, 100),
        ('load + store, torn entry, either device layout, 1 crash',
         dict(ops=[L, S], initial_entry='torn', cross_device_option=True, kills=1), True, 100),
        ('parse-include, modification, load, no entry, either device layout',
         dict(ops=[PI, M, L], initial_entry=None, cross_device_option=True), True, 140),
        ('2 parse-includes, either device layout, 1 crash', dict(ops=[PI, PI], initial_entry=None,
                                                               cross_device_option=True, kills=1), True, 140),
        ('load + version change + store', dict(ops=[L, P, S], initial_entry='ok'), True, 140),
        ('parse-include + version change, 1 crash', dict(ops=[PI, P], initial_entry='ok', kills=1), True, 140),
        ('2 parse-includes + 1 modification, fresh entry, coarse clock', dict(ops=[PI, PI, M], initial_entry='ok'),
         False, 140),
        ('2 loads, torn entry', dict(ops=[L, L], initial_entry='torn'), True, 100),
        ('load + version change, torn entry', dict(ops=[L, P], initial_entry='torn'), True, 100),
        ('2 version changes', dict(ops=[P, P], initial_entry='ok'), True, 100),
        ('version change (may crash) + start of a new-version scanner that loads',
         dict(ops=[P, VL], initial_entry='ok', kills=1), True, 140),
        ('2 new-version scanners start and load, 1 crash', dict(ops=[VL, VL], initial_entry='ok', kills=1), True, 140),
    ]
    if not q:
        out = [(n, s, f, 1300) for (n, s, f, t) in out]
        out += [
            ('2 parse-includes + 1 modification, torn entry, 1 crash',
             dict(ops=[PI, PI, M], initial_entry='torn', kills=1), True, 1300),
            ('2 parse-includes + load, either device layout', dict(ops=[PI, PI, L], initial_entry=None,
                                                                 cross_device_option=True), True, 1300),
            ('3 parse-includes, fresh entry, 1 crash', dict(ops=[PI, PI, PI], initial_entry='ok', kills=1), True, 1300),
            ('2 parse-includes + 2 modifications, no entry', dict(ops=[PI, PI, M, M], initial_entry=None), True, 1300),
            ('2 parse-includes + version change', dict(ops=[PI, PI, P], initial_entry='ok'), True, 1300),
            ('parse-include + load + modification, coarse clock', dict(ops=[PI, L, M], initial_entry='ok'), False, 1300),
            ('2 parse-includes + modification, no entry, either device layout, 1 crash',
             dict(ops=[PI, PI, M], initial_entry=None, cross_device_option=True, kills=1), True, 1300),
        ]
    return out


# ------------------------------------------------------------------------------
# classification of violations into recorded findings

def _classify_store_after_modify(text, eng):
    """The served entry was written by an operation whose parse preceded a modification of
    the source that preceded its own write of the entry."""
    from vlib import sched
    for th in eng.threads:
        res = th.result
        if not isinstance(res, dict):
            continue
        got = res.get('loaded')
        if not isinstance(got, sched.Parse) or got.by == 'initial':
            continue
        if ('operation %d:' % th.idx) not in text:
            continue
        by = got.by
        reads = [x[4] for x in eng.trace if x[0] == 'step' and x[1] == by and x[2] == 'read-src']
        writes = [x[4] for x in eng.trace if x[0] == 'step' and x[2] == 'write-src']
        puts = [x[4] for x in eng.trace if x[0] == 'step' and x[1] == by and x[2] in ('write-tmp', 'rename', 'open-trunc')]
        for r in reads:
            for w in writes:
                if r < w and any(w < p for p in puts):
                    return KEY_STORE_AFTER_MODIFY
    return None


def _classify_copy_window(text, eng):
    """The served entry was being moved into place across devices (truncate + chunked writes, then
    copystat): written to its temporary file before a modification of the source, copied after it, and
    validated by the load after a write of the copy and before the copystat that restores the older stamp."""
    from vlib import sched
    inf = 10 ** 9
    for th in eng.threads:
        res = th.result
        if not isinstance(res, dict):
            continue
        got = res.get('loaded')
        if not isinstance(got, sched.Parse) or got.by == 'initial':
            continue
        if ('operation %d:' % th.idx) not in text:
            continue
        by = got.by
        steps = [x for x in eng.trace if x[0] == 'step']
        if not any(x[1] == by and x[2] == 'open-trunc' for x in steps):
            continue
        reads = [x[4] for x in steps if x[1] == by and x[2] == 'read-src']
        tmps = [x[4] for x in steps if x[1] == by and x[2] == 'write-tmp']
        mods = [x[4] for x in steps if x[2] == 'write-src']
        copies = [x[4] for x in steps if x[1] == by and x[2] == 'write']
        cstat = min([x[4] for x in steps if x[1] == by and x[2] == 'copystat'] or [inf])
        fstats = [x[4] for x in steps if x[1] == th.idx and x[2] == 'fstat']
        for w in mods:
            if any(r < w for r in reads) and any(t < w for t in tmps) \
                    and any(w < c < f < cstat for c in copies for f in fstats):
                return KEY_COPY_WINDOW
    return None


def _worker(args):
    name, sc, fine, tlimit, seed = args
    sys.path.insert(0, common.VERIF)
    from vlib import gistub  # noqa: F401  (dummy _giscanner, sys.path for /repo)
    from vlib import sched
    t0 = time.time()

    def classify(text, eng):
        if 'not current at any moment' in text:
            k = _classify_store_after_modify(text, eng) or _classify_copy_window(text, eng)
            if k:
                return k
            if not fine and any(x[0] == 'clock' for x in eng.trace):
                # does it survive when no two writes share a timestamp?
                vec = sched.decision_vector(eng.guide)
                sched_only = [(k2, i) for (k2, i) in vec if k2 != 'clock']
                e2 = _replay_schedule(sc, eng, True)
                if e2 is not None and not e2.violations:
                    return KEY_SAME_TS
        return 'unclassified: ' + text
    res = sched.explore(sc, fine_clock=fine, time_limit=tlimit, seed=seed, classify=classify)
    out = {'name': name, 'runs': res.runs, 'blocked': res.blocked, 'queries': res.queries,
           'solver_s': round(res.solver_s, 2), 'exhausted': res.exhausted, 'errors': res.errors[:3],
           'max_depth': res.max_depth, 'seconds': round(time.time() - t0, 1), 'violations': []}
    for text, vec, trace, key in res.violations:
        out['violations'].append({'text': text, 'vector': vec, 'key': key,
                                  'trace': [list(map(str, x)) for x in trace][:80]})
    return out


def _replay_schedule(sc, eng, fine):
    """Re-run the thread choices of eng's run under the other clock model."""
    from vlib import sched
    order = [x[1] for x in eng.trace if x[0] in ('step', 'kill')]
    kills = [(x[1]) for x in eng.trace if x[0] == 'kill']
    e2 = sched.Engine(sc, [], fine_clock=fine)
    it = iter([x for x in eng.trace if x[0] in ('step', 'kill')])
    orig = e2._decide

    def forced(kind, options, labels=None):
        if kind == 'sched':
            while True:
                try:
                    x = next(it)
                except StopIteration:
                    c = options[0]
                    break
                c = ('kill', x[1]) if x[0] == 'kill' else x[1]
                if c in options:
                    break
            fr = sched.Frame(kind, options, labels)
            fr.chosen = c
            e2.guide.append(fr)
            e2.depth += 1
            return c
        if kind == 'device':
            fr = sched.Frame(kind, options, labels)
            fr.chosen = eng.same_device
            e2.guide.append(fr)
            e2.depth += 1
            return fr.chosen
        return orig(kind, options, labels)
    e2._decide = forced
    try:
        e2.run()
    except Exception:
        return None
    return e2


# ------------------------------------------------------------------------------
# validation of the fake file-system layer against the real one

def _real_sequence(seq):
    """Run a sequential history with the real CacheStore on the real file system."""
    code = r'''
import os, sys, json, time, tempfile, shutil
seq = json.loads(sys.argv[1])
d = tempfile.mkdtemp(prefix='c18-real-')
os.environ['XDG_CACHE_HOME'] = os.path.join(d, 'cache')
os.environ.pop('GI_SCANNER_DISABLE_CACHE', None)
sys.path.insert(0, %r)
from giscanner import cachestore
ver = ['hash-A']
cachestore._get_versionhash = lambda: ver[0]
src = os.path.join(d, 'Dep-1.0.gir')
version = [1]
clock = [time.time() - 1000]
def tick(path):
    clock[0] += 10
    os.utime(path, (clock[0], clock[0]))
open(src, 'w').write('v1'); tick(src)
cs = cachestore.CacheStore()
out = []
def stamp_entry():
    p = cs._get_filename(src)
    if os.path.exists(p) and os.stat(p).st_mtime > clock[0] + 500:
        tick(p)
for op in seq:
    if op == 'modify':
        version[0] += 1
        open(src, 'w').write('v%%d' %% version[0]); tick(src)
    elif op == 'load':
        r = cs.load(src); out.append(r)
    elif op == 'store':
        cs.store(src, version[0]); stamp_entry()
    elif op == 'parse_include':
        r = cs.load(src); out.append(r)
        if r is None:
            cs.store(src, version[0]); stamp_entry()
    elif op == 'purge':
        ver[0] = 'hash-B'
        cs = cachestore.CacheStore()
shutil.rmtree(d)
print('@@' + json.dumps(out))
''' % (common.REPO,)
    import subprocess
    p = subprocess.run([common.REPO_PY, '-c', code, json.dumps(seq)], capture_output=True, text=True, timeout=120)
    k = p.stdout.rfind('@@')
    if k < 0:
        return None, p.stderr[-500:]
    return json.loads(p.stdout[k + 2:]), None


def _fake_sequence(seq):
    from vlib import sched
    ops = [(o, None) for o in seq]
    eng = sched.Engine(dict(ops=ops, initial_entry=None), [], fine_clock=True)
    orig = eng._decide

    def forced(kind, options, labels=None):
        if kind == 'sched':
            c = min(o for o in options if not isinstance(o, tuple))
            fr = sched.Frame(kind, options, labels)
            fr.chosen = c
            eng.guide.append(fr)
            eng.depth += 1
            return c
        if kind == 'clock':
            # the real run spaces its time stamps 10 s apart: truncated values stay distinct
            import re
            a, b = map(int, re.findall(r'\d+', labels['cmp']))
            fr = sched.Frame(kind, options, labels)
            fr.chosen = a >= b
            eng.guide.append(fr)
            eng.depth += 1
            return fr.chosen
        return orig(kind, options, labels)
    eng._decide = forced
    eng.run()
    out = []
    for th in eng.threads:
        if th.kind in ('load', 'parse_include'):
            got = th.result.get('loaded') if isinstance(th.result, dict) else 'ERR %r' % (th.exc,)
            out.append(got.version if isinstance(got, sched.Parse) else got)
    return out, eng


def validate_layer(report):
    import itertools
    sys.path.insert(0, common.VERIF)
    from vlib import gistub  # noqa: F401
    agree = 0
    bad = []
    names = ('parse_include', 'modify', 'load', 'store', 'purge')
    seqs = []
    for n in (1, 2, 3):
        for seq in itertools.product(names, repeat=n):
            if seq.count('purge') <= 1:
                seqs.append(list(seq))
    for seq in seqs:
        real, err = _real_sequence(seq)
        fake, _ = _fake_sequence(seq)
        if real is None:
            bad.append({'seq': seq, 'error': err})
        elif real != fake:
            bad.append({'seq': seq, 'real': real, 'fake': fake})
        else:
            agree += 1
    report.validation['sequential_histories_compared'] = len(seqs)
    report.validation['concrete_agreements'] = agree
    report.validation['disagreements'] = bad[:5]
    if bad:
        report.add(Item('fake file-system layer vs real file system', 'SCHED', common.ERROR,
                        detail='sequential histories on which the real CacheStore over the real file system and the '
                               'engine disagree: %r' % (bad[:3],)))


def reproduce_known_on_real_fs():
    """The recorded finding classes, replayed with the real code on the real file system."""
    out = {}
    r, _ = _real_sequence(['parse_include', 'load'])
    # store-after-modify: parse v1, source modified, store, later load
    code_b = r'''
import os, sys, time, tempfile, shutil
d = tempfile.mkdtemp(prefix='c18-real-'); os.environ['XDG_CACHE_HOME'] = os.path.join(d, 'cache')
os.environ.pop('GI_SCANNER_DISABLE_CACHE', None); sys.path.insert(0, %r)
from giscanner import cachestore
cachestore._get_versionhash = lambda: 'hash-A'
src = os.path.join(d, 'Dep-1.0.gir'); t0 = time.time() - 1000
open(src, 'w').write('v1'); os.utime(src, (t0, t0))
cs = cachestore.CacheStore()
assert cs.load(src) is None
parsed = open(src).read()                 # parse of v1
open(src, 'w').write('v2'); os.utime(src, (t0 + 10, t0 + 10))     # source modified meanwhile
cs.store(src, 'parse-of-' + parsed)       # entry written now: newer than the source
got = cs.load(src)
print('B', got)
# same timestamp: entry and a later modification within one timestamp granule
os.unlink(cs._get_filename(src))
open(src, 'w').write('v3'); os.utime(src, (t0 + 20, t0 + 20))
cs.store(src, 'parse-of-v3'); e = cs._get_filename(src); os.utime(e, (t0 + 30, t0 + 30))
open(src, 'w').write('v4'); os.utime(src, (t0 + 30, t0 + 30))
print('S', cs.load(src))
shutil.rmtree(d)
''' % (common.REPO,)
    import subprocess
    p = subprocess.run([common.REPO_PY, '-c', code_b], capture_output=True, text=True, timeout=120)
    out['store-after-modify: load after parse(v1), modify, store returns'] = \
        [l[2:] for l in p.stdout.splitlines() if l.startswith('B ')]
    out['same-timestamp: load after store and modification with equal mtime returns'] = \
        [l[2:] for l in p.stdout.splitlines() if l.startswith('S ')]
    out['stderr'] = p.stderr[-300:]
    # cross-device move: temporary file on another device than the cache directory; a second CacheStore (another
    # scanner process) loads between the copy and the copystat of shutil.move
    code_c = r'''
import os, sys, time, tempfile, shutil
d = tempfile.mkdtemp(prefix='c18-real-'); other = '/dev/shm'
if not os.path.isdir(other) or os.stat(other).st_dev == os.stat(d).st_dev:
    print('C no second device here'); shutil.rmtree(d); sys.exit(0)
td = tempfile.mkdtemp(prefix='c18-tmp-', dir=other); tempfile.tempdir = td
os.environ['XDG_CACHE_HOME'] = os.path.join(d, 'cache')
os.environ.pop('GI_SCANNER_DISABLE_CACHE', None); sys.path.insert(0, %r)
from giscanner import cachestore
cachestore._get_versionhash = lambda: 'hash-A'
src = os.path.join(d, 'Dep-1.0.gir'); t0 = time.time() - 1000
open(src, 'w').write('v1'); os.utime(src, (t0, t0))
cs = cachestore.CacheStore(); other_process = cachestore.CacheStore()
assert cs.load(src) is None
parsed = open(src).read()
real_move, real_copystat = shutil.move, shutil.copystat
def move(a, b, *r, **kw):                  # after the temporary file is written: the source is modified
    time.sleep(0.05); open(src, 'w').write('v2'); time.sleep(0.05)
    return real_move(a, b, *r, **kw)
def copystat(a, b, *r, **kw):              # after the copy, before the stamp of the temporary file is restored
    print('C during the move:', other_process.load(src))
    return real_copystat(a, b, *r, **kw)
shutil.move, shutil.copystat = move, copystat
cs.store(src, 'parse-of-' + parsed)
shutil.move, shutil.copystat = real_move, real_copystat
print('C after the move:', other_process.load(src))
shutil.rmtree(d); shutil.rmtree(td)
''' % (common.REPO,)
    p = subprocess.run([common.REPO_PY, '-c', code_c], capture_output=True, text=True, timeout=120)
    out['cross-device move: load by another CacheStore (source modified after the temporary file was written)'] = \
        [l[2:] for l in p.stdout.splitlines() if l.startswith('C ')]
    out['stderr_c'] = p.stderr[-300:]
    return out


# ------------------------------------------------------------------------------

def run(report, tier, seed, only=None):
    for f, names in FUNCS:
        report.encode(f, *names)
    report.assume(
        'file system: POSIX semantics in memory (directory entries -> inodes, open files keep their inode across '
        'rename/unlink, rename atomic, copy across devices = truncate in place + chunked writes + copystat + unlink)',
        'pickle.dump writes two equal-size chunks; loading an incomplete or mixed-version stream fails or yields an '
        'object that is not a parse (the real pickle format ends in a STOP opcode)',
        'clock: every write event k happens at t_k with t_1 <= t_2 <= ... (coarse-clock items: equal values model one '
        'timestamp granule) or t_1 < t_2 < ... (other items); a modification stamps the current clock value',
        'a crash (kill) stops an operation at any of its scheduling points; private temp files written by it remain',
        'private temporary files are invisible to other operations until moved into place; their creation and all '
        'but their last write are not scheduling points',
        'sleep-set partial-order reduction with the independence relation of vlib/sched.py (steps commute unless one '
        'writes what the other touches; all writes conflict through the clock; steps of a load conflict with source '
        'modifications and purges because the oracle observes their order)')
    sys.path.insert(0, common.VERIF)
    validate_layer(report)
    scs = scenarios(tier)
    if only:
        scs = [s for s in scs if only in s[0]]
    jobs = [(n, s, f, t, seed) for (n, s, f, t) in scs]
    with multiprocessing.Pool(min(16, len(jobs) or 1)) as pool:
        results = pool.map(_worker, jobs)
    for (n, sc, fine, tl), r in zip(scs, results):
        bounds = 'operations %s; initial entry %s; %s clock; %s%s' % (
            '+'.join(o[0] for o in sc['ops']), sc.get('initial_entry'), 'fine' if fine else 'coarse',
            'either device layout; ' if sc.get('cross_device_option') else 'one device; ',
            '%d crash' % sc.get('kills', 0))
        base = dict(engine='SCHED', bounds=bounds, paths=r['runs'], queries=r['queries'], seconds=r['solver_s'])
        if r['errors']:
            report.add(Item(n, verdict=common.ERROR, detail='engine: %r' % (r['errors'],), **base))
            continue
        vio = r['violations']
        if not r['exhausted'] and not vio:
            report.add(Item(n, verdict=common.INCONCLUSIVE,
                            detail='not exhausted within %ss (%d executions, none violating)' % (tl, r['runs']), **base))
            continue
        if not vio:
            report.add(Item(n, verdict=common.CONFIRMED,
                            detail='all %d executions (%d sleep-set blocked), depth <= %d, %d z3 queries'
                            % (r['runs'], r['blocked'], r['max_depth'], r['queries']),
                            sample={'executions': r['runs'], 'max_decisions': r['max_depth']}, **base))
            continue
        for k, v in enumerate(vio):
            key = v['key'] if v['key'] in KEYS else None
            payload = {'property': 'C18', 'engine': 'SCHED', 'scenario': sc, 'fine_clock': fine,
                       'vector': v['vector'], 'text': v['text'], 'trace': v['trace']}
            path = common.write_replay('C18', '%s_%d' % (n, k), payload)
            report.add(Item('%s [violation %d]' % (n, k), verdict=common.REFUTED,
                            detail=v['text'] + ' | steps: ' + ' '.join('%s:%s' % (x[1], x[2]) for x in v['trace']
                                                                     if x[0] == 'step'),
                            sample={'history': v['trace'][:40]}, replay=path, finding_key=key, **base))
        if not r['exhausted']:
            report.notes.append('%s: exploration stopped at the time limit after %d executions' % (n, r['runs']))
    report.extra['known_classes_on_real_file_system'] = reproduce_known_on_real_fs()


def replay(payload):
    sys.path.insert(0, common.VERIF)
    from vlib import gistub  # noqa: F401
    from vlib import sched
    sc = payload['scenario']
    sc['ops'] = [tuple(o) for o in sc['ops']]
    eng = sched.replay_vector(sc, [tuple(v) for v in payload['vector']], fine_clock=payload['fine_clock'])
    for x in eng.trace:
        print(x)
    print('violations:', eng.violations)
    return 1 if eng.violations else 0
