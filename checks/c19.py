"""C19 — library names resolve to the right shared objects or fail loudly."""
import concurrent.futures
import os
import re
import sys
import time

from vlib import ch, common
from vlib.common import Item

sys.path.insert(0, ch.HARNESS_DIR)
if common.REPO not in sys.path:
    sys.path.insert(0, common.REPO)

SENT = ''
NAMECLASS = 'A-Za-z0-9_-'


# ---------------------------------------------------------------------------
# executable statement of the property (concrete; used for replay/validation)

def spec_matches(name, word):
    """word's base name is lib<name> followed by a character other than a
    letter, digit, underscore, hyphen (ASCII, as the statement lists them)."""
    base = word.rsplit('/', 1)[-1]
    pre = 'lib' + name
    if not base.startswith(pre) or len(base) <= len(pre):
        return False
    c = base[len(pre)]
    return not (c.isascii() and (c.isalnum() or c in '_-'))


def impl_matches(name, word):
    from giscanner import shlibs
    return shlibs._ldd_library_pattern(name).match(word) is not None


# ---------------------------------------------------------------------------
# z3 queries (each runs in its own process)

def _setup(nlen_eq, nlen_max, wlen_max):
    import z3
    from vlib import zre
    from giscanner import shlibs
    pat = shlibs._ldd_library_pattern(SENT)
    name = z3.String('name')
    w = z3.String('w')
    L = zre.match_language(pat, splice={ord(SENT): z3.Re(name)})
    cons = [z3.Length(w) <= wlen_max,
            z3.Not(z3.Contains(name, z3.StringVal('/'))),
            z3.Not(z3.Contains(name, z3.StringVal('\n'))),
            z3.Not(z3.Contains(w, z3.StringVal('\n')))]
    if nlen_eq is not None:
        cons.append(z3.Length(name) == nlen_eq)
    else:
        cons.append(z3.Length(name) <= nlen_max)
    return z3, zre, name, w, L, cons


def _forbidden_re(zre):
    return zre.ranges_to_re(zre._norm([(ord('A'), ord('Z')), (ord('a'), ord('z')),
                                       (ord('0'), ord('9')), (95, 95), (45, 45), (47, 47)]))


def q_strspec(direction, nlen, wlen, timeout, seed):
    """Equivalence with the statement written with string operations (base name =
    text after the last '/', prefix, next character class)."""
    z3, zre, name, w, L, cons = _setup(nlen, None, wlen)
    p, b = z3.String('p'), z3.String('b')
    libname = z3.Concat(z3.StringVal('lib'), name)
    c = z3.SubString(b, z3.Length(libname), 1)
    phi = z3.And(z3.PrefixOf(libname, b), z3.Length(b) > z3.Length(libname),
                 z3.Not(z3.InRe(c, _forbidden_re(zre))))
    q = zre.Query('strspec', timeout, seed)
    q.add(*cons)
    q.add(w == z3.Concat(p, b), z3.Or(p == z3.StringVal(''), z3.SuffixOf(z3.StringVal('/'), p)),
          z3.Not(z3.Contains(b, z3.StringVal('/'))))
    if direction == 'impl<=spec':
        q.add(z3.InRe(w, L), z3.Not(phi))
    else:
        q.add(z3.Not(z3.InRe(w, L)), phi)
    r = q.check()
    out = {'result': r, 'seconds': q.seconds}
    if r == 'sat':
        m = q.model()
        out['name'] = zre.unescape_z3(zre.sval(m, name))
        out['word'] = zre.unescape_z3(zre.sval(m, w))
    return out


def q_rexspec(direction, nlen_max, wlen, timeout, seed):
    """Equivalence with the statement written as a regular expression:
    (anything '/')? 'lib' name [^A-Za-z0-9_-/] [^/]*  (independently of the source pattern)."""
    z3, zre, name, w, L, cons = _setup(None, nlen_max, wlen)
    nonl = zre.ranges_to_re(zre._complement([(10, 10)]))
    noslash = zre.ranges_to_re(zre._complement([(47, 47), (10, 10)]))
    after = zre.ranges_to_re(zre._complement(zre._norm(
        [(65, 90), (97, 122), (48, 57), (95, 95), (45, 45), (47, 47), (10, 10)])))
    spec = z3.Concat(z3.Option(z3.Concat(z3.Star(nonl), z3.Re(z3.StringVal('/')))),
                     z3.Re(z3.StringVal('lib')), z3.Re(name), after, z3.Star(noslash))
    q = zre.Query('rexspec', timeout, seed)
    q.add(*cons)
    if direction == 'impl<=spec':
        q.add(z3.InRe(w, L), z3.Not(z3.InRe(w, spec)))
    else:
        q.add(z3.Not(z3.InRe(w, L)), z3.InRe(w, spec))
    r = q.check()
    out = {'result': r, 'seconds': q.seconds}
    if r == 'sat':
        m = q.model()
        out['name'] = zre.unescape_z3(zre.sval(m, name))
        out['word'] = zre.unescape_z3(zre.sval(m, w))
    return out


CONSEQUENCES = [
    # (requested name, regex of words that must NOT resolve to it) — any length
    ('pango', r'(.*/)?libpangoft2[^/]*'),
    ('pango', r'(.*/)?libpangocairo[^/]*'),
    ('pango', r'(.*/)?libpango-1\.0/[^/l][^/]*'),    # pango-1.0's directory (file inside not itself lib...)
    ('pango', r'(.*/)?libpango[^/]*/[^/l][^/]*'),    # any directory named libpango*
    ('foo', r'(.*/)?libfoo-bar[^/]*'),
    ('foo', r'(.*/)?libfoo_bar[^/]*'),
    ('foo', r'(.*/)?liblibfoo[^/]*'),
    ('foo', r'(.*/)?[^/l][^/]*libfoo[^/]*'),         # lib not at the start of the base name
    ('foo', r'(.*/)?libfoo'),                        # nothing after the name
    ('foo', r'(.*/)?libFOO\.so'),                    # case matters
    ('a.b', r'(.*/)?libaxb\.so[^/]*'),               # metacharacter in the name is literal
    ('c++', r'(.*/)?libc\.so[^/]*'),
    ('c++', r'(.*/)?libccc\.so[^/]*'),
    ('x[y]', r'(.*/)?libxy\.so'),
]
MUST_MATCH = [
    ('pango', r'(.*/)?libpango\.so(\.[0-9]+)*'),
    ('pango-1.0', r'(.*/)?libpango-1\.0\.so(\.[0-9]+)*'),
    ('foo', r'(.*/)?libfoo\.[0-9]+\.dylib'),
    ('c++', r'(.*/)?libc\+\+\.so\.1'),
    ('a.b', r'(.*/)?liba\.b\.so'),
    ('x[y]', r'(.*/)?libx\[y\]\.dll'),
]


def q_consequence(kind, idx, timeout, seed):
    import z3
    from vlib import zre
    from giscanner import shlibs
    lst = CONSEQUENCES if kind == 'never' else MUST_MATCH
    name, other = lst[idx]
    L = zre.match_language(shlibs._ldd_library_pattern(name))
    O = zre.match_language(re.compile(other), mode='fullmatch')
    w = z3.String('w')
    q = zre.Query('conseq', timeout, seed)
    nonl = z3.Star(zre.ranges_to_re(zre._complement([(10, 10)])))
    if kind == 'never':
        q.add(z3.InRe(w, z3.Intersect(L, O, nonl)))
    else:
        q.add(z3.InRe(w, z3.Intersect(z3.Complement(L), O, nonl)))
    r = q.check()
    out = {'result': r, 'seconds': q.seconds, 'name': name}
    if r == 'sat':
        out['word'] = zre.unescape_z3(zre.sval(q.model(), w))
    return out


def q_libtool(direction, xlen, timeout, seed):
    """_libtool_pat: a .la text with one dlname='X' line yields X (X over [A-Za-z0-9_.+-])."""
    import z3
    from vlib import zre
    from giscanner import utils
    pat = utils._libtool_pat
    body, a0, a1 = zre.translate(pat)
    if a0 or a1:
        return {'result': 'error', 'seconds': 0, 'detail': 'unexpected anchors'}
    import re._parser as P
    import re._constants as C
    tree = list(P.parse(pat.pattern, pat.flags))
    # pieces: literal prefix, one capturing group, literal suffix
    gi = [i for i, (op, av) in enumerate(tree) if op is C.SUBPATTERN]
    if len(gi) != 1:
        return {'result': 'error', 'seconds': 0, 'detail': 'expected exactly one group'}
    tr = zre.Translator(pat.flags)

    def literal(items):
        if not all(op is C.LITERAL for op, av in items):
            raise zre.Untranslatable('libtool pattern: non-literal frame')
        return ''.join(chr(av) for op, av in items)
    lit1 = literal(tree[:gi[0]])
    lit2 = literal(tree[gi[0] + 1:])
    grp_re = tr.seq(list(tree[gi[0]][1][3]))
    data, pre, post, X = z3.String('data'), z3.String('pre'), z3.String('post'), z3.String('X')
    a, g, bb = [z3.String(n) for n in ('a', 'g', 'bb')]
    xalpha = zre.ranges_to_re(zre._norm([(65, 90), (97, 122), (48, 57), (95, 95), (46, 46),
                                         (43, 43), (45, 45)]))
    q = zre.Query('libtool', timeout, seed)
    q.add(z3.Length(X) >= 1, z3.Length(X) <= xlen, z3.InRe(X, z3.Plus(xalpha)))
    q.add(z3.Length(pre) <= 12, z3.Length(post) <= 6)
    q.add(z3.Not(z3.Contains(pre, z3.StringVal("dlname='"))))
    q.add(data == z3.Concat(pre, z3.StringVal("dlname='"), X, z3.StringVal("'\n"), post))
    if direction == 'found':
        # search() succeeds
        q.add(z3.Not(z3.InRe(data, z3.Concat(zre.ANY, body, zre.ANY))))
    elif direction == 'captured':
        # a match starting where the dlname line starts captures exactly X
        q.add(z3.Concat(g, z3.StringVal(lit2), bb) == z3.Concat(X, z3.StringVal("'\n"), post),
              z3.InRe(g, grp_re), g != X)
    else:
        # ... and no match can start earlier (leftmost match is the one search() returns)
        # = the text before the last character of our occurrence contains no occurrence
        q.add(z3.Contains(z3.Concat(pre, z3.StringVal(lit1[:-1])), z3.StringVal(lit1)))
    r = q.check()
    out = {'result': r, 'seconds': q.seconds}
    if r == 'sat':
        m = q.model()
        out['data'] = zre.unescape_z3(zre.sval(m, data))
        out['X'] = zre.unescape_z3(zre.sval(m, X))
    return out


# ---------------------------------------------------------------------------

def validate_translator(report):
    """Concrete agreement of re vs the z3 encoding, and re.escape literalness."""
    import z3
    from vlib import zre
    from giscanner import shlibs
    import re._parser as P
    import re._constants as C
    n = bad = 0
    corpus = [('foo', w) for w in
              ['libfoo.so', '/usr/lib/libfoo.so.1', 'libfoo-bar.so', 'liblibfoo.so', 'libfoo', 'libfoo/',
               '/a/libfoo.so/x', 'libfoo.1.dylib', '@rpath/libfoo.dylib', 'libfoo_x.so', 'libfoo+.so',
               'xlibfoo.so', '/libfoo.so', 'libfoo.so:', 'libFoo.so', '', 'lib', 'libfooé']]
    corpus += [('pango', w) for w in ['libpangoft2-1.0.so.0', 'libpango-1.0.so.0', 'libpango.so',
                                       '/usr/lib/libpango-1.0/foo.so', 'libpangocairo.so']]
    corpus += [('c++', 'libc++.so.1'), ('c++', 'libc.so'), ('a.b', 'libaxb.so'), ('a.b', 'liba.b.so'),
               ('x y', 'libx y.so'), ('x#y', 'libx#y.so'), ('x#y', 'libx.so')]
    w = z3.String('w')
    for name, word in corpus:
        real = impl_matches(name, word)
        L = zre.match_language(shlibs._ldd_library_pattern(name))
        s = z3.Solver()
        s.add(w == z3.StringVal(word), z3.InRe(w, L))
        enc = str(s.check()) == 'sat'
        n += 1
        if real != enc:
            # disagreement between `re` and the z3 encoding is a translator fault (exit 3);
            # whether the pattern agrees with the property is decided by the solver queries
            bad += 1
            report.notes.append('translator disagreement: %r %r re=%s z3=%s' % (name, word, real, enc))
    # the name is spliced as a literal: true iff re.escape makes every character a LITERAL
    ref = list(P.parse(shlibs._ldd_library_pattern(SENT).pattern,
                       shlibs._ldd_library_pattern(SENT).flags))
    lit_ok = 0
    for cp in list(range(1, 0x300)) + [0x2028, 0x3000, 0xe000, 0x1f600]:
        if cp in (47, 10):
            continue
        t = list(P.parse(shlibs._ldd_library_pattern(chr(cp)).pattern,
                         shlibs._ldd_library_pattern(chr(cp)).flags))
        exp = [(op, (cp if (op is C.LITERAL and av == ord(SENT)) else av)) for op, av in ref]
        if repr(t) != repr(exp):
            bad += 1
            report.notes.append('name character %r is not spliced as a literal' % (chr(cp),))
        else:
            lit_ok += 1
    report.validation['concrete_agreements'] = n + lit_ok - bad
    report.validation['corpus'] = n
    report.validation['literal_splice_chars_checked'] = lit_ok
    if bad:
        report.add(Item('translator-validation', 'validation', common.ERROR,
                        detail='; '.join(report.notes[-5:])))


def _z3_item(name, bounds, fn, args, replay_kind, report, prop='C19'):
    t0 = time.time()
    try:
        r = fn(*args)
    except Exception as e:
        return Item(name, 'ZRE', common.ERROR, bounds=bounds, detail='query crashed: %r' % (e,))
    res = r['result']
    base = dict(name=name, engine='ZRE', bounds=bounds, paths=1, queries=1, seconds=round(r['seconds'], 2))
    if res == 'unsat':
        return Item(verdict=common.CONFIRMED, detail='unsat', sample={'query': name, 'answer': 'unsat'}, **base)
    if res == 'sat':
        if replay_kind == 'pattern':
            nm, word = r['name'], r['word']
            real, spec = impl_matches(nm, word), spec_matches(nm, word)
            payload = {'property': prop, 'engine': 'ZRE', 'kind': 'pattern', 'name': nm, 'word': word,
                       'impl_matches': real, 'spec_matches': spec}
            if real != spec:
                path = common.write_replay(prop, name, payload)
                return Item(verdict=common.REFUTED, replay=path,
                            detail='name=%r word=%r: real pattern %s, property says %s' % (nm, word, real, spec),
                            sample=payload, **base)
            return Item(verdict=common.ERROR, detail='model does not replay: %r' % (payload,), **base)
        if replay_kind in ('never', 'must'):
            nm, word = r['name'], r['word']
            real = impl_matches(nm, word)
            payload = {'property': prop, 'engine': 'ZRE', 'kind': replay_kind, 'name': nm, 'word': word,
                       'impl_matches': real}
            if real == (replay_kind == 'never'):
                path = common.write_replay(prop, name, payload)
                return Item(verdict=common.REFUTED, replay=path,
                            detail='name=%r word=%r: real pattern gives %s' % (nm, word, real),
                            sample=payload, **base)
            return Item(verdict=common.ERROR, detail='model does not replay: %r' % (payload,), **base)
        if replay_kind == 'libtool':
            from giscanner import utils
            m = utils._libtool_pat.search(r['data'])
            got = m.groups()[0] if m else None
            payload = {'property': prop, 'engine': 'ZRE', 'kind': 'libtool', 'data': r['data'],
                       'dlname': r['X'], 'extracted': got}
            if got != r['X']:
                path = common.write_replay(prop, name, payload)
                return Item(verdict=common.REFUTED, replay=path,
                            detail='dlname %r extracted as %r from %r' % (r['X'], got, r['data']),
                            sample=payload, **base)
            return Item(verdict=common.ERROR, detail='model does not replay: %r' % (payload,), **base)
    return Item(verdict=common.INCONCLUSIVE, detail='solver answered %s after %.0fs' % (res, r['seconds']), **base)


def zre_jobs(tier, seed):
    jobs = []
    if tier == 'quick':
        strspec = [(1, 8), (2, 8), (3, 8)]
        to = 170
        rex = (6, 12)
    else:
        strspec = [(1, 12), (2, 12), (3, 12), (4, 12), (5, 12), (6, 12)]
        to = 1500
        rex = (10, 20)
    for nlen, wlen in strspec:
        for d in ('impl<=spec', 'spec<=impl'):
            jobs.append(('pattern[str-spec,%s,|name|=%d,|word|<=%d]' % (d, nlen, wlen),
                         'name: every string of %d characters without "/" or newline; word: every string '
                         'of <= %d characters without newline' % (nlen, wlen),
                         q_strspec, (d, nlen, wlen, to, seed), 'pattern'))
    for d in ('impl<=spec', 'spec<=impl'):
        jobs.append(('pattern[regex-spec,%s,|name|<=%d,|word|<=%d]' % (d, rex[0], rex[1]),
                     'name: every string of <= %d characters without "/" or newline; word <= %d characters'
                     % rex, q_rexspec, (d, rex[0], rex[1], to, seed), 'pattern'))
    for i, (nm, other) in enumerate(CONSEQUENCES):
        jobs.append(('never[%s !~ %s]' % (nm, other), 'words of any length',
                     q_consequence, ('never', i, to, seed), 'never'))
    for i, (nm, other) in enumerate(MUST_MATCH):
        jobs.append(('must[%s ~ %s]' % (nm, other), 'words of any length',
                     q_consequence, ('must', i, to, seed), 'must'))
    xl = 6 if tier == 'quick' else 10
    for d in ('found', 'captured', 'leftmost'):
        jobs.append(('libtool[%s,|dlname|<=%d]' % (d, xl),
                     'dlname: 1..%d characters over [A-Za-z0-9_.+-]; <=12 characters before the line '
                     '(not containing "dlname=\'"), <=6 after' % xl,
                     q_libtool, (d, xl, to, seed), 'libtool'))
    return jobs


def ch_conditions(tier):
    conds = []
    syms_all = [('f0', 'bool'), ('f1', 'bool'), ('f2', 'bool'),
                ('h0', 'bool'), ('h1', 'bool'), ('h2', 'bool'), ('h3', 'bool'),
                ('two0', 'bool'), ('two1', 'bool'), ('two2', 'bool'), ('two3', 'bool')] + \
               [('k%d' % i, 'int') for i in range(8)]
    shapes = [(1, 1), (1, 2), (2, 1), (2, 2)] if tier == 'quick' else \
        [(1, 1), (1, 2), (2, 1), (2, 2), (1, 3), (2, 3), (3, 2), (3, 3), (2, 4)]
    for nlibs, nlines in shapes:
        fixed = {'nlibs': nlibs, 'nlines': nlines}
        sym = []
        pre = []
        for a, t in syms_all:
            idx = int(a[-1])
            if a.startswith('f') and idx >= nlibs:
                fixed[a] = False
            elif (a.startswith('h') or a.startswith('two')) and idx >= nlines:
                fixed[a] = False
            elif a.startswith('k') and idx >= 2 * nlines:
                fixed[a] = -1
            else:
                sym.append((a, t))
                if a.startswith('k'):
                    pre.append('-1 <= %s < %d' % (a, nlibs))
        # partition the larger shapes by the first word's library
        parts = [None]
        if nlibs * nlines >= 6:
            parts = list(range(-1, nlibs))
        for k0 in parts:
            f = dict(fixed)
            sy = list(sym)
            pr = list(pre)
            if k0 is not None:
                f['k0'] = k0
                sy = [x for x in sy if x[0] != 'k0']
                pr = [x for x in pr if ' k0 ' not in x]
            conds.append(ch.Cond(
                'h_c19', 'ldd_loop', sy, pre=pr, fixed=f,
                timeout=170 if tier == 'quick' else 2400,
                name='loop[libs=%d,lines=%d%s]' % (nlibs, nlines, '' if k0 is None else ',k0=%d' % k0),
                bounds='%d requested libraries (each possibly an existing file), %d output lines of 1-2 words, '
                       'each line possibly a header, every assignment word->matching library (at most one)'
                       % (nlibs, nlines)))
    conds.append(ch.Cond('h_c19', 'sanitize', [('kind', 'int'), ('platform_darwin', 'bool')],
                         pre=['0 <= kind <= 4'], timeout=60, name='sanitize',
                         bounds='5 path shapes x {darwin, other}'))
    return conds


def run(report, tier, seed, only=None):
    ch.ensure_venv()
    report.encode('giscanner/shlibs.py', '_ldd_library_pattern', 'resolve_from_ldd_output',
                  'sanitize_shlib_path')
    report.encode('giscanner/utils.py', '_libtool_pat')
    report.assume(
        'words come from str.split(): they contain no whitespace; names contain no "/" or newline',
        're.escape makes every character of the name a literal (checked concretely for U+0001..U+02FF '
        'and samples) and works per character (stdlib contract)',
        'capture semantics are not modelled: captures are decided as uniqueness of decomposition',
        'code points above U+2FFFF are outside z3\'s character sort',
        'matching loop: the pattern objects are replaced by a symbolic word->library assignment '
        '(at most one library per word, the quantifier\'s assumption); os.path.isfile is a symbolic boolean')
    validate_translator(report)
    jobs = zre_jobs(tier, seed)
    if only:
        jobs = [j for j in jobs if only in j[0]]
    conds = ch_conditions(tier)
    if only:
        conds = [c for c in conds if only in c.name]
    ch.run('C19', conds, report, seed=seed)
    from vlib import zre
    res = zre.run_jobs([(name, fn, args, args[-2]) for name, bounds, fn, args, kind in jobs])
    for name, bounds, fn, args, kind in jobs:
        r = res[name]
        if r.get('result') == 'error':
            report.add(Item(name, 'ZRE', common.ERROR, bounds=bounds, detail=str(r.get('detail'))))
        else:
            report.add(_z3_item(name, bounds, lambda *a: r, (), kind, report))


def replay(payload):
    if payload.get('engine') == 'CH':
        rp = ch.replay(payload['module'], payload['fn'], payload['kwargs'])
        print(rp)
        return 1 if rp.get('ok') is False else 0
    if payload['kind'] == 'pattern':
        real, spec = impl_matches(payload['name'], payload['word']), spec_matches(payload['name'], payload['word'])
        print('real=%s spec=%s' % (real, spec))
        return 1 if real != spec else 0
    if payload['kind'] in ('never', 'must'):
        real = impl_matches(payload['name'], payload['word'])
        print('real=%s' % real)
        return 1 if real == (payload['kind'] == 'never') else 0
    from giscanner import utils
    m = utils._libtool_pat.search(payload['data'])
    got = m.groups()[0] if m else None
    print('extracted=%r' % (got,))
    return 1 if got != payload['dlname'] else 0
