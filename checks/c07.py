"""C07 — GIR files survive a read/write cycle unchanged."""
import glob
import os
import sys

from vlib import ch, common
from vlib.common import Item

sys.path.insert(0, ch.HARNESS_DIR)

FUNCS = [('giscanner/girwriter.py', ['GIRWriter (all _write_* methods reached)']),
         ('giscanner/girparser.py', ['GIRParser.parse_tree (all _parse_* methods reached)']),
         ('giscanner/xmlwriter.py', ['XMLWriter', 'build_xml_tag', 'collect_attributes']),
         ('giscanner/ast.py', ['node classes constructed by the reader'])]

KEY_BARE = 'bare-container-type-not-a-fixed-point'


def _classify(kwargs, rp):
    res = rp.get('result', '')
    if kwargs.get('type_override') in (8, 11) and kwargs.get('tkind') in (10, 11) and \
            ('GLib.List' in res or 'GLib.HashTable' in res):
        return KEY_BARE
    return None


def conditions(tier):
    import pipe
    import h_c07 as H
    quick = tier == 'quick'
    T = 300 if quick else 1500
    NT = pipe.N_TYPES
    NU = len(pipe.USER_TYPES)
    names = pipe.CALLABLE_KINDS
    conds = []
    for ck in ((0, 2, 3, 4) if quick else range(5)):
        for pos in (0, 1, 2):
            sym = [('tkind', 'int'), ('transfer', 'int'), ('direction', 'int'), ('nullable', 'bool'), ('optional', 'bool')]
            pre = ['0 <= tkind <= %d' % NT, '0 <= transfer <= 4']
            fixed = dict(ckind=ck, pos=pos)
            if quick:
                pre.append('direction in (0, 2)')
                fixed.update(not_nullable=False, skip=False, skip_callable=False, optional=False)
                sym.remove(('optional', 'bool'))
            else:
                pre.append('0 <= direction <= 5')
                sym += [('not_nullable', 'bool'), ('skip', 'bool'), ('skip_callable', 'bool')]
            conds.append(ch.Cond('h_c07', 'values', sym, pre=pre, fixed=fixed, timeout=T,
                                 name='values[%s,pos=%d]' % (names[ck], pos),
                                 bounds='one value of each of %d type kinds (and varargs) x transfer x direction x nullable x '
                                        'optional%s' % (NT, '' if quick else ' x not nullable x skip x skip on the callable')))
    for ck in ((0,) if quick else range(5)):
        for pos in (0, 1, 2):
            for tov in ((0, 1, 13) if quick else (0, 1, 4, 8, 13)):
                sym = [('tkind', 'int'), ('length', 'int'), ('fixed', 'int'), ('zt', 'int'), ('elt', 'int')]
                pre = ['0 <= tkind < %d' % NT, '0 <= length <= 2', '0 <= zt <= 4']
                if tov in (8, 11):
                    pre.append('tkind not in (10, 11)')
                fx = dict(ckind=ck, pos=pos, type_override=tov)
                if quick:
                    pre += ['fixed <= 1', 'fixed >= 0', 'elt in (0, 1)', 'length <= 1', 'zt != 2']
                    fx.update(direction=0, elt2=0)
                else:
                    pre += ['0 <= fixed <= 2', 'elt in (0, 1, 3, 6, 8)', 'direction in (0, 2)', 'elt2 in (0, 1)']
                    sym += [('direction', 'int'), ('elt2', 'int')]
                conds.append(ch.Cond('h_c07', 'arrays', sym, pre=pre, fixed=fx, timeout=T,
                                     name='arrays[%s,pos=%d,type=%s]' % (names[ck], pos, pipe.USER_TYPES[tov]),
                                     bounds='(array length/fixed-size/zero-terminated) x (element-type) on %d type kinds, '
                                            '(type %s)' % (NT, pipe.USER_TYPES[tov]), finding_classifier=_classify))
    conds.append(ch.Cond('h_c07', 'arrays', [('ckind', 'int'), ('pos', 'int'), ('tkind', 'int'), ('length', 'int'), ('zt', 'int')],
                         pre=['0 <= ckind <= 3', '0 <= pos <= 2', '0 <= tkind < %d' % NT, '0 <= length <= 1', 'zt in (0, 3)'],
                         fixed=dict(direction=0, fixed=2, elt=0, elt2=0, type_override=0), timeout=T,
                         name='arrays[fixed-size=0]', bounds='(array fixed-size=0 [length] [zero-terminated=1]) on %d type kinds' % NT,
                         finding_classifier=_classify))
    conds.append(ch.Cond('h_c07', 'arrays', [('ckind', 'int'), ('pos', 'int'), ('tkind', 'int'), ('type_override', 'int')],
                         pre=['0 <= ckind <= 3', '0 <= pos <= 2', 'tkind in (10, 11)', 'type_override in (8, 11)'],
                         fixed=dict(direction=0, length=0, fixed=0, zt=4, elt=0, elt2=0), timeout=T,
                         name='arrays[unknown (type) on GList*/GHashTable*]',
                         bounds='(type BarUnknown|FooUnknown) on a GList* / GHashTable* value',
                         finding_classifier=_classify))
    for ck, order in [(c, o) for c in ((0, 3) if quick else range(5)) for o in (0, 1, 2)]:
        sym = [('tkind', 'int'), ('scope', 'int'), ('closure', 'int'), ('destroy', 'int')]
        pre = ['0 <= tkind < %d' % NT, 'scope in (0, 1, 3)' if quick else '0 <= scope <= 4']
        pre += ['closure in (0, 1, 2, 5)', 'destroy in (0, 3, 5)'] if quick else ['0 <= closure <= 5', '0 <= destroy <= 5']
        conds.append(ch.Cond('h_c07', 'callbacks', sym, pre=pre, fixed=dict(ckind=ck, order=order), timeout=T,
                             name='callbacks[%s,order=%d]' % (names[ck], order),
                             bounds='scope x closure x destroy (existing, missing) x sibling order on %d type kinds' % NT))
    for tg in range(len(H.TARGETS)):
        sym = [('doc', 'int'), ('since', 'int'), ('deprecated', 'int'), ('attrs', 'int'), ('skip', 'bool')]
        pre = ['0 <= doc < %d' % len(H.TEXTS), '0 <= since <= 2', '0 <= deprecated <= 2', '0 <= attrs <= 3']
        fx = dict(target=tg)
        if quick:
            pre = ['doc in (0, 2, 5)', '0 <= since <= 2', 'deprecated in (0, 1)', 'attrs in (0, 2, 3)',
                   'since_doc in (0, 2)', 'dep_doc in (0, 3)']
            fx.update(stability=1, skip=False)
            sym = [('doc', 'int'), ('since', 'int'), ('deprecated', 'int'), ('attrs', 'int'), ('since_doc', 'int'),
                   ('dep_doc', 'int')]
        else:
            pre += ['0 <= since_doc < %d' % len(H.TEXTS), 'dep_doc in (0, 2, 3, 5)', '0 <= stability <= 3']
            sym += [('since_doc', 'int'), ('dep_doc', 'int'), ('stability', 'int')]
        conds.append(ch.Cond('h_c07', 'metadata', sym, pre=pre, fixed=fx, timeout=T,
                             name='metadata[%s]' % H.TARGETS[tg],
                             bounds='documentation text (%d variants incl. markup characters, newlines, tabs, non-ASCII, '
                                    'surrounding blanks), Since/Deprecated/Stability with and without text, attributes, '
                                    'skip on a %s; namespace with class, interface structs, record with callback/bit/'
                                    'array/private fields, union with nested struct, bitfield, constants of every kind, '
                                    'inline function, error domain, doc sections' % (len(H.TEXTS), H.TARGETS[tg])))
    for v in range(6):
        sym = [('ptype', 'int'), ('pflags', 'int'), ('sret', 'int'), ('when', 'int'), ('sflags', 'int')]
        pre = ['0 <= ptype < %d' % len(H.GTYPES), '0 <= when <= 3']
        fx = dict(variant=v)
        if quick:
            pre = ['0 <= ptype < %d' % len(H.GTYPES), 'when in (0, 2)', 'pflags in (0, 7, 9)', 'sret in (0, 2, 13)',
                   'sflags in (0, 15)']
            fx.update(sparam=0)
        else:
            pre += ['0 <= pflags <= 15', '0 <= sret <= %d' % len(H.GTYPES), '0 <= sflags <= 15', 'sparam in (0, 3, 6, 10)']
            sym.append(('sparam', 'int'))
        conds.append(ch.Cond('h_c07', 'classes', sym, pre=pre, fixed=fx, timeout=T, name='classes[variant %d]' % v,
                             bounds='dumped property type/flags, signal return/parameter/phase/flags; variant: plain, '
                                    'accessors, async/finish/sync triple, rename-to + emitter, ref/unref/value funcs + '
                                    'copy/free/foreign, virtual + setter/getter/default-value/transfer'))
    return conds


def _cycle_repo_files(report):
    """The GIR files of the repository through the same cycle (concrete; part of the statement)."""
    import h_c07 as H
    from giscanner import girparser
    import io
    files = sorted(set(glob.glob(os.path.join(common.REPO, 'gir', '*.gir')) +
                       glob.glob(os.path.join(common.REPO, 'tests', '**', '*.gir'), recursive=True)))
    ok = 0
    bad = {}
    for f in files:
        try:
            p = girparser.GIRParser()
            p.parse(f)
            d = H.cycle(p.get_namespace())
        except Exception as e:
            d = 'reader failed: %s: %s' % (type(e).__name__, e)
        if d is None:
            ok += 1
        else:
            bad[os.path.basename(f)] = d[:300]
    report.validation['repository_gir_files_cycled'] = len(files)
    report.validation['concrete_agreements'] = ok
    report.validation['repository_gir_files_not_fixed_points'] = bad
    return bad


def run(report, tier, seed, only=None):
    ch.ensure_venv()
    for f, names in FUNCS:
        report.encode(f, *names)
    report.assume(
        'namespace models come from the real scanner pipeline on scenario families (C lexer replaced by declaration '
        'records, dump subprocess by a fake tree, comment blocks built as objects)',
        'the XML is parsed with xml.etree (as the project reader does)',
        'oracle: the bytes written after reading back equal the bytes written first, a second cycle is again a '
        'fixed point, and the model read back equals the written model on names, kinds, types (incl. element types, '
        'array attributes), directions, transfers, nullability, scopes, indices, flags, documentation, versions and '
        'attributes (harness/py/h_c07.py: model_difference)')
    from vlib import gistub  # noqa: F401
    bad = _cycle_repo_files(report)
    if bad:
        report.add(Item('GIR files of the repository', 'CH', common.INCONCLUSIVE,
                        detail='files that are not fixed points of read+write (they are hand-written or expected outputs '
                               'of an older writer; reported, not decided here): %r' % (sorted(bad),)))
    conds = conditions(tier)
    if only:
        conds = [c for c in conds if only in c.name]
    ch.run('C07', conds, report, seed=seed)


def replay(payload):
    rp = ch.replay(payload['module'], payload['fn'], payload['kwargs'])
    print(rp)
    return 1 if rp.get('ok') is False else 0
