"""C10 — well-formed GTK-Doc comment blocks are parsed exactly."""
import sys

from vlib import ch, common

sys.path.insert(0, ch.HARNESS_DIR)

FUNCS = [('giscanner/annotationparser.py',
          ['GtkDocCommentBlockParser.parse_comment_blocks', 'parse_comment_block', '_parse_fields', '_parse_annotations',
           '_parse_annotation', '_parse_annotation_options_list', '_parse_annotation_options_dict',
           '_parse_annotation_options_unknown', '_clean_description_field', 'GtkDocAnnotatable.validate',
           'GtkDocCommentBlockWriter.write', '_serialize_annotations',
           'COMMENT_BLOCK_START_RE .. TAG_VALUE_STABILITY_RE (all line patterns, through the state machine)'])]


def conditions(tier):
    import h_c10 as H
    quick = tier == 'quick'
    T = 240 if quick else 1500
    conds = []
    lay = [('indent', 'int'), ('eol', 'int'), ('split', 'bool'), ('colon', 'bool'), ('cont_indent', 'int')]
    laypre = ['0 <= indent < %d' % len(H.INDENTS), '0 <= eol < %d' % len(H.EOLS), '0 <= cont_indent <= 1']
    none = dict(pset=0, pann=0, pdesc=0, bdesc=0, ret_ann=-1, ret_desc=0, since=0, deprecated=0, stab=0)
    # identifiers x identifier annotations x every layout
    for idn in range(len(H.IDENTS)):
        conds.append(ch.Cond('h_c10', 'block', [('ident_ann', 'int')] + lay,
                         pre=['0 <= ident_ann < %d' % len(H.IDENT_ANNS)] + laypre + (['indent in (0, 3, 4)', 'cont_indent == 0'] if quick else []),
                         fixed=dict(none, ident=idn), timeout=T, name='identifier lines[%s]' % H.IDENTS[idn],
                         bounds='7 identifier forms (symbol, Class:property, Class::signal, Struct.field, SECTION, constant, '
                                'type) x 9 annotation lists (lists, key=value, unknown annotation) x layouts (5 indentations '
                                'before the asterisk, LF/CRLF/CR, annotations on one or several lines, optional colon)'))
    # parameters
    for ps, spl in [(a, b) for a in range(1, len(H.PARAM_SETS)) for b in (False, True)]:
        fx = dict(none, pset=ps, ident=0, split=spl)
        del fx['pann'], fx['pdesc']
        sym = [('ident_ann', 'int'), ('pann', 'int'), ('pdesc', 'int')] + [x for x in lay if x[0] != 'split']
        pre = ['ident_ann in (0, 4)', '0 <= pann < %d' % len(H.PARAM_ANNS), '0 <= pdesc < %d' % len(H.DESCS)] + laypre
        if quick:
            pre += ['indent in (0, 3)', 'eol <= 1', 'pdesc in (0, 1, 2, 6)']
        conds.append(ch.Cond('h_c10', 'block', sym, pre=pre, fixed=fx, timeout=T, name='parameters[%s%s]' % (', '.join(H.PARAM_SETS[ps]), '; annotations on several lines' if spl else ''),
                             bounds='parameters %r: 14 annotation lists x 6 descriptions (absent, one line, wrapped, with colon '
                                    'and parentheses, non-ASCII) x layouts' % (H.PARAM_SETS[ps],)))
    # description and tags
    for bd, spl in [(a, b) for a in range(len(H.BLOCK_DESCS)) for b in (False, True)]:
        fx = dict(none, ident=0, ident_ann=1, pset=2, pann=2, pdesc=2, bdesc=bd, split=spl)
        for k in ('ret_ann', 'ret_desc', 'since', 'deprecated', 'stab'):
            del fx[k]
        sym = [('ret_ann', 'int'), ('ret_desc', 'int'), ('since', 'int'), ('deprecated', 'int'), ('stab', 'int'),
               ('indent', 'int'), ('eol', 'int'), ('cont_indent', 'int')]
        pre = ['-1 <= ret_ann < %d' % len(H.PARAM_ANNS), '0 <= ret_desc < %d' % len(H.DESCS),
               '0 <= since < %d' % len(H.VERSIONS), '0 <= deprecated < %d' % len(H.VERSIONS), '0 <= stab < %d' % len(H.STABS),
               '0 <= cont_indent <= 1']
        fx['colon'] = True
        if quick:
            pre += ['indent in (0, 4)', 'eol in (0, 2)', 'ret_ann in (-1, 0, 2, 7)', 'ret_desc in (0, 1, 6)', 'since <= 2',
                    'deprecated in (0, 3)', 'stab in (0, 2)', 'cont_indent == 0']
        else:
            pre += ['0 <= indent < %d' % len(H.INDENTS), '0 <= eol < %d' % len(H.EOLS)]
        conds.append(ch.Cond('h_c10', 'block', sym, pre=pre, fixed=fx, timeout=T, name='description and tags[%d%s]' % (bd, ', annotations on several lines' if spl else ''),
                             bounds='block description variant %d (absent, one paragraph, two wrapped paragraphs, embedded '
                                    'code with indentation, ending in a colon) x Returns (annotations x descriptions) x '
                                    'Since x Deprecated x Stability x layouts' % bd))
    return conds


def run(report, tier, seed, only=None):
    ch.ensure_venv()
    for f, names in FUNCS:
        report.encode(f, *names)
    report.assume(
        'block texts are rendered from a model and a layout, both finite choices; the vocabulary (identifier forms, 23 '
        'annotation lists, 6+5 description texts, version/stability values) is chosen, arbitrary strings are outside the bounds',
        'well-formedness as in the statement: tokens inside one annotation separated by single blanks, descriptions not '
        'beginning with a parenthesis; a description continued on further lines keeps the indentation it was written with',
        'an absent description is reported as None or as the empty string depending on the line: both are read as absent',
        'MessageLogger replaced by a recorder')
    conds = conditions(tier)
    if only:
        conds = [c for c in conds if only in c.name]
    ch.run('C10', conds, report, seed=seed)


def replay(payload):
    rp = ch.replay(payload['module'], payload['fn'], payload['kwargs'])
    print(rp)
    return 1 if rp.get('ok') is False else 0
