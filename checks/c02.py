"""C02 — undocumented APIs get the documented default ownership, types and roles."""
import sys

from vlib import ch, common

sys.path.insert(0, ch.HARNESS_DIR)

FUNCS = [('giscanner/transformer.py',
          ['Transformer.parse', '_create_function', '_create_parameters', '_create_parameter', '_create_return',
           '_create_member', '_create_type_from_base', '_create_source_type', '_create_complete_source_type',
           '_canonicalize_ctype', 'create_type_from_ctype_string', '_create_bare_container_type',
           '_create_callback', '_create_typedef']),
         ('giscanner/ast.py', ['type_names', 'TypeContainer.__init__', 'Parameter.__init__']),
         ('giscanner/maintransformer.py',
          ['MainTransformer.transform', '_pass_callable_defaults', '_get_transfer_default',
           '_get_transfer_default_param', '_get_transfer_default_return',
           '_get_transfer_default_returntype_basic', '_apply_annotations_param_ret_common',
           '_pass3_callable_callbacks', '_pass3_callable_throws', '_pair_class_virtuals']),
         ('giscanner/girwriter.py', ['GIRWriter._write_parameter', '_write_return_type', '_write_type',
                                    '_write_callable', '_write_field'])]


def conditions(tier):
    import pipe
    import h_c02 as H
    quick = tier == 'quick'
    T = 200 if quick else 1200
    conds = []
    posname = ('parameter', 'return value', 'record field')
    for pos in (0, 1, 2):
        for depth in (0, 1, 2):
            conds.append(ch.Cond(
                'h_c02', 'type_spelling', [('sidx', 'int'), ('qbase', 'int'), ('qptr', 'int'), ('arr', 'int')],
                pre=['0 <= sidx < %d' % H.N_SPELL, '0 <= qbase <= 3', '0 <= qptr <= 3', '0 <= arr <= 2'],
                fixed=dict(pos=pos, depth=depth), timeout=T,
                name='type_spelling[%s,%s]' % (posname[pos], 'T' + '*' * depth),
                bounds='%d C spellings (every C/stdint/GLib basic spelling the scanner knows) x const/volatile on '
                       'the pointee x const/volatile on the outer pointer, pointer depth %d' % (H.N_SPELL, depth)))
    for ck in (0, 1, 2, 3):
        for ptr in (0, 1, 2):
            if quick and ptr and ck in (1, 3):
                continue
            conds.append(ch.Cond(
                'h_c02', 'roles', [('n', 'int'), ('k0', 'int'), ('k1', 'int'), ('k2', 'int')],
                pre=['0 <= n <= 3', '0 <= k0 <= 7', '0 <= k1 <= 7', '0 <= k2 <= 7'],
                fixed=dict(ckind=ck, k3=0, ptr=ptr), timeout=T,
                name='roles[%s,<=3 parameters,%s]' % (pipe.CALLABLE_KINDS[ck], H.PTR_SPELLINGS[ptr]),
                bounds='every arrangement of <=3 parameters over {%s}; untyped pointers spelled %s%s'
                       % (', '.join(H.ROLE_KINDS), H.PTR_SPELLINGS[ptr],
                          ' (same roles as with gpointer)' if ptr else '')))
    for ck in ((0, 2) if quick else (0, 1, 2, 3)):
        for k0 in range(8):
            conds.append(ch.Cond(
                'h_c02', 'roles', [('k1', 'int'), ('k2', 'int'), ('k3', 'int')],
                pre=['0 <= k1 <= 7', '0 <= k2 <= 7', '0 <= k3 <= 7'],
                fixed=dict(ckind=ck, n=4, k0=k0), timeout=T,
                name='roles[%s,4 parameters,first=%s]' % (pipe.CALLABLE_KINDS[ck], H.ROLE_KINDS[k0]),
                bounds='every arrangement of 4 parameters over {%s}' % ', '.join(H.ROLE_KINDS)))
    conds.append(ch.Cond('h_c02', 'typedef_return', [('sidx', 'int'), ('depth', 'int'), ('qbase', 'int')],
                         pre=['0 <= sidx < %d' % H.N_SPELL, '0 <= depth <= 1', '0 <= qbase <= 1'], timeout=T,
                         name='typedef_return',
                         bounds='return type is a typedef of [const] T[*] for every spelling T: default transfer looks through '
                                'the alias (basic: none, const string: none, string: full)'))
    for ck in (0, 1, 2, 3):
        conds.append(ch.Cond(
            'h_c02', 'direction_defaults', [('tkind', 'int'), ('direction', 'int')],
            pre=['0 <= tkind < %d' % pipe.N_TYPES, '0 <= direction <= 5'], fixed=dict(ckind=ck), timeout=T,
            name='direction_defaults[%s]' % pipe.CALLABLE_KINDS[ck],
            bounds='direction annotation alone (in, out, out caller-/callee-allocates, inout) on %d type kinds'
                   % pipe.N_TYPES))
    return conds


def run(report, tier, seed, only=None):
    ch.ensure_venv()
    for f, names in FUNCS:
        report.encode(f, *names)
    report.assume(
        'C lexer (giscanner._giscanner) replaced by plain declaration records fed to the real SourceSymbol/SourceType wrappers',
        'oracle table of C spellings is written from the C standard and GLib typedefs, independent of ast.type_names',
        'pointer to _Bool: the statement maps _Bool by value only; not asserted',
        'a gpointer whose name does not end in "data", several candidate user-data pointers, and an async-ready '
        'callback directly followed by a destroy-notify are arrangements the statement does not decide: not asserted',
        'MessageLogger replaced by a recorder; cache disabled; dump subprocess replaced by a fake tree')
    import h_c02 as H
    gap = H.coverage_gap()
    if gap:
        report.add(common.Item('oracle-coverage', 'CH', common.INCONCLUSIVE,
                               detail='C spellings known to ast.type_names but absent from the oracle table: %r' % gap))
    conds = conditions(tier)
    if only:
        conds = [c for c in conds if only in c.name]
    ch.run('C02', conds, report, seed=seed)


def replay(payload):
    rp = ch.replay(payload['module'], payload['fn'], payload['kwargs'])
    print(rp)
    return 1 if rp.get('ok') is False else 0
